"""ndvc.arr -- SymArr: object-dtype ndarray subclass closing the known divergences between
numpy on dtype=object and numpy on float64/complex128 (assumption A2)."""
import builtins
import numpy as np
import z3
from .sym import R, C, Z, B, SYM, lift, lb, ite, is_sym, NeedsConcrete, CTX, _and


def wrap(r):
    """view any array result as SymArr when it holds objects"""
    if isinstance(r, SymArr):
        return r
    if isinstance(r, np.ndarray):
        return r.view(SymArr) if r.dtype == object else r
    if isinstance(r, tuple):
        return tuple(wrap(v) for v in r)
    if isinstance(r, list):
        return [wrap(v) for v in r]
    return r


def asobj(a):
    """object ndarray (plain) of a"""
    if isinstance(a, np.ndarray):
        return np.asarray(a, dtype=object) if a.dtype != object else np.asarray(a)
    if isinstance(a, SYM):
        out = np.empty((), dtype=object)
        out[()] = a
        return out
    if isinstance(a, (list, tuple)):
        # build elementwise so that nested symbolic scalars are never iterated/len()'d
        try:
            arrs = [asobj(v) for v in a]
            shp = arrs[0].shape if arrs else ()
            if all(x.shape == shp for x in arrs):
                out = np.empty((len(arrs),) + shp, dtype=object)
                for k, x in enumerate(arrs):
                    out[k] = x if shp != () else x[()]
                return out
        except Exception:
            pass
    return np.asarray(a, dtype=object)


def emap(fn, *arrs):
    """elementwise map with broadcasting over object arrays -> SymArr (or scalar for 0-d scalar inputs)"""
    scalar = all(not isinstance(a, np.ndarray) for a in arrs)
    bs = np.broadcast_arrays(*[asobj(a) for a in arrs], subok=False)
    # numpy ufuncs keep the memory layout of their inputs (order='K'): do the same
    forder = any(isinstance(a, np.ndarray) and a.ndim > 1 and a.flags.f_contiguous and not a.flags.c_contiguous for a in arrs)
    out = np.empty(bs[0].shape, dtype=object, order='F' if forder else 'C')
    for idx in np.ndindex(out.shape):
        out[idx] = fn(*[b[idx] for b in bs])
    if scalar and out.shape == ():
        return out[()]
    return out.view(SymArr)


def _is_symmask(key):
    return isinstance(key, np.ndarray) and key.dtype == object and key.size > 0 and \
        any(isinstance(v, B) for v in key.ravel())


class SymArr(np.ndarray):
    __array_priority__ = 100

    def __new__(cls, data):
        return asobj(data).view(cls)

    def __array_finalize__(self, obj):
        pass

    # ---- comparisons return arrays of B instead of forcing bool()
    def _cmpa(self, o, name):
        def f(u, v):
            u, v = lift(u), lift(v)
            r = getattr(u, name)(v)
            if r is NotImplemented:
                r = getattr(v, {'__lt__': '__gt__', '__gt__': '__lt__', '__le__': '__ge__', '__ge__': '__le__',
                                '__eq__': '__eq__', '__ne__': '__ne__'}[name])(u)
            if r is NotImplemented:
                raise TypeError('unorderable symbolic values (complex?) in %s' % name)
            return r
        return emap(f, self, o)

    def __lt__(self, o): return self._cmpa(o, '__lt__')
    def __le__(self, o): return self._cmpa(o, '__le__')
    def __gt__(self, o): return self._cmpa(o, '__gt__')
    def __ge__(self, o): return self._cmpa(o, '__ge__')
    def __eq__(self, o): return self._cmpa(o, '__eq__')
    def __ne__(self, o): return self._cmpa(o, '__ne__')
    __hash__ = None

    def __invert__(self):
        return emap(lambda v: ~lb(v), self)

    def __or__(self, o):
        return emap(lambda u, v: lb(u) | lb(v), self, o)
    __ror__ = __or__

    def __and__(self, o):
        return emap(lambda u, v: lb(u) & lb(v), self, o)
    __rand__ = __and__

    # ---- masked assignment with symbolic masks becomes an if-then-else merge
    def __setitem__(self, key, val):
        if _is_symmask(key):
            if key.shape != self.shape:
                raise IndexError('boolean index did not match indexed array')
            valb = np.broadcast_to(asobj(val), self.shape)
            base = np.asarray(self)
            for idx in np.ndindex(self.shape):
                np.ndarray.__setitem__(self, idx, ite(key[idx], valb[idx], base[idx]))
            return
        if isinstance(key, Z) or (isinstance(key, tuple) and any(isinstance(k, Z) for k in key)):
            raise NeedsConcrete('symbolic index in assignment')
        # numpy 2.x: float arrays reject assigning a size-1 array (ndim>0) to a single element
        tgt_is_elem = _selects_single_element(self, key)
        if tgt_is_elem and isinstance(val, np.ndarray) and val.ndim > 0:
            if val.size == 1:
                raise ValueError('setting an array element with a sequence. (numpy 2 rejects assigning a size-1 '
                                 'array with ndim>0 to an element of a float array)')
            raise ValueError('setting an array element with a sequence.')
        np.ndarray.__setitem__(self, key, val)

    def __getitem__(self, key):
        if _is_symmask(key):
            raise NeedsConcrete('selection by a symbolic boolean mask')
        if isinstance(key, Z):
            return select(list(np.asarray(self)), key)
        r = np.ndarray.__getitem__(self, key)
        return r

    @property
    def flat(self):
        return FlatView(self)

    @property
    def real(self):
        return emap(lambda v: lift(v).real, self)

    @property
    def imag(self):
        return emap(lambda v: lift(v).imag, self)

    def conjugate(self):
        return emap(lambda v: lift(v).conjugate(), self)
    conj = conjugate

    def all(self, axis=None, **kw):
        vals = [lb(v) for v in np.asarray(self).ravel()]
        if axis is not None:
            raise NeedsConcrete('all(axis=...) on symbolic booleans')
        return B(z3.And(*[v.t for v in vals])) if vals else True

    def any(self, axis=None, **kw):
        vals = [lb(v) for v in np.asarray(self).ravel()]
        if axis is not None:
            raise NeedsConcrete('any(axis=...) on symbolic booleans')
        return B(z3.Or(*[v.t for v in vals])) if vals else False

    def clip(self, min=None, max=None, **kw):
        def f(v):
            v = lift(v)
            if isinstance(v, C):
                # numpy clips complex lexicographically; only used as an overflow guard (|.| <= 1e150):
                # recorded as a magnitude precondition, value unchanged
                CTX.assumed.append('clip of a complex value is the identity (magnitude precondition)')
                return v
            if min is not None:
                v = ite(v < min, lift(min), v)
            if max is not None:
                v = ite(v > max, lift(max), v)
            return v
        return emap(f, self)

    def sum(self, axis=None, **kw):
        a = np.asarray(self)
        if a.size == 0:
            return np.ndarray.sum(a.astype(float), axis=axis)
        return wrap(np.ndarray.sum(a, axis=axis, **{k: v for k, v in kw.items() if k in ('keepdims',)}))

    def squeeze(self, *a, **k):
        return wrap(np.ndarray.squeeze(np.asarray(self), *a, **k))

    def astype(self, dtype, **kw):
        from .overlay import _cast
        return _cast(self.copy(), dtype)

    def item(self, *a):
        return np.asarray(self).item(*a)

    def tolist(self):
        return np.asarray(self).tolist()


def _selects_single_element(arr, key):
    if not isinstance(key, tuple):
        key = (key,)
    if len(key) != arr.ndim:
        return False
    return all(isinstance(k, (int, np.integer)) for k in key)


def _abstract_real_conditions(t):
    """replace every maximal boolean subterm that talks about reals by a fresh boolean constant (same subterm -> same
    constant): the integer structure of an index term is kept, its data-dependent conditions become free"""
    cache = {}
    hasreal = {}

    def real_inside(e):
        k = e.get_id()
        if k not in hasreal:
            if e.sort() == z3.RealSort():
                hasreal[k] = True
            else:
                hasreal[k] = any(real_inside(c) for c in e.children())
        return hasreal[k]

    def go(e):
        k = e.get_id()
        if k in cache:
            return cache[k]
        if z3.is_bool(e) and real_inside(e):
            r = z3.Bool('ab!%d' % k)
        elif z3.is_app(e) and e.num_args() > 0:
            r = e.decl()(*[go(c) for c in e.children()])
        else:
            r = e
        cache[k] = r
        return r
    return go(t)


def select(items, idx):
    """items[idx] for a symbolic integer idx (exact index semantics as If-terms).  Positions that idx provably cannot
    take (decided by the solver on the index term alone) are pruned, so the gathered term only mentions the entries
    that can actually be selected."""
    if not isinstance(idx, Z):
        return items[idx]
    n = len(items)
    t = z3.simplify(idx.t)
    if z3.is_int_value(t):
        return items[t.as_long()]
    feas = []
    s = z3.Solver()
    s.set('timeout', 2000)
    ta = _abstract_real_conditions(t)       # sound over-approximation of the values idx can take
    for i in range(n):
        s.push()
        s.add(ta == i)
        r = s.check()
        s.pop()
        if r != z3.unsat:
            feas.append(i)
    if not feas:
        feas = list(range(n))
    e = items[feas[-1]]
    for i in reversed(feas[:-1]):
        e = ite(B(t == i), items[i], e)
    return e


class FlatView(object):
    def __init__(self, arr):
        self.arr = arr

    def __getitem__(self, idx):
        flat = list(np.asarray(self.arr).ravel())
        if isinstance(idx, Z):
            return select(flat, idx)
        if isinstance(idx, np.ndarray) and idx.dtype == object:
            return SymArr([select(flat, z) for z in idx.ravel()]).reshape(idx.shape)
        return wrap(np.asarray(self.arr).ravel()[idx])

    def __setitem__(self, idx, val):
        np.asarray(self.arr).flat[idx] = val

    def __iter__(self):
        return iter(np.asarray(self.arr).ravel())

    def __len__(self):
        return self.arr.size


class IdxSet(object):
    """result of flatnonzero on a symbolic mask: a symbolic index set"""

    def __init__(self, bits):
        self.bits = [lb(b).t for b in bits]

    @property
    def size(self):
        return Z(z3.Sum([z3.If(b, 1, 0) for b in self.bits]) if self.bits else z3.IntVal(0))

    def __getitem__(self, k):
        k = k if isinstance(k, Z) else Z(k)
        cnt = z3.IntVal(0)
        res = z3.IntVal(-1)
        for i, b in enumerate(self.bits):
            res = z3.If(z3.And(b, cnt == k.t, res == -1), z3.IntVal(i), res)
            cnt = cnt + z3.If(b, 1, 0)
        return Z(res)
