"""concrete (floating point, real numpy) case generators shared by the engine and the native replays; numpy only"""
import warnings
import numpy as np

CC_FUNS = [('x**3+x**2', lambda x: x ** 3 + x ** 2), ('(x-1)**2*x', lambda x: (x - 1) ** 2 * x), ('1/(1+x**2)', lambda x: 1 / (1 + x ** 2)),
           ('exp(x)*x**2', lambda x: np.exp(x) * x ** 2)]
CC_ARRAYS = [np.array([0.0, 0.5, 1.0, -2.0]), np.array([[1.0, 0.25], [0.0, 3.0]]), np.array([0.7, 1.3])]


def concrete_complex_step_cases(nd):
    """the clause `evaluating that element alone as a scalar gives the same value ... within the error estimate for the
    complex-step methods` on concrete arrays that contain exact roots of the base of a power next to ordinary elements
    (floating point, real numpy)"""
    bad = []
    cnt = 0
    with warnings.catch_warnings():
        warnings.simplefilter('ignore')
        for method, n in [('complex', 1), ('complex', 2), ('multicomplex', 1), ('multicomplex', 2)]:
            for name, f in CC_FUNS:
                d = nd.Derivative(f, method=method, n=n, full_output=True)
                for arr in CC_ARRAYS:
                    val, info = d(arr)
                    cnt += 1
                    if np.shape(val) != arr.shape:
                        bad.append(dict(fun=name, method=method, n=n, problem='shape')); continue
                    for idx in np.ndindex(arr.shape):
                        sv, si = d(float(arr[idx]))
                        tol = abs(info.error_estimate[idx]) + abs(si.error_estimate) + 1e-9 * max(1.0, abs(sv))
                        if not abs(val[idx] - sv) <= tol:
                            bad.append(dict(fun=name, method=method, n=n, array=arr.tolist(), element=float(arr[idx]), in_array=float(val[idx]),
                                            alone=float(sv), error_estimates=(float(info.error_estimate[idx]), float(si.error_estimate))))
                            break
    return cnt, bad




# ------------------------------------------------------------------------------------------------------------------
# small arguments: exact rational reference by power series (|u| <= 1e-3, 14 terms: truncation below 1e-40 relative)
class _QC(object):
    """complex number with Fraction components"""
    __slots__ = ('re', 'im')

    def __init__(self, re, im=0):
        from fractions import Fraction
        self.re, self.im = Fraction(re), Fraction(im)

    def __add__(self, o):
        o = o if isinstance(o, _QC) else _QC(o)
        return _QC(self.re + o.re, self.im + o.im)
    __radd__ = __add__

    def __sub__(self, o):
        o = o if isinstance(o, _QC) else _QC(o)
        return _QC(self.re - o.re, self.im - o.im)

    def __mul__(self, o):
        o = o if isinstance(o, _QC) else _QC(o)
        return _QC(self.re * o.re - self.im * o.im, self.re * o.im + self.im * o.re)
    __rmul__ = __mul__

    def __truediv__(self, o):
        o = o if isinstance(o, _QC) else _QC(o)
        d = o.re * o.re + o.im * o.im
        return _QC((self.re * o.re + self.im * o.im) / d, (self.im * o.re - self.re * o.im) / d)


def _series(u, coef, terms=14):
    acc, p = _QC(0), _QC(1)
    for k in range(terms):
        c = coef(k)
        if c:
            acc = acc + p * c
        p = p * u
    return acc


def _fact(k):
    import math
    return math.factorial(k)


_SMALL = {
    'expm1': lambda u: _series(u, lambda k: 0 if k == 0 else __import__('fractions').Fraction(1, _fact(k))),
    'sin': lambda u: _series(u, lambda k: 0 if k % 2 == 0 else __import__('fractions').Fraction((-1) ** (k // 2), _fact(k))),
    'sinh': lambda u: _series(u, lambda k: 0 if k % 2 == 0 else __import__('fractions').Fraction(1, _fact(k))),
    'tan': lambda u: _series(u, lambda k: 0 if k % 2 == 0 else __import__('fractions').Fraction((-1) ** (k // 2), _fact(k))) /
    _series(u, lambda k: 0 if k % 2 else __import__('fractions').Fraction((-1) ** (k // 2), _fact(k))),
    'tanh': lambda u: _series(u, lambda k: 0 if k % 2 == 0 else __import__('fractions').Fraction(1, _fact(k))) /
    _series(u, lambda k: 0 if k % 2 else __import__('fractions').Fraction(1, _fact(k))),
}


def small_argument_cases(Bicomplex, rtol=1e-12):
    """functions whose real-domain value vanishes at 0 and that the class evaluates without cancellation: each of the four
    components agrees with the idempotent spec e1 f(z1 - i z2) + e2 f(z1 + i z2) to `rtol` RELATIVE to that component,
    for base points 1e-9 .. 3e-4 and perturbations of relative size 1e-6 .. 1e-1 (floating point; the spec is evaluated
    in exact rational arithmetic by power series)"""
    from fractions import Fraction
    bad = []
    cnt = 0
    with warnings.catch_warnings():
        warnings.simplefilter('ignore')
        for name, f in _SMALL.items():
            for x in (1e-9, 1e-7, 1e-5, -1e-6, 3e-4):
                for rel in (1e-3, 1e-1, 1e-6):
                    h = abs(x) * rel
                    z = Bicomplex(x + 1j * h, h + 0.5j * h)
                    out = getattr(z, name)()
                    z1 = _QC(Fraction(float(z.z1.real)), Fraction(float(z.z1.imag)))
                    z2 = _QC(Fraction(float(z.z2.real)), Fraction(float(z.z2.imag)))
                    iz2 = _QC(0, 1) * z2
                    fu, fv = f(z1 - iz2), f(z1 + iz2)
                    s1 = (fu + fv) * Fraction(1, 2)
                    s2 = (fu - fv) * _QC(0, Fraction(1, 2))
                    cnt += 1
                    got = [out.z1.real, out.z1.imag, out.z2.real, out.z2.imag]
                    want = [s1.re, s1.im, s2.re, s2.im]
                    for cname, g, w in zip(('real', 'imag1', 'imag2', 'imag12'), got, want):
                        g = Fraction(float(g))
                        if w == 0:
                            continue
                        if abs(g - w) > Fraction(rtol) * abs(w):
                            bad.append(dict(function=name, x=x, h=h, component=cname, got=float(g), spec=float(w),
                                            relative_error=float(abs(g - w) / abs(w))))
                            break
    return cnt, bad
