"""concrete (floating point, real numpy) case generators shared by the engine and the native replays; numpy only"""
import warnings
import numpy as np

CC_FUNS = [('x**3+x**2', lambda x: x ** 3 + x ** 2), ('(x-1)**2*x', lambda x: (x - 1) ** 2 * x), ('1/(1+x**2)', lambda x: 1 / (1 + x ** 2)),
           ('exp(x)*x**2', lambda x: np.exp(x) * x ** 2)]
CC_ARRAYS = [np.array([0.0, 0.5, 1.0, -2.0]), np.array([[1.0, 0.25], [0.0, 3.0]]), np.array([0.7, 1.3])]


def concrete_complex_step_cases(nd):
    """the clause `evaluating that element alone as a scalar gives the same value ... within the error estimate for the
    complex-step methods` on concrete arrays that contain exact roots of the base of a power next to ordinary elements
    (floating point, real numpy)"""
    bad = []
    cnt = 0
    with warnings.catch_warnings():
        warnings.simplefilter('ignore')
        for method, n in [('complex', 1), ('complex', 2), ('multicomplex', 1), ('multicomplex', 2)]:
            for name, f in CC_FUNS:
                d = nd.Derivative(f, method=method, n=n, full_output=True)
                for arr in CC_ARRAYS:
                    val, info = d(arr)
                    cnt += 1
                    if np.shape(val) != arr.shape:
                        bad.append(dict(fun=name, method=method, n=n, problem='shape')); continue
                    for idx in np.ndindex(arr.shape):
                        sv, si = d(float(arr[idx]))
                        tol = abs(info.error_estimate[idx]) + abs(si.error_estimate) + 1e-9 * max(1.0, abs(sv))
                        if not abs(val[idx] - sv) <= tol:
                            bad.append(dict(fun=name, method=method, n=n, array=arr.tolist(), element=float(arr[idx]), in_array=float(val[idx]),
                                            alone=float(sv), error_estimates=(float(info.error_estimate[idx]), float(si.error_estimate))))
                            break
    return cnt, bad


