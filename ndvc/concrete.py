"""concrete (floating point, real numpy) case generators shared by the engine and the native replays; numpy only"""
import warnings
import numpy as np

CC_FUNS = [('x**3+x**2', lambda x: x ** 3 + x ** 2), ('(x-1)**2*x', lambda x: (x - 1) ** 2 * x), ('1/(1+x**2)', lambda x: 1 / (1 + x ** 2)),
           ('exp(x)*x**2', lambda x: np.exp(x) * x ** 2)]
CC_ARRAYS = [np.array([0.0, 0.5, 1.0, -2.0]), np.array([[1.0, 0.25], [0.0, 3.0]]), np.array([0.7, 1.3])]


def concrete_complex_step_cases(nd):
    """the clause `evaluating that element alone as a scalar gives the same value ... within the error estimate for the
    complex-step methods` on concrete arrays that contain exact roots of the base of a power next to ordinary elements
    (floating point, real numpy)"""
    bad = []
    cnt = 0
    with warnings.catch_warnings():
        warnings.simplefilter('ignore')
        for method, n in [('complex', 1), ('complex', 2), ('multicomplex', 1), ('multicomplex', 2)]:
            for name, f in CC_FUNS:
                d = nd.Derivative(f, method=method, n=n, full_output=True)
                for arr in CC_ARRAYS:
                    val, info = d(arr)
                    cnt += 1
                    if np.shape(val) != arr.shape:
                        bad.append(dict(fun=name, method=method, n=n, problem='shape')); continue
                    for idx in np.ndindex(arr.shape):
                        sv, si = d(float(arr[idx]))
                        tol = abs(info.error_estimate[idx]) + abs(si.error_estimate) + 1e-9 * max(1.0, abs(sv))
                        if not abs(val[idx] - sv) <= tol:
                            bad.append(dict(fun=name, method=method, n=n, array=arr.tolist(), element=float(arr[idx]), in_array=float(val[idx]),
                                            alone=float(sv), error_estimates=(float(info.error_estimate[idx]), float(si.error_estimate))))
                            break
    return cnt, bad




# ------------------------------------------------------------------------------------------------------------------
# small arguments: exact rational reference by power series (|u| <= 1e-3, 14 terms: truncation below 1e-40 relative)
class _QC(object):
    """complex number with Fraction components"""
    __slots__ = ('re', 'im')

    def __init__(self, re, im=0):
        from fractions import Fraction
        self.re, self.im = Fraction(re), Fraction(im)

    def __add__(self, o):
        o = o if isinstance(o, _QC) else _QC(o)
        return _QC(self.re + o.re, self.im + o.im)
    __radd__ = __add__

    def __sub__(self, o):
        o = o if isinstance(o, _QC) else _QC(o)
        return _QC(self.re - o.re, self.im - o.im)

    def __mul__(self, o):
        o = o if isinstance(o, _QC) else _QC(o)
        return _QC(self.re * o.re - self.im * o.im, self.re * o.im + self.im * o.re)
    __rmul__ = __mul__

    def __truediv__(self, o):
        o = o if isinstance(o, _QC) else _QC(o)
        d = o.re * o.re + o.im * o.im
        return _QC((self.re * o.re + self.im * o.im) / d, (self.im * o.re - self.re * o.im) / d)

    def __rtruediv__(self, o):
        return _QC(o) / self

    def __rsub__(self, o):
        return _QC(o) - self


def _series(u, coef, terms=14):
    acc, p = _QC(0), _QC(1)
    for k in range(terms):
        c = coef(k)
        if c:
            acc = acc + p * c
        p = p * u
    return acc


def _fact(k):
    import math
    return math.factorial(k)


_SMALL = {
    'expm1': lambda u: _series(u, lambda k: 0 if k == 0 else __import__('fractions').Fraction(1, _fact(k))),
    'sin': lambda u: _series(u, lambda k: 0 if k % 2 == 0 else __import__('fractions').Fraction((-1) ** (k // 2), _fact(k))),
    'sinh': lambda u: _series(u, lambda k: 0 if k % 2 == 0 else __import__('fractions').Fraction(1, _fact(k))),
    'tan': lambda u: _series(u, lambda k: 0 if k % 2 == 0 else __import__('fractions').Fraction((-1) ** (k // 2), _fact(k))) /
    _series(u, lambda k: 0 if k % 2 else __import__('fractions').Fraction((-1) ** (k // 2), _fact(k))),
    'tanh': lambda u: _series(u, lambda k: 0 if k % 2 == 0 else __import__('fractions').Fraction(1, _fact(k))) /
    _series(u, lambda k: 0 if k % 2 else __import__('fractions').Fraction(1, _fact(k))),
}


def small_argument_cases(Bicomplex, rtol=1e-12):
    """functions whose real-domain value vanishes at 0 and that the class evaluates without cancellation: each of the four
    components agrees with the idempotent spec e1 f(z1 - i z2) + e2 f(z1 + i z2) to `rtol` RELATIVE to that component,
    for base points 1e-9 .. 3e-4 and perturbations of relative size 1e-6 .. 1e-1 (floating point; the spec is evaluated
    in exact rational arithmetic by power series)"""
    from fractions import Fraction
    bad = []
    cnt = 0
    with warnings.catch_warnings():
        warnings.simplefilter('ignore')
        for name, f in _SMALL.items():
            for x in (1e-9, 1e-7, 1e-5, -1e-6, 3e-4):
                for rel in (1e-3, 1e-1, 1e-6):
                    h = abs(x) * rel
                    z = Bicomplex(x + 1j * h, h + 0.5j * h)
                    out = getattr(z, name)()
                    z1 = _QC(Fraction(float(z.z1.real)), Fraction(float(z.z1.imag)))
                    z2 = _QC(Fraction(float(z.z2.real)), Fraction(float(z.z2.imag)))
                    iz2 = _QC(0, 1) * z2
                    fu, fv = f(z1 - iz2), f(z1 + iz2)
                    s1 = (fu + fv) * Fraction(1, 2)
                    s2 = (fu - fv) * _QC(0, Fraction(1, 2))
                    cnt += 1
                    got = [out.z1.real, out.z1.imag, out.z2.real, out.z2.imag]
                    want = [s1.re, s1.im, s2.re, s2.im]
                    for cname, g, w in zip(('real', 'imag1', 'imag2', 'imag12'), got, want):
                        g = Fraction(float(g))
                        if w == 0:
                            continue
                        if abs(g - w) > Fraction(rtol) * abs(w):
                            bad.append(dict(function=name, x=x, h=h, component=cname, got=float(g), spec=float(w),
                                            relative_error=float(abs(g - w) / abs(w))))
                            break
    return cnt, bad


def small_domain_cases(Bicomplex, rtol=1e-8):
    """log-type functions (log, log2, log10, sqrt, real powers) at tiny in-domain arguments (1e-8 .. 1e-20, perturbations of relative
    size 1e-3 .. 1e-1): each component agrees with the idempotent spec evaluated with numpy's complex functions to `rtol` relative to
    the largest component of that half (floating point; a regulariser that is not negligible next to the argument shows here)"""
    bad = []
    cnt = 0
    fns = {'log': (lambda z: z.log(), np.log), 'log2': (lambda z: z.log2(), np.log2), 'log10': (lambda z: z.log10(), np.log10),
           'sqrt': (lambda z: z.sqrt(), np.sqrt), 'z**1.5': (lambda z: z ** 1.5, lambda w: w ** 1.5), 'z**-0.5': (lambda z: z ** -0.5, lambda w: w ** -0.5)}
    with warnings.catch_warnings():
        warnings.simplefilter('ignore')
        for name, (fb, fc) in fns.items():
            for x in (1e-8, 1e-10, 1e-12, 1e-15, 1e-20):
                for rel in (1e-3, 1e-1):
                    h = x * rel
                    z = Bicomplex(x + 1j * h, h + 0.0j)
                    try:
                        out = fb(z)
                    except Exception as e:
                        bad.append(dict(function=name, x=x, h=h, raised=repr(e)[:100])); continue
                    u, v = complex(z.z1 - 1j * z.z2), complex(z.z1 + 1j * z.z2)
                    fu, fv = complex(fc(u)), complex(fc(v))
                    s1, s2 = (fu + fv) / 2, (fu - fv) * 0.5j
                    cnt += 1
                    got1, got2 = complex(np.ravel(out.z1)[0]), complex(np.ravel(out.z2)[0])
                    # the difference fu - fv carries the cancellation error eps*|fu|/rel of the reference itself
                    tol1 = rtol * abs(s1)
                    tol2 = rtol * abs(s2) + 1e-14 * abs(fu)
                    if not (abs(got1 - s1) <= tol1 and abs(got2 - s2) <= tol2):
                        bad.append(dict(function=name, x=x, h=h, got=[got1, got2], spec=[s1, s2],
                                        relative_error=[abs(got1 - s1) / abs(s1), abs(got2 - s2) / max(abs(s2), 1e-300)]))
    return cnt, bad


def dea3_quiet_cases(dea3):
    """"raises nothing" whatever warning filters the caller has installed: with warnings promoted to errors, triples of moderate
    magnitude (up to 1e6) including ties, constants and zeros produce finite results, non-negative estimates and no exception"""
    import itertools
    bad = []
    cnt = 0
    vals = [0.0, 1.0, -1.0, 1.5, 5.0, 6.0, 7.0, 8.0, -40.0, 1e3, 1e6, 1e-3, 0.5]
    cands = list(itertools.product(vals, vals, vals))
    cands += [(np.array([5.0, 7.0, 1.0]), np.array([5.0, 8.0, 1.0]), np.array([6.0, 8.0, 1.0])), (np.array([[1e3, 2.0]]), np.array([[1e3, 2.0]]), np.array([[2e3, 2.0]]))]
    for e in cands:
        cnt += 1
        with warnings.catch_warnings():
            warnings.simplefilter('error')
            try:
                res, err = dea3(*e)
            except Exception as ex:
                bad.append(dict(terms=[np.asarray(t).tolist() for t in e], raised_with_warnings_as_errors=repr(ex)[:120]))
                continue
        if not (np.all(np.isfinite(res)) and np.all(np.isfinite(err)) and np.all(np.asarray(err) >= 0)):
            bad.append(dict(terms=[np.asarray(t).tolist() for t in e], got=np.asarray(res).tolist(), abserr=np.asarray(err).tolist()))
    return cnt, bad


def dea3_integer_cases(dea3):
    """integer-typed terms (python ints, lists, integer ndarrays): dea3 returns what it returns for the same numbers as floats"""
    bad = []
    cnt = 0
    with warnings.catch_warnings():
        warnings.simplefilter('ignore')
        for tri in [(7, 5, 4), (16, 8, 4), (1, 3, 9), (-8, 4, -2), (2, 2, 2), (0, 0, 0), (10, 4, 1)]:
            for wrap in (lambda v: v, lambda v: [v, v + 1], lambda v: np.array([v, 2 * v, -v]), lambda v: np.array([[v, v + 3]], dtype=np.int32)):
                a = [wrap(t) for t in tri]
                b = [np.asarray(wrap(t), dtype=float) for t in tri]
                cnt += 1
                try:
                    ra, ea = dea3(*a); rb, eb = dea3(*b)
                except Exception as e:
                    bad.append(dict(terms=str(a)[:80], raised=repr(e)[:80])); continue
                if np.shape(ra) != np.shape(rb) or not np.allclose(ra, rb, rtol=1e-12, atol=1e-300, equal_nan=True) or \
                        not np.allclose(ea, eb, rtol=1e-9, atol=1e-300, equal_nan=True):
                    bad.append(dict(terms=[np.asarray(t).tolist() for t in a], with_integer_terms=np.asarray(ra).tolist(), with_float_terms=np.asarray(rb).tolist()))
    return cnt, bad


def fd_weights_integer_cases(fb):
    """integer-typed nodes (range, list of ints, integer ndarrays) with an expansion point that is not an integer: the weights
    are those of the same nodes given as floats"""
    bad = []
    cnt = 0
    for nodes in [range(-1, 3), [-2, -1, 0, 1, 2], np.array([0, 1, 3, 4]), np.array([5, 2, 0, -1], dtype=np.int32), [0, 1],
                  # many nodes / wide spacing: the products of node differences exceed the integer range (finding F18)
                  (np.arange(10) * 3).astype(np.int32), (np.arange(14) * 3).astype(np.int32), np.arange(16) * 3, np.arange(0, 1400, 100), np.arange(25, dtype=np.int16)[::-1]]:
        for x0 in (0.5, 2.5, -0.25, 1):
            for n in (0, 1, 2):
                if n >= len(nodes):
                    continue
                cnt += 1
                a = fb.fd_weights_all(nodes, x0, n)
                b = fb.fd_weights_all(np.asarray(list(nodes), dtype=float), float(x0), n)
                r = fb.fd_weights(nodes, x0, n)
                scale_ = float(np.max(np.abs(b)))
                if np.shape(a) != np.shape(b) or not np.allclose(a, b, rtol=1e-10, atol=1e-13 * max(1.0, scale_)) or not np.allclose(r, b[n], rtol=1e-10, atol=1e-13 * max(1.0, scale_)):
                    bad.append(dict(nodes=list(nodes) if not isinstance(nodes, np.ndarray) else nodes.tolist(), x0=x0, n=n,
                                    with_integer_nodes=np.asarray(a).tolist(), with_float_nodes=np.asarray(b).tolist()))
    return cnt, bad


def fd_derivative_grid_cases(fd_derivative):
    """fd_derivative on grids and sample types that the symbolic harness does not represent: spacings far from 1
    (non-uniform at a tiny scale, nearly-but-not equidistant), integer-typed grids with float samples, complex samples.
    Samples of a polynomial of degree 2*(n//2+m) in the normalised variable t = (x - x[0]) / (x[-1] - x[0]); the n-th
    derivative is compared at every grid point with a conditioning-scaled tolerance."""
    import math
    bad = []
    cnt = 0
    rng = np.random.default_rng(11)
    for n, m in [(1, 1), (2, 1), (1, 2), (3, 2), (4, 4), (6, 3), (5, 4), (6, 4)]:        # the last four: the widest stencils (mm = 6, 7)
        mm = n // 2 + m
        deg = 2 * mm
        N = 2 * mm + 2 + 5
        jit = rng.uniform(-0.3, 0.3, N)
        grids = [('non-uniform at scale 2**-30', (np.arange(N) + jit) * 2.0 ** -30, float),
                 ('nearly equidistant (1e-6 relative)', np.arange(N) * 0.25 * (1 + 1e-6 * jit), float),
                 ('non-uniform at scale 2**20', (np.arange(N) + jit) * 2.0 ** 20, float),
                 ('integer-typed grid', np.cumsum(rng.integers(1, 4, N)).astype(np.int64), float),
                 ('integer-typed decreasing grid', -np.cumsum(rng.integers(1, 4, N)).astype(np.int32), float),
                 ('complex samples', np.sort(rng.uniform(-1, 1, N)), complex)]
        coef = rng.uniform(-1, 1, deg + 1) + (1j * rng.uniform(-1, 1, deg + 1))
        for gname, x, styp in grids:
            cnt += 1
            xf = np.asarray(x, dtype=float)
            span = xf[-1] - xf[0]
            t = (xf - xf[0]) / span
            c = coef if styp is complex else coef.real
            fx = sum(c[k] * t ** k for k in range(deg + 1))
            exact = sum(c[k] * (math.factorial(k) / math.factorial(k - n)) * t ** (k - n) for k in range(n, deg + 1)) / span ** n
            try:
                with warnings.catch_warnings():
                    warnings.simplefilter('ignore')
                    du = fd_derivative(fx, x, n, m)
            except Exception as e:
                bad.append(dict(n=n, m=m, grid=gname, raised=repr(e)[:100])); continue
            du = np.asarray(du)
            hmin = np.min(np.abs(np.diff(t)))
            # (the weights of a 14 / 16-node stencil are larger: a factor 4 per node pair beyond mm = 4)
            tol = 1e5 * 4.0 ** max(0, mm - 4) * np.finfo(float).eps * (1.0 / hmin) ** n * max(1.0, float(np.max(np.abs(fx)))) / abs(span) ** n
            if du.shape != (N,) or not np.all(np.abs(du - exact) <= tol):
                k = int(np.argmax(np.abs(du - exact))) if du.shape == (N,) else 0
                bad.append(dict(n=n, m=m, grid=gname, index=k, got=str(du[k] if du.shape == (N,) else du.shape), expected=str(exact[k]), tolerance=float(tol),
                                result_dtype=str(du.dtype)))
        # memory layout of the inputs: columns of a table, every second slot of a longer buffer (NaN in between), reversed views --
        # the result is the one obtained for contiguous copies of the same numbers
        xs = np.sort(rng.uniform(-1, 1, N)); fs = np.sin(2 * xs) + xs ** 2
        table = np.column_stack([xs, fs])
        wide_x = np.full(2 * N, np.nan); wide_x[::2] = xs
        wide_f = np.full(2 * N, np.nan); wide_f[::2] = fs
        for lname, fv, xv in [('columns of an (N, 2) table', table[:, 1], table[:, 0]), ('every second slot of a buffer', wide_f[::2], wide_x[::2]),
                              ('only x is a strided view', fs.copy(), table[:, 0]), ('only fx is a strided view', wide_f[::2], xs.copy()),
                              ('reversed views', fs[::-1], xs[::-1])]:
            cnt += 1
            try:
                with warnings.catch_warnings():
                    warnings.simplefilter('ignore')
                    ref = np.asarray(fd_derivative(np.ascontiguousarray(fv), np.ascontiguousarray(xv), n, m))
                    du = np.asarray(fd_derivative(fv, xv, n, m))
            except Exception as e:
                bad.append(dict(n=n, m=m, layout=lname, raised=repr(e)[:100])); continue
            if du.shape != ref.shape or not np.array_equal(du, ref, equal_nan=True):
                k = int(np.argmax(~(du == ref))) if du.shape == ref.shape else 0
                bad.append(dict(n=n, m=m, layout=lname, index=k, strided_inputs_give=str(du[k] if du.shape == ref.shape else du.shape), contiguous_copies_give=str(ref[k])))
    return cnt, bad


# ------------------------------------------------------------------------------------------------------------------
def honesty_cases(nd):
    """C02, second sentence, executed on concrete configurations: |result - exact| <= 100 * error_estimate + 1e-5 * scale * 10**n
    (scale = max(|exact|, |f(x)|, 1)) for exp, sin, 1/x, n = 1..4, the four scalar methods, default steps and user-supplied
    step options, at three points each.  Returns {case name: (ok, detail)}."""
    out = {}
    funs = [('exp', np.exp, lambda x, n: np.exp(x)),
            ('sin', np.sin, lambda x, n: [np.sin, np.cos, lambda t: -np.sin(t), lambda t: -np.cos(t)][n % 4](x)),
            ('1/x', lambda x: 1 / x, lambda x, n: (-1) ** n * float(np.prod(np.arange(1, n + 1))) / x ** (n + 1))]
    optsets = [('default-steps', dict()), ('step=0.01,num_steps=12', dict(step=0.01, num_steps=12)), ('step=1e-4', dict(step=1e-4)),
               ('step=1e-6,num_steps=10', dict(step=1e-6, num_steps=10)), ('step=1e-9,num_steps=20', dict(step=1e-9, num_steps=20)),
               ('step=1e-10,num_steps=30', dict(step=1e-10, num_steps=30)),
               ('step=0.01,num_steps=2,richardson_terms=0', dict(step=0.01, num_steps=2, richardson_terms=0)),
               ('step=0.01,num_steps=3,richardson_terms=0', dict(step=0.01, num_steps=3, richardson_terms=0)),
               ('step=0.01,num_steps=4,richardson_terms=1', dict(step=0.01, num_steps=4, richardson_terms=1))]
    with warnings.catch_warnings():
        warnings.simplefilter('ignore')
        for name, f, dn in funs:
            for n in (1, 2, 3, 4):
                for oname, opts in optsets:
                    for method in ('central', 'forward', 'backward', 'complex'):
                        worst = None
                        for x in (0.5, 1.0, 2.0):
                            try:
                                v, info = nd.Derivative(f, n=n, method=method, full_output=True, **opts)(x)
                            except Exception as e:
                                worst = dict(x=x, raised=repr(e)[:80]); break
                            exact = dn(x, n)
                            scale = max(abs(exact), abs(f(x)), 1.0)
                            est = float(np.abs(info.error_estimate))
                            # (an estimate of exactly 0 claims an exact result: only rounding-level error is compatible with it)
                            if not abs(v - exact) <= 100 * est + 1e-5 * scale * 10 ** n or (est == 0.0 and abs(v - exact) > 1e-9 * scale * 10 ** n):
                                worst = dict(x=x, value=float(v), exact=float(exact), error_estimate=est); break
                        out['%s,n=%d,%s,%s' % (name, n, method, oname)] = (worst is None, worst)
    return out


def record_extra_args_cases(nd, klass):
    """the record when the call carries extra positional / keyword arguments: f_value == f(x, *args, **kwds), the value is the
    derivative of that member of the family, and the estimate is honest about it"""
    bad = []
    cnt = 0
    x = np.array([0.3, 0.7])
    with warnings.catch_warnings():
        warnings.simplefilter('ignore')
        for method in ('central', 'forward', 'complex'):
            for how in ('keyword', 'positional', 'both'):
                cnt += 1
                a, b = 3.0, 0.5
                if klass == 'Derivative':
                    f = lambda t, a=1.0, b=0.0: np.sin(a * t) + b * t
                    exact = a * np.cos(a * x) + b
                elif klass == 'Jacobian':
                    f = lambda t, a=1.0, b=0.0: np.array([np.sin(a * t[0]) + b * t[1], a * t[0] * t[1]])
                    exact = np.array([[a * np.cos(a * x[0]), b], [a * x[1], a * x[0]]])
                elif klass == 'Gradient':
                    f = lambda t, a=1.0, b=0.0: np.sin(a * t[0]) + b * t[1] * t[1]
                    exact = np.array([a * np.cos(a * x[0]), 2 * b * x[1]])
                elif klass == 'Hessdiag':
                    f = lambda t, a=1.0, b=0.0: np.sin(a * t[0]) + b * t[1] * t[1] + t[0] * t[1]
                    exact = np.array([-a * a * np.sin(a * x[0]), 2 * b])
                else:
                    f = lambda t, a=1.0, b=0.0: np.sin(a * t[0]) + b * t[1] * t[1] + a * t[0] * t[1]
                    exact = np.array([[-a * a * np.sin(a * x[0]), a], [a, 2 * b]])
                if klass == 'Hessian' and method == 'complex':
                    continue
                args, kwds = {'keyword': ((), dict(a=a, b=b)), 'positional': ((a, b), {}), 'both': ((a,), dict(b=b))}[how]
                try:
                    v, info = getattr(nd, klass)(f, method=method, full_output=True)(x, *args, **kwds)
                except Exception as e:
                    bad.append(dict(cls=klass, method=method, extra=how, raised=repr(e)[:100])); continue
                fx = f(x, *args, **kwds)
                if not np.allclose(info.f_value, fx, rtol=1e-13, atol=0):
                    bad.append(dict(cls=klass, method=method, extra=how, f_value=np.asarray(info.f_value).tolist(), expected=np.asarray(fx).tolist()))
                elif not np.all(np.abs(v - exact) <= 100 * np.abs(np.reshape(info.error_estimate, np.shape(v))) + 1e-5):
                    bad.append(dict(cls=klass, method=method, extra=how, value=np.asarray(v).tolist(), exact=exact.tolist(), error_estimate=np.asarray(info.error_estimate).tolist()))
    return cnt, bad


def hessian_default_step_cases(nd):
    """Hessian / Hessdiag with the step generators they use by default (nothing stubbed), every method: exactly symmetric n x n,
    quadratic f reproduced to rounding (relative 1e-6 of the largest entry: the default steps are not tuned for exactness), a smooth
    non-quadratic f within 1e-5, and diag(Hessian) == Hessdiag within the two error estimates + 1e-5; at points where the gradient
    does not vanish, for n = 1, 2, 3 variables"""
    bad = []
    cnt = 0
    Qs = {1: np.array([[1.5]]), 2: np.array([[2.0, -0.7], [-0.7, 0.5]]), 3: np.array([[2.0, -0.7, 0.3], [-0.7, 0.5, 1.1], [0.3, 1.1, -1.4]])}
    with warnings.catch_warnings():
        warnings.simplefilter('ignore')
        for d, Q in Qs.items():
            g = np.array([0.8, -1.3, 0.4])[:d]
            x = np.array([0.7, -0.4, 1.2])[:d]
            quad = lambda t: 0.3 + np.dot(g, t) + 0.5 * np.dot(t, np.dot(Q, t))
            w = np.array([0.9, -0.5, 0.3])[:d]
            smooth = lambda t: np.exp(np.dot(w, t)) + np.dot(t, t)
            Hs = np.exp(np.dot(w, x)) * np.outer(w, w) + 2 * np.eye(d)
            for method in ('central', 'central2', 'forward', 'backward', 'complex', 'multicomplex'):
                for fname, f, want, tol in (('quadratic', quad, Q, 1e-6 * np.max(np.abs(Q))), ('exp(w.x)+x.x', smooth, Hs, 1e-5 * np.max(np.abs(Hs)))):
                    cnt += 1
                    try:
                        H, hi = nd.Hessian(f, method=method, full_output=True)(x)
                        D, di = nd.Hessdiag(f, method=method, full_output=True)(x)
                    except Exception as e:
                        bad.append(dict(method=method, d=d, f=fname, raised=repr(e)[:100])); continue
                    H = np.atleast_2d(H); D = np.atleast_1d(D)
                    if H.shape != (d, d) or not np.array_equal(H, H.T):
                        bad.append(dict(method=method, d=d, f=fname, problem='not an exactly symmetric n x n matrix', got=H.tolist())); continue
                    if not np.all(np.abs(H - want) <= tol):
                        bad.append(dict(method=method, d=d, f=fname, what='Hessian with default steps', got=H.tolist(), expected=want.tolist())); continue
                    if not np.all(np.abs(D - np.diag(want)) <= tol):
                        bad.append(dict(method=method, d=d, f=fname, what='Hessdiag with default steps', got=D.tolist(), expected=np.diag(want).tolist())); continue
                    slack = np.abs(np.diag(np.atleast_2d(hi.error_estimate))) + np.abs(np.atleast_1d(di.error_estimate)) + 1e-5 * max(1.0, float(np.max(np.abs(want))))
                    if not np.all(np.abs(np.diag(H) - D) <= slack):
                        bad.append(dict(method=method, d=d, f=fname, what='diag(Hessian) vs Hessdiag', hessian_diag=np.diag(H).tolist(), hessdiag=D.tolist()))
    return cnt, bad


def honesty_complex_cases(nd):
    """C02 honesty clause for complex-valued f with the real-step methods (C01's domain): exp(i w x) for two frequencies -- at the
    larger one the largest default steps alias the oscillation, so the wrong-but-self-consistent estimates have to be screened
    out by the outlier rule in the imaginary part as well as in the real part.  Returns {case name: (ok, detail)}."""
    out = {}
    with warnings.catch_warnings():
        warnings.simplefilter('ignore')
        for w, wname in ((8 * np.pi, '8pi'), (2.0, '2'), (3 * np.pi, '3pi')):
            for n in (1, 2):
                for method in ('central', 'forward', 'backward'):
                    worst = None
                    for x in (0.0, 0.25, 0.5, 0.3, 1.0 / 16):
                        f = lambda t, w=w: np.exp(1j * w * t)
                        try:
                            v, info = nd.Derivative(f, n=n, method=method, full_output=True)(x)
                        except Exception as e:
                            worst = dict(x=x, raised=repr(e)[:80]); break
                        exact = (1j * w) ** n * f(x)
                        scale = max(abs(exact), 1.0)
                        est = float(np.abs(info.error_estimate))
                        if not abs(v - exact) <= 100 * est + 1e-5 * scale * 10 ** n:
                            worst = dict(x=x, value=str(complex(v)), exact=str(complex(exact)), error_estimate=est); break
                    out['exp(i*%s*x),n=%d,%s,default-steps' % (wname, n, method)] = (worst is None, worst)
    return out


def multicomplex_default_step_cases(nd):
    """C12, last sentence, at the step size the library actually uses: Derivative(f, method='multicomplex', n=1|2) with the
    default step generator (h about 8 eps) against the analytic derivative, for expressions built from the Bicomplex
    operators and functions, at positive AND negative base points.  rtol 1e-8.  Returns {case: (ok, detail)}."""
    X = np
    exprs = [
        ('x**3', lambda x: x ** 3, lambda x: 3 * x ** 2, lambda x: 6 * x, 'all'),
        ('x**2', lambda x: x ** 2, lambda x: 2 * x, lambda x: 2 + 0 * x, 'all'),
        ('x**-1', lambda x: x ** -1, lambda x: -1 / x ** 2, lambda x: 2 / x ** 3, 'all'),
        ('x**-2', lambda x: x ** -2, lambda x: -2 / x ** 3, lambda x: 6 / x ** 4, 'all'),
        ('x**2.0', lambda x: x ** 2.0, lambda x: 2 * x, lambda x: 2 + 0 * x, 'all'),
        ('1/x', lambda x: 1 / x, lambda x: -1 / x ** 2, lambda x: 2 / x ** 3, 'all'),
        ('x/(1+x*x)', lambda x: x / (1 + x * x), lambda x: (1 - x * x) / (1 + x * x) ** 2, lambda x: 2 * x * (x * x - 3) / (1 + x * x) ** 3, 'all'),
        ('exp(x)/x', lambda x: X.exp(x) / x, lambda x: X.exp(x) * (x - 1) / x ** 2, lambda x: X.exp(x) * (x * x - 2 * x + 2) / x ** 3, 'all'),
        ('sin(x)*x**3', lambda x: X.sin(x) * x ** 3, lambda x: X.cos(x) * x ** 3 + 3 * x ** 2 * X.sin(x),
         lambda x: -X.sin(x) * x ** 3 + 6 * x ** 2 * X.cos(x) + 6 * x * X.sin(x), 'all'),
        ('x*x*x', lambda x: x * x * x, lambda x: 3 * x ** 2, lambda x: 6 * x, 'all'),
        ('exp(2x)', lambda x: X.exp(2 * x), lambda x: 2 * X.exp(2 * x), lambda x: 4 * X.exp(2 * x), 'all'),
        ('sin', X.sin, X.cos, lambda x: -X.sin(x), 'all'), ('cos', X.cos, lambda x: -X.sin(x), lambda x: -X.cos(x), 'all'),
        ('tanh', X.tanh, lambda x: 1 / X.cosh(x) ** 2, lambda x: -2 * X.tanh(x) / X.cosh(x) ** 2, 'all'),
        ('arctan', X.arctan, lambda x: 1 / (1 + x * x), lambda x: -2 * x / (1 + x * x) ** 2, 'all'),
        ('expm1', X.expm1, X.exp, X.exp, 'all'),
        ('log', X.log, lambda x: 1 / x, lambda x: -1 / x ** 2, 'pos'), ('sqrt', X.sqrt, lambda x: 0.5 / X.sqrt(x), lambda x: -0.25 / x ** 1.5, 'pos'),
        ('x**1.5', lambda x: x ** 1.5, lambda x: 1.5 * x ** 0.5, lambda x: 0.75 * x ** -0.5, 'pos'),
        ('log1p', X.log1p, lambda x: 1 / (1 + x), lambda x: -1 / (1 + x) ** 2, 'gt-1'),
        ('tan', X.tan, lambda x: 1 / X.cos(x) ** 2, lambda x: 2 * X.tan(x) / X.cos(x) ** 2, 'all'),
        ('sinh', X.sinh, X.cosh, X.sinh, 'all'), ('cosh', X.cosh, X.sinh, X.cosh, 'all'),
        ('exp', X.exp, X.exp, X.exp, 'all'), ('exp2', X.exp2, lambda x: X.log(2) * 2 ** x, lambda x: X.log(2) ** 2 * 2 ** x, 'all'),
        ('log2', X.log2, lambda x: 1 / x / X.log(2), lambda x: -1 / x ** 2 / X.log(2), 'pos'),
        ('log10', X.log10, lambda x: 1 / x / X.log(10), lambda x: -1 / x ** 2 / X.log(10), 'pos'),
        ('arcsinh', X.arcsinh, lambda x: 1 / X.sqrt(1 + x * x), lambda x: -x / (1 + x * x) ** 1.5, 'all'),
        ('arctanh', X.arctanh, lambda x: 1 / (1 - x * x), lambda x: 2 * x / (1 - x * x) ** 2, 'unit'),
        ('arcsin', X.arcsin, lambda x: 1 / X.sqrt(1 - x * x), lambda x: x / (1 - x * x) ** 1.5, 'unit'),
        ('arccos', X.arccos, lambda x: -1 / X.sqrt(1 - x * x), lambda x: -x / (1 - x * x) ** 1.5, 'unit'),
        ('arccosh', X.arccosh, lambda x: 1 / X.sqrt(x * x - 1), lambda x: -x / (x * x - 1) ** 1.5, 'gt1'),
    ]
    pts = {'all': [-7.3, -2.0, -0.5, 0.5, 2.0, 3.7], 'pos': [0.3, 0.5, 2.0, 3.7], 'gt-1': [-0.6, -0.25, 0.5, 2.0], 'unit': [-0.6, -0.25, 0.5, 0.8],
           'gt1': [1.3, 2.0, 3.7]}
    out = {}
    with warnings.catch_warnings():
        warnings.simplefilter('ignore')
        for name, f, d1, d2, dom in exprs:
            for n, d in ((1, d1), (2, d2)):
                worst = None
                for x in pts[dom]:
                    try:
                        v = float(nd.Derivative(f, method='multicomplex', n=n)(x))
                    except Exception as e:
                        worst = dict(x=x, raised=repr(e)[:80]); break
                    ex = float(d(x))
                    if not abs(v - ex) <= 1e-8 * max(1.0, abs(ex)):
                        worst = dict(x=x, got=v, exact=ex); break
                out['%s,n=%d' % (name, n)] = (worst is None, worst)
        # array argument mixing signs: every element as the scalar evaluation
        xa = np.array([-1.5, 2.0, -0.25, 0.75])
        for name, f, d1, d2, dom in exprs[:9]:
            for n, d in ((1, d1), (2, d2)):
                v = np.asarray(nd.Derivative(f, method='multicomplex', n=n)(xa), dtype=float)
                ex = np.asarray(d(xa), dtype=float)
                ok = bool(np.all(np.abs(v - ex) <= 1e-8 * np.maximum(1.0, np.abs(ex))))
                out['%s,n=%d,array' % (name, n)] = (ok, None if ok else dict(x=xa.tolist(), got=v.tolist(), exact=ex.tolist()))
    return out


# ------------------------------------------------------------------------------------------------------------------
def jacobian_view_cases(nd):
    """user functions that return (a view of) their argument or of a work array: identity, reversed, sliced, reshaped,
    .real/.imag/.T of the input.  All affine, so the Jacobian is a 0/1 (or constant) matrix that every method must
    reproduce exactly to rounding.  Aliasing between the value returned by f and an internal work vector shows here."""
    x = np.array([0.3, -1.2, 2.0, 0.7])
    I = np.eye(4)
    funs = [('identity', lambda z: z, I), ('reversed-view', lambda z: z[::-1], I[::-1]), ('slice', lambda z: z[1:], I[1:]),
            ('strided', lambda z: z[::2], I[::2]), ('reshape-ravel', lambda z: z.reshape(2, 2).T.ravel(), I[[0, 2, 1, 3]]),
            ('scaled-in-place-copy', lambda z: 2 * z, 2 * I), ('asarray', lambda z: np.asarray(z), I)]
    bad = []
    cnt = 0
    with warnings.catch_warnings():
        warnings.simplefilter('ignore')
        for name, f, want in funs:
            for method in ('central', 'forward', 'backward', 'complex', 'multicomplex'):
                for order in ((2, 4) if method in ('central', 'complex', 'forward') else (2,)):
                    if method == 'multicomplex' and name == 'reshape-ravel':
                        continue          # Bicomplex offers no reshape
                    cnt += 1
                    try:
                        J = nd.Jacobian(f, method=method, order=order)(x)
                    except Exception as e:
                        bad.append(dict(f=name, method=method, order=order, raised=repr(e)[:100])); continue
                    if np.shape(J) != want.shape or not np.allclose(J, want, rtol=1e-7, atol=1e-7):
                        bad.append(dict(f=name, method=method, order=order, got=np.asarray(J).round(6).tolist(), expected=want.tolist()))
        # aliasing with the CALLER's arrays: one object used in a loop that updates x in place, and whose returned arrays the caller
        # modifies -- every call is the derivative at the x it is given
        g = lambda z: np.array([z[0] ** 2 + z[1], np.exp(0.5 * z[0]) * z[1]])
        dg = lambda z: np.array([[2 * z[0], 1.0], [0.5 * np.exp(0.5 * z[0]) * z[1], np.exp(0.5 * z[0])]])
        s_ = lambda z: z[0] ** 2 * z[1] + np.sin(z[1])
        ds = lambda z: np.array([2 * z[0] * z[1], z[0] ** 2 + np.cos(z[1])])
        for klass, f, df in (('Jacobian', g, dg), ('Gradient', s_, ds)):
            for method in ('central', 'forward', 'complex'):
                cnt += 1
                obj = getattr(nd, klass)(f, method=method)
                xx = np.array([0.5, 1.5])
                first = obj(xx)
                first *= 0.0                       # the caller is free to overwrite what it was given
                again = obj(xx)
                xx += np.array([0.25, -0.5])       # in-place update of the iterate
                moved = obj(xx)
                if not np.allclose(again, df(np.array([0.5, 1.5])), rtol=1e-6, atol=1e-8):
                    bad.append(dict(cls=klass, method=method, history='result array of the first call zeroed by the caller, same point again', got=np.asarray(again).tolist(),
                                    expected=df(np.array([0.5, 1.5])).tolist()))
                elif not np.allclose(moved, df(xx), rtol=1e-6, atol=1e-8):
                    bad.append(dict(cls=klass, method=method, history='x updated in place between two calls of one object', x=xx.tolist(), got=np.asarray(moved).tolist(), expected=df(xx).tolist()))
    return cnt, bad


def _admissible(calls, x, kind, hmax, maxnz):
    """exact admissibility of recorded evaluation points (floating point): one-sidedness, mirror points, unmoved coordinates
    bit-identical to x, reach"""
    bad = []
    offs = []
    for z in calls:
        if isinstance(z, tuple):
            z1, z2 = np.atleast_1d(z[0]).ravel(), np.atleast_1d(z[1]).ravel()
        else:
            z1 = np.atleast_1d(np.asarray(z)).ravel(); z2 = np.zeros(z1.shape)
        xr = np.atleast_1d(x).ravel()
        offs.append((np.real(z1) - xr, np.imag(z1), np.real(z2), np.imag(z2)))
    for k, (dr, di, jr, ji) in enumerate(offs):
        if kind == 'forward' and not (np.all(dr >= 0) and np.all(di == 0) and np.all(jr == 0) and np.all(ji == 0)):
            bad.append(('below x / not real', k, dr.tolist()))
        if kind == 'backward' and not (np.all(dr <= 0) and np.all(di == 0) and np.all(jr == 0) and np.all(ji == 0)):
            bad.append(('above x / not real', k, dr.tolist()))
        if kind == 'imag-only' and not np.all(dr == 0):
            bad.append(('real part moved', k, dr.tolist()))
        if kind == 'symmetric' and not any(np.allclose(dr, -o[0], rtol=0, atol=1e-12 * (1 + np.max(np.abs(dr)))) for o in offs):
            bad.append(('no mirror point', k, dr.tolist()))
        mag = np.maximum.reduce([np.abs(dr), np.abs(di), np.abs(jr), np.abs(ji)])
        if np.any(mag > 2 * hmax * (1 + 1e-9)):
            bad.append(('reach', k, mag.tolist()))
        if np.count_nonzero(mag) > maxnz:
            bad.append(('more than %d coordinates differ from x' % maxnz, k, mag.tolist()))
    return bad


def evaluation_point_cases(fd, Bicomplex):
    """the evaluation points of every difference function on floats that do not survive (x + h) - h exactly (0.1, 0.3, a tiny
    coordinate next to a large one) and steps that are not powers of two: coordinates that a quotient does not perturb must be
    bit-identical to x, one-sided methods must stay on their side"""
    KIND = {'_forward': 'forward', '_backward': 'backward', '_central': 'symmetric', '_central_even': 'symmetric', '_central2': 'symmetric',
            '_complex': 'imag-only', '_multicomplex': 'imag-only', '_multicomplex2': 'imag-only'}
    bad = []
    cnt = 0
    for clsname in ('JacobianDifferenceFunctions', 'HessdiagDifferenceFunctions', 'HessianDifferenceFunctions'):
        cls = getattr(fd, clsname)
        for x, h in [(np.array([0.1, 0.3, 2.0]), np.array([0.01, 0.03, 0.007])), (np.array([1e-18, 2.0, -0.7]), np.array([1e-3, 3e-3, 1.1e-3])),
                     (np.array([0.3, -0.1]), np.array([0.07, 0.0013]))]:
            for name, kind in KIND.items():
                if not hasattr(cls, name):
                    continue
                calls = []

                def f(z):
                    calls.append((np.array(z.z1), np.array(z.z2)) if isinstance(z, Bicomplex) else np.array(z))
                    im = 1j if (isinstance(z, Bicomplex) or np.iscomplexobj(z)) else 0
                    if isinstance(z, Bicomplex):
                        return Bicomplex(np.array([0.5 + 0.25j, 1.0]), np.array([0.125, 0.75j])) if clsname[0] == 'J' else Bicomplex(0.5 + 0.25j, 0.125 + 1j)
                    return np.array([0.5 + 0.25 * im, -1.0 + 0.5 * im]) if clsname[0] == 'J' else 0.5 + 0.25 * im
                fx = np.array([0.5, -1.0]) if clsname[0] == 'J' else 0.5
                cnt += 1
                try:
                    getattr(cls, name)(f, fx, x, h)
                except Exception as e:
                    bad.append(dict(cls=clsname, func=name, x=x.tolist(), raised=repr(e)[:100])); continue
                pr = _admissible(calls, x, kind, float(np.max(h)), 2 if clsname[:7] == 'Hessian' else 1)
                if pr:
                    bad.append(dict(cls=clsname, func=name, x=x.tolist(), h=h.tolist(), problems=[str(p)[:120] for p in pr[:2]]))
    return cnt, bad


def elementwise_default_step_cases(nd):
    """the element-wise clause with the library's own default step generator (not the stub): every element of the result, its
    error estimate and final step are bit-identical to the scalar evaluation of that element, for the real-step methods, also
    when the array mixes magnitudes from 1e-3 to 1e10 or puts a dominating element first"""
    bad = []
    cnt = 0
    funs = [('x**3', lambda x: x * x * x), ('1/x', lambda x: 1.0 / x), ('sin', np.sin), ('x*sqrt(x)', lambda x: x * np.sqrt(x))]
    arrays = [np.array([1.3, 0.4, 1e10, 7.0]), np.array([3000.0, 0.5, 40.0, 1e-3]), np.array([[0.7, 1e6], [2.5e-3, 11.0]]), np.array([0.9, 1.1, 1.3])]
    with warnings.catch_warnings():
        warnings.simplefilter('ignore')
        for name, f in funs:
            for method, n in (('central', 1), ('forward', 1), ('backward', 2), ('central', 3)):
                d = nd.Derivative(f, method=method, n=n, full_output=True)
                for arr in arrays:
                    cnt += 1
                    val, info = d(arr)
                    if np.shape(val) != arr.shape:
                        bad.append(dict(fun=name, method=method, n=n, problem='shape')); continue
                    for idx in np.ndindex(arr.shape):
                        sv, si = d(float(arr[idx]))
                        same = (val[idx] == sv or (np.isnan(val[idx]) and np.isnan(sv))) and \
                            (info.error_estimate[idx] == si.error_estimate or (np.isnan(info.error_estimate[idx]) and np.isnan(si.error_estimate))) and \
                            info.final_step[idx] == si.final_step
                        if not same:
                            bad.append(dict(fun=name, method=method, n=n, array=arr.tolist(), element=float(arr[idx]), in_array=(float(val[idx]), float(info.final_step[idx])),
                                            alone=(float(sv), float(si.final_step))))
                            break
        # the input is handed over as a plain array: ndarray subclasses with their own operator semantics (np.matrix: `*` is the matrix
        # product; masked arrays: masked positions are skipped) give what the same numbers give as a plain ndarray
        base = np.array([[0.5, 1.5], [-0.75, 2.0]])
        mk = {'np.matrix': lambda: np.matrix(base), 'masked array (nothing masked)': lambda: np.ma.masked_array(base, mask=False),
              'masked array (one element masked)': lambda: np.ma.masked_array(base, mask=[[False, True], [False, False]])}
        for name, f in (('x*x*x', lambda x: x * x * x), ('exp', np.exp)):
            for method in ('central', 'complex'):
                ref = nd.Derivative(f, method=method)(base)
                for sub, make in mk.items():
                    cnt += 1
                    try:
                        got = np.asarray(nd.Derivative(f, method=method)(make()))
                    except Exception as e:
                        bad.append(dict(fun=name, method=method, input=sub, raised=repr(e)[:100])); continue
                    if got.shape != ref.shape or not np.array_equal(got, ref):
                        bad.append(dict(fun=name, method=method, input=sub, got=got.tolist(), same_numbers_as_plain_ndarray=np.asarray(ref).tolist()))
    return cnt, bad


def lagrange_weights_exact(nodes, x0, n):
    """exact rational reference for fd_weights_all: row k = k-th derivative at x0 of the Lagrange basis polynomials
    (polynomial coefficient arithmetic over Fractions)"""
    from fractions import Fraction
    import math
    xs = [Fraction(float(v)) for v in nodes]
    x0 = Fraction(float(x0))
    m = len(xs)
    rows = [[Fraction(0)] * m for _ in range(n + 1)]
    for v in range(m):
        # basis polynomial in powers of (x - x0): prod_{u != v} ((x - x0) - (xs[u] - x0)) / (xs[v] - xs[u])
        coef = [Fraction(1)]
        den = Fraction(1)
        for u in range(m):
            if u == v:
                continue
            a = xs[u] - x0
            new = [Fraction(0)] * (len(coef) + 1)
            for i, c in enumerate(coef):
                new[i + 1] += c
                new[i] -= a * c
            coef = new
            den *= xs[v] - xs[u]
        for k in range(n + 1):
            rows[k][v] = coef[k] * math.factorial(k) / den if k < len(coef) else Fraction(0)
    return rows


def fd_weights_exact_cases(fb):
    """fd_weights_all / fd_weights against the exact rational Lagrange weights: many nodes and high orders (up to 14 nodes,
    order 13), node sets at scale 2**-30 and 2**20, nearly (not exactly) equidistant nodes, expansion point on / off a node"""
    from fractions import Fraction
    rng = np.random.default_rng(2)
    bad = []
    cnt = 0
    sets = []
    for m in (3, 5, 7, 9, 13, 14):
        sets.append(('random m=%d' % m, np.sort(rng.uniform(-1, 1, m)) + np.arange(m) * 0.05))
    for m in (3, 5, 7, 9):
        k = np.arange(m) - m // 2
        sets.append(('nearly equidistant m=%d' % m, k * 0.25 * (1 + 1e-6 * rng.uniform(-1, 1, m)) + 1e-7 * rng.uniform(-1, 1, m)))
        sets.append(('scale 2**-30 non-uniform m=%d' % m, (k + rng.uniform(-0.3, 0.3, m)) * 2.0 ** -30))
        sets.append(('scale 2**20 m=%d' % m, (k + rng.uniform(-0.3, 0.3, m)) * 2.0 ** 20))
    for name, nodes in sets:
        m = len(nodes)
        for x0 in (float(nodes[m // 2]), float(nodes[0] + 0.37 * (nodes[1] - nodes[0]))):
            for n in sorted({1, 2, min(4, m - 1), m - 1}):
                if n >= m:
                    continue
                cnt += 1
                ref = lagrange_weights_exact(nodes, x0, n)
                W = np.asarray(fb.fd_weights_all(nodes, x0, n), dtype=float)
                r = np.asarray(fb.fd_weights(nodes, x0, n), dtype=float)
                ok = W.shape == (n + 1, m)
                if ok:
                    for k in range(n + 1):
                        scale = max(abs(v) for v in ref[k]) or Fraction(1)
                        tol = 1e-7 if m <= 9 else 1e-4          # conditioning of 13/14-node sets
                        for v in range(m):
                            if abs(Fraction(float(W[k, v])) - ref[k][v]) > Fraction(tol) * scale:
                                ok = False
                    scale = max(abs(v) for v in ref[n]) or Fraction(1)
                    ok = ok and all(abs(Fraction(float(r[v])) - ref[n][v]) <= Fraction(1e-7 if m <= 9 else 1e-4) * scale for v in range(m))
                if not ok:
                    bad.append(dict(nodes=name, x0=x0, n=n, row_n=np.asarray(r).tolist()[:5], exact_row_n=[float(v) for v in ref[n]][:5]))
    return cnt, bad


def fd_weights_history_cases(fb):
    """one process, many calls: node sets that nearly coincide (tiny spacings, tiny shifts, translated stencils, the same
    nodes with another x0 or order, the same call twice) -- every answer against the exact rational weights of the nodes
    actually passed.  Returns (count, failing cases)."""
    import numpy as np
    from fractions import Fraction
    seqs = []
    for h1, h2 in [(1e-13, 2e-13), (1e-13, 1.5e-13), (3e-7, 3.0000004e-7), (1e-3, 1.0000001e-3)]:
        seqs.append([(np.arange(-2, 3) * h1, 0.0), (np.arange(-2, 3) * h2, 0.0), (np.arange(-2, 3) * h1, 0.0)])
    base = np.array([-1.3, -0.4, 0.1, 0.7, 1.9, 2.2]) * 1e-6
    seqs.append([(base, 0.0), (base + np.array([0, 1, -1, 2, 0, 1]) * 1e-13, 0.0), (base, 3e-13), (base, 0.0)])
    u = np.linspace(-1.0, 1.0, 7)
    seqs.append([(u, 0.25), (u + 5.0, 5.25), (u + 5.0, 5.25 + 1e-9), (u * (1 + 1e-9), 0.25), (u[::-1], 0.25), (u, 0.25)])
    seqs.append([(np.array([0.0, 1.0, 3.0, 4.5]), 1.0), (np.array([0.0, 1.0, 3.0, 4.5 + 1e-10]), 1.0), (np.array([0.0, 1.0, 3.0, 4.5]), 1.0 + 1e-11)])
    cnt, bad = 0, []
    for si, seq in enumerate(seqs):
        for n in (1, 2, 3):
            for ci, (nodes, x0) in enumerate(seq):
                m = len(nodes)
                ref = lagrange_weights_exact(nodes, x0, n)
                W = np.asarray(fb.fd_weights_all(np.array(nodes, copy=True), x0, n))
                r = np.asarray(fb.fd_weights(np.array(nodes, copy=True), x0, n))
                cnt += 1
                ok = W.shape == (n + 1, m) and r.shape == (m,)
                if ok:
                    for k in range(n + 1):
                        scale = max(abs(v) for v in ref[k]) or Fraction(1)
                        ok = ok and all(abs(Fraction(float(W[k, v])) - ref[k][v]) <= Fraction(1e-8) * scale for v in range(m))
                    scale = max(abs(v) for v in ref[n]) or Fraction(1)
                    ok = ok and all(abs(Fraction(float(r[v])) - ref[n][v]) <= Fraction(1e-8) * scale for v in range(m))
                if not ok:
                    bad.append(dict(sequence=si, call=ci, nodes=[float(v) for v in nodes], x0=float(x0), n=n,
                                    row_n=np.asarray(r).ravel().tolist()[:6], exact_row_n=[float(v) for v in ref[n]][:6]))
    return cnt, bad


def taylor_cases(fb):
    """C17 on concrete functions with known series (entire, pole or branch point at distance >= 1.6): with the default radius and
    n <= 20 the run is neither degenerate nor failed, at least n+1 coefficients come back, and every coefficient is within
    100 x its error estimate + 100 x the rounding floor eps*max|f|/R^k on the final circle.  Also at z0 off the origin and for
    other initial radii / step ratios."""
    import math
    fams = []
    for a in (0.17, 0.2, 0.25, 0.5, 1.0, 2.0, 3.0):
        fams.append(('exp(%gz)' % a, (lambda a: lambda z: np.exp(a * z))(a), (lambda a: lambda k, z0: np.exp(a * z0) * a ** k / math.factorial(k))(a)))
    for b in (1.6, 2.0, 5.0, 30.0, 1.6 + 0.5j):
        fams.append(('1/(%s-z)' % b, (lambda b: lambda z: 1 / (b - z))(b), (lambda b: lambda k, z0: (b - z0) ** -(k + 1.0))(b)))
        fams.append(('-1/(%s-z)' % b, (lambda b: lambda z: -1 / (b - z))(b), (lambda b: lambda k, z0: -(b - z0) ** -(k + 1.0))(b)))
    for b in (1.6, 3.0):
        fams.append(('log(%g+z)' % b, (lambda b: lambda z: np.log(b + z))(b),
                     (lambda b: lambda k, z0: (np.log(b + z0) if k == 0 else (-1) ** (k + 1) / (k * (b + z0) ** k)))(b)))
    out = {}
    with warnings.catch_warnings():
        warnings.simplefilter('ignore')
        for name, f, c in fams:
            for z0, kw in [(0.0, {}), (0.2j, {}), (0.0, dict(r=1e-4)), (0.1, dict(step_ratio=1.3)), (0.0, dict(r=0.06, num_extrap=1))]:
                worst = None
                for n in (1, 2, 3, 5, 8, 10, 13, 14, 16, 18, 20):
                    try:
                        co, info = fb.taylor(f, z0, n=n, full_output=True, **kw)
                    except Exception as e:
                        worst = dict(n=n, raised=repr(e)[:100]); break
                    true = np.array([c(k, z0) for k in range(len(co))])
                    err = np.abs(co - true)[:n + 1]
                    est = np.abs(info.error_estimate)[:n + 1]
                    R = info.final_radius
                    floor = np.finfo(float).eps * np.max(np.abs(f(z0 + R * np.exp(2j * np.pi * np.arange(64) / 64)))) / R ** np.arange(n + 1)
                    honest = bool(np.all(err <= 100 * est + 100 * floor))
                    default = not kw
                    if len(co) < n + 1 or (default and (info.degenerate or info.failed)) or ((not info.degenerate) and (not info.failed) and not honest):
                        k = int(np.argmax(err / (100 * est + 100 * floor)))
                        worst = dict(n=n, degenerate=bool(info.degenerate), failed=bool(info.failed), iterations=int(info.iterations), final_radius=float(R), k=k,
                                     coefficient=str(co[k]), exact=str(true[k]), error_estimate=float(est[k]))
                        break
                oname = ','.join('%s=%s' % kv for kv in sorted(kw.items())) or 'default-options'
                out['%s,z0=%s,%s' % (name, z0, oname)] = (worst is None, worst)
    return out


def taylor_hard_cases(fb):
    """C17 at the edges of its range: (a) entire non-polynomial functions whose low-order derivatives vanish at z0 (the radius
    search sees them only through f(z0) and the high-order terms), default options, n <= 13: neither degenerate nor failed and
    honest; (b) many coefficients (n = 53, 60: the 128-point transform) of a function with a tiny disc of analyticity started
    from a small radius: honest (in particular finite) whenever the status reports neither degenerate nor failed.
    Same inequality as taylor_cases.  Returns {case: (ok, detail)}."""
    import math
    out = {}
    cases = []
    for z0 in (0.0, 0.3):
        cases.append(('cos((z-z0)^2)', z0, (lambda z0: lambda z: np.cos((z - z0) ** 2))(z0), lambda k: ((-1) ** (k // 4) / math.factorial(k // 2) if k % 4 == 0 else 0.0), (2, 4, 6), {}, True))
        cases.append(('exp((z-z0)^4)', z0, (lambda z0: lambda z: np.exp((z - z0) ** 4))(z0), lambda k: (1.0 / math.factorial(k // 4) if k % 4 == 0 else 0.0), (2, 4, 6), {}, True))
        cases.append(('cos((z-z0)^4)', z0, (lambda z0: lambda z: np.cos((z - z0) ** 4))(z0), lambda k: ((-1) ** (k // 8) / math.factorial(k // 4) if k % 8 == 0 else 0.0), (8, 10, 13), {}, True))
    for z0 in (0.0, 1.0):
        for r in (1e-4, 1e-3):
            cases.append(('1/(z0+0.002-z)', z0, (lambda z0: lambda z: 1.0 / (z0 + 0.002 - z))(z0), lambda k: 500.0 ** (k + 1), (53, 60), dict(r=r), False))
    # (c) an entire function that overflows on the default starting circle (the radius search has to shrink on inf / nan samples)
    for a_ in (2e5, -3e5):
        cases.append(('exp(%g*z)' % a_, 0.0, (lambda a_: lambda z: np.exp(a_ * z))(a_), (lambda a_: lambda k: a_ ** k / math.factorial(k))(a_), (2, 5, 10), {}, True))
    # (d) many coefficients from a very small starting radius: the r**-k scaling overflows for high k on the first circles only, so
    # some estimate columns are NaN in their first rows and finite later -- the finite estimates have to be the ones selected
    cases.append(('1/(2-z)', 0.0, lambda z: 1.0 / (2.0 - z), lambda k: 2.0 ** -(k + 1), (100,), dict(r=1e-5, step_ratio=3, num_extrap=5), False))
    cases.append(('1/(2-z)', 0.0, lambda z: 1.0 / (2.0 - z), lambda k: 2.0 ** -(k + 1), (100,), dict(r=1e-4, step_ratio=3, num_extrap=5), False))
    with warnings.catch_warnings():
        warnings.simplefilter('ignore')
        for name, z0, f, c, ns, kw, must_converge in cases:
            worst = None
            for n in ns:
                try:
                    co, info = fb.taylor(f, z0, n=n, full_output=True, **kw)
                except Exception as e:
                    worst = dict(n=n, raised=repr(e)[:100]); break
                true = np.array([c(k) for k in range(min(len(co), n + 1))])
                err = np.abs(co[:n + 1] - true)
                est = np.abs(info.error_estimate)[:n + 1]
                R = info.final_radius
                floor = np.finfo(float).eps * np.max(np.abs(f(z0 + R * np.exp(2j * np.pi * np.arange(64) / 64)))) / R ** np.arange(n + 1)
                honest = bool(np.all(err <= 100 * est + 100 * floor))
                if len(co) < n + 1 or (must_converge and (info.degenerate or info.failed)) or ((not info.degenerate) and (not info.failed) and not honest):
                    with np.errstate(all='ignore'):
                        ratio = np.where(np.isfinite(err), err / (100 * est + 100 * floor), np.inf)
                    k = int(np.argmax(ratio))
                    worst = dict(n=n, degenerate=bool(info.degenerate), failed=bool(info.failed), iterations=int(info.iterations), final_radius=float(R), k=k,
                                 coefficient=str(co[k]), exact=str(true[k]), error_estimate=float(est[k]))
                    break
            oname = ','.join('%s=%s' % kv for kv in sorted(kw.items())) or 'default-options'
            out['%s,z0=%s,%s' % (name, z0, oname)] = (worst is None, worst)
    return out


def dea3_layout_cases(dea3):
    """dea3 on arrays of every memory layout (C, Fortran, transposed / strided views) that mix elements taking the Shanks
    branch with elements taking the guards (constant triples, zeros, equally spaced terms): every element equals its scalar
    evaluation bit for bit"""
    bad = []
    cnt = 0
    base0 = np.array([[1.0, 5.0, 0.0], [2.0, 1.0, -3.0]])
    base1 = np.array([[1.5, 5.0, 0.0], [3.0, 2.0, -1.0]])
    base2 = np.array([[1.75, 5.0, 0.0], [4.0, 2.5, -0.5]])
    with warnings.catch_warnings():
        warnings.simplefilter('ignore')
        layouts = [('C', lambda a: np.ascontiguousarray(a)), ('F', lambda a: np.asfortranarray(a)), ('transposed-view', lambda a: np.ascontiguousarray(a.T).T),
                   ('strided-view', lambda a: np.repeat(a, 2, axis=1)[:, ::2]), ('3-d transposed', lambda a: np.transpose(np.stack([a, a + 1.0]), (2, 1, 0)))]
        for name, mk in layouts:
            e0, e1, e2 = mk(base0), mk(base1), mk(base2)
            cnt += 1
            r, a = dea3(e0, e1, e2)
            for idx in np.ndindex(np.shape(e0)):
                rs, as_ = dea3(float(e0[idx]), float(e1[idx]), float(e2[idx]))
                if not (np.shape(r) == np.shape(e0) and (r[idx] == rs[0] or (np.isnan(r[idx]) and np.isnan(rs[0]))) and (a[idx] == as_[0] or (np.isnan(a[idx]) and np.isnan(as_[0])))):
                    bad.append(dict(layout=name, index=idx, terms=(float(e0[idx]), float(e1[idx]), float(e2[idx])), in_array=(float(r[idx]), float(a[idx])), alone=(float(rs[0]), float(as_[0]))))
                    break
    return cnt, bad


def jacobian_shape_cases(nd):
    """the un-stubbed Jacobian / Gradient on affine maps over the corners of the property's range (every extent 1 included):
    shape (m, n) / (m, n, k) / (n,), exact to rounding, one error estimate and final step per entry"""
    rng = np.random.default_rng(4)
    bad = []
    cnt = 0
    with warnings.catch_warnings():
        warnings.simplefilter('ignore')
        for m in ('scalar', 1, 2, 6):
            for n in (1, 2, 8):
                for k in (None, 1, 2, 4):
                    if m == 'scalar' and k is not None:
                        continue
                    m_ = 1 if m == 'scalar' else m
                    shapeA = (n,) if m == 'scalar' else ((m_, n) if k is None else (m_, k, n))
                    A = rng.integers(-4, 5, size=shapeA).astype(float) + 0.5
                    b = rng.normal(size=shapeA[:-1])
                    f = lambda x, A=A, b=b: np.dot(A, x) + b
                    x = rng.uniform(-2, 2, size=n) * np.array([1.0, 10.0, 0.1, 3.0, 1.0, 7.0, 0.3, 2.0])[:n]
                    want = A.reshape(1, n) if m == 'scalar' else (A if k is None else np.transpose(A, (0, 2, 1)))
                    for method in ('central', 'forward', 'complex', 'multicomplex'):
                        cnt += 1
                        try:
                            J, info = nd.Jacobian(f, method=method, full_output=True)(x)
                        except Exception as e:
                            bad.append(dict(m=m, n=n, k=k, method=method, raised=repr(e)[:100])); continue
                        if np.shape(J) != want.shape or not np.allclose(J, want, rtol=1e-6, atol=1e-7) or np.size(info.error_estimate) != np.size(J):
                            bad.append(dict(m=m, n=n, k=k, method=method, shape=np.shape(J), expected_shape=want.shape, got=np.asarray(J).ravel()[:4].tolist(),
                                            expected=want.ravel()[:4].tolist()))
                    if m == 'scalar':
                        g = nd.Gradient(f)(x)
                        cnt += 1
                        if np.shape(g) != (() if n == 1 else (n,)) or not np.allclose(g, A.reshape(np.shape(g)), rtol=1e-6, atol=1e-7):
                            bad.append(dict(cls='Gradient', n=n, shape=np.shape(g)))
    return cnt, bad


def dea_cases(ex):
    """Dea on concrete sequences (floating point): finite result and error estimate for finite input on sequences that hit the
    guards early (arithmetic starts, repeated terms, zeros), abserr >= 5 eps |result| from the third term on, first three
    terms == dea3, and L + sum a_i q_i^n found in the table after 2k+1 terms"""
    EPS = np.finfo(float).eps
    bad = []
    cnt = 0
    seqs = {'arithmetic start': [1.0, 2.0, 3.0, 3.5, 3.75, 3.875, 3.9375], 'zero in the middle': [-1.0, 0.0, 0.5, 0.75, 0.875, 0.9375],
            'two equal leading terms': [1.0, 1.0, 1.5, 1.75, 1.875, 1.9375, 1.96875], 'three equal then change': [2.0, 2.0, 2.0, 3.0, 3.5, 3.75, 3.875],
            'touches zero': [2.0, 0.5, 0.0, -0.25, -0.375], 'geometric': [1 + 0.5 ** k for k in range(40)], 'alternating': [1 + (-0.7) ** k for k in range(40)],
            'constant': [3.0] * 12, 'harmonic': [float(sum(1.0 / (j + 1) ** 2 for j in range(k + 1))) for k in range(30)]}
    for limexp in (3, 5, 7, 21):
        for name, seq in seqs.items():
            cnt += 1
            d = ex.Dea(limexp=limexp)
            for k, v in enumerate(seq):
                try:
                    with np.errstate(all='ignore'):
                        res, err = d(v)
                except Exception as e:
                    bad.append(dict(limexp=limexp, sequence=name, term=k, raised=repr(e)[:80])); break
                if not (np.isfinite(res) and np.isfinite(err)):
                    bad.append(dict(limexp=limexp, sequence=name, term=k, result=float(res), abserr=float(err), problem='not finite')); break
                if k >= 2 and not err >= 5 * EPS * abs(res) * (1 - 1e-12):
                    bad.append(dict(limexp=limexp, sequence=name, term=k, abserr=float(err), floor=5 * EPS * abs(res))); break
                if k == 2:
                    r3 = float(ex.dea3(*seq[:3])[0][0])
                    if not abs(res - r3) <= 1e-9 * max(1.0, abs(r3)):
                        bad.append(dict(limexp=limexp, sequence=name, term=2, dea=float(res), dea3=r3)); break
    for k, (L, amps, qs) in enumerate([(1.5, [3.5], [0.6]), (2.0, [2.5, 0.5], [0.8, 0.3]), (-1.0, [1.0, -2.0, 0.7], [0.7, 0.45, -0.2])], start=1):
        for limexp in (21, 51):
            cnt += 1
            d = ex.Dea(limexp=limexp)
            for j in range(2 * k + 1):
                d(L + sum(a * q ** j for a, q in zip(amps, qs)))
            tab = np.asarray(d.epstab[:d._n + 1], dtype=float)
            if not np.any(np.abs(tab - L) <= 1e-7 * max(1.0, abs(L))):
                bad.append(dict(limexp=limexp, transients=k, terms=2 * k + 1, limit=L, table=tab.tolist()))
    # a sequence much longer than the table (the table is full on every later call): with one transient and limexp = 3, or k transients
    # and limexp >= 2k+3, Dea keeps returning the limit -- what EpsAlg gives for the last 2k+1 terms (terms far apart: no guard is
    # involved).  (With limexp == 2k+1 > 3 the column of highest order is rebuilt from a shifted table and the limit is not kept.)
    for limexp, L, trans in [(3, 2.0, [(1.0, 0.9)]), (3, -3.0, [(2.0, -0.6)]), (3, 0.7, [(-4.0, 0.3)]), (3, 1.0, [(1.0, -1.1)]), (3, 10.0, [(3.0, 0.97)]),
                             (7, 2.0, [(1.0, 0.9), (-0.7, -0.6)]), (7, -1.0, [(2.0, 0.8), (1.5, 0.35)])]:
        cnt += 1
        k = len(trans)
        d = ex.Dea(limexp=limexp)
        terms = []
        for n in range(24):
            terms.append(L + sum(a * q ** n for a, q in trans))
            with np.errstate(all='ignore'):
                res, err = d(terms[-1])
            if n < max(limexp - 1, 2 * k):
                continue
            e = ex.EpsAlg()
            for t in terms[-(2 * k + 1):]:
                ref = e(t)
            if abs(ref - L) > 1e-7 * max(1.0, abs(L)):
                continue            # the reference itself is no longer determined to this accuracy
            if not (np.isfinite(res) and abs(res - L) <= 1e-7 * max(1.0, abs(L))):
                bad.append(dict(limexp=limexp, limit=L, transients=trans, term=n + 1, dea=float(res), epsalg_on_last_terms=float(ref), problem='full table: limit lost'))
                break
    return cnt, bad


def epsilon_integer_cases(ex):
    """integer-typed terms (python ints, numpy integer scalars, partial sums of an integer array): EpsAlg and Dea return after
    every term what they return for the same numbers given as floats"""
    bad = []
    cnt = 0
    seqs = {'-1+2*2^n': [2 ** (n + 1) - 1 for n in range(7)], 'cumsum': list(np.cumsum(np.array([3, -6, 12, -24, 48, -96], dtype=np.int64))),
            'squares': [n * n for n in range(1, 8)], 'int32': [np.int32(v) for v in (5, 8, 10, 11, 13, 12)], 'mixed': [1, 3, 4.5, 5, 5.25, 6]}
    for name, seq in seqs.items():
        for cls, kw in (('EpsAlg', {}), ('Dea', dict(limexp=5)), ('Dea', dict(limexp=3))):
            cnt += 1
            a, b = getattr(ex, cls)(**kw), getattr(ex, cls)(**kw)
            for k, v in enumerate(seq):
                with np.errstate(all='ignore'), warnings.catch_warnings():
                    warnings.simplefilter('ignore')
                    try:
                        ra, rb = a(v), b(float(v))
                    except Exception as e:
                        bad.append(dict(cls=cls, options=kw, sequence=name, term=k, raised=repr(e)[:100])); break
                ra, rb = np.ravel(np.asarray(ra, dtype=float)), np.ravel(np.asarray(rb, dtype=float))
                if ra.shape != rb.shape or not np.allclose(ra, rb, rtol=1e-12, atol=0, equal_nan=True):
                    bad.append(dict(cls=cls, options=kw, sequence=name, terms=[repr(t) for t in seq[:k + 1]], integer_terms_give=ra.tolist(), float_terms_give=rb.tolist()))
                    break
    return cnt, bad


def limit_kwargs_cases(lm):
    """extra positional / keyword arguments of the call select the member of a function family: Limit.__call__, Limit.limit and
    Residue.__call__ evaluate THAT member (keyword values differing from the defaults of f)"""
    bad = []
    cnt = 0
    with warnings.catch_warnings():
        warnings.simplefilter('ignore')
        def fam(z, c=1.0, z0=0.0):
            with np.errstate(all='ignore'):
                return np.expm1(c * (z - z0)) / (z - z0) + z0        # -> c + z0 at z = z0
        def pole(z, c=1.0, z0=0.0):
            return np.exp(c * z) / (z - z0)                            # residue exp(c*z0) at z0
        for z0 in (0.3, -0.4 + 0.2j):
            for c in (2.5, -0.75):
                for how in ('keyword', 'positional'):
                    a, k = ((), dict(c=c, z0=z0)) if how == 'keyword' else ((c, z0), {})
                    for nm, call, want in (('Limit.__call__', lambda: lm.Limit(fam)(z0, *a, **k), c + z0), ('Limit.limit', lambda: lm.Limit(fam).limit(z0, *a, **k), c + z0),
                                           ('Residue.__call__', lambda: lm.Residue(pole)(z0, *a, **k), np.exp(c * z0))):
                        cnt += 1
                        try:
                            v = call()
                        except Exception as e:
                            bad.append(dict(via=nm, extra=how, c=c, z0=str(z0), raised=repr(e)[:100])); continue
                        if np.size(v) != 1 or not abs(np.ravel(v)[0] - want) <= 1e-6 * max(1.0, abs(want)):
                            bad.append(dict(via=nm, extra_arguments=how, c=c, z0=str(z0), got=str(np.ravel(v)[0]), expected=str(want)))
    return cnt, bad


def limit_cases(lm):
    """Limit / Residue on concrete removable singularities and poles: g(z0) recovered within 1e-7 for real and complex z0, scalar
    and array, above / below, radial / spiral, through __call__ (NaN replacement) and through limit(); regular points keep f's own
    value; explicit orders for Residue"""
    bad = []
    cnt = 0
    g = lambda z: np.exp(0.5 * z) + z * z
    kernels = {'sin(w)/w': lambda w: np.sin(w) / w, 'expm1(w)/w': lambda w: np.expm1(w) / w, 'w/sin(w)': lambda w: w / np.sin(w)}
    with warnings.catch_warnings():
        warnings.simplefilter('ignore')
        for kname, s_ in kernels.items():
            for z0 in (0.3, -1.2, 0.3 + 0.4j, -0.5j, np.array([0.3, -1.2, 2.0]), np.array([0.3 + 0.4j, -0.2 - 0.7j])):
                def f(z, z0=z0, s_=s_):
                    with np.errstate(all='ignore'):
                        return g(z) * s_(z - z0)
                for method in ('above', 'below'):
                    for path in ('radial', 'spiral'):
                        cnt += 1
                        try:
                            v1 = lm.Limit(f, method=method, path=path)(z0)
                            v2 = lm.Limit(f, method=method, path=path).limit(z0)
                        except Exception as e:
                            bad.append(dict(kernel=kname, z0=str(z0), method=method, path=path, raised=repr(e)[:100])); continue
                        want = g(np.asarray(z0))
                        for nm, v in (('Limit.__call__', v1), ('Limit.limit', v2)):
                            # (Limit.__call__ returns a 1-element array for a scalar point: sizes are compared, values element-wise)
                            if np.size(v) != np.size(z0) or (nm == 'Limit.limit' and np.shape(v) != np.shape(z0)) or not np.allclose(np.ravel(v), np.ravel(want), rtol=1e-7, atol=1e-7):
                                bad.append(dict(kernel=kname, z0=str(z0), method=method, path=path, via=nm, got=str(np.asarray(v).tolist())[:80], expected=str(np.asarray(want).tolist())[:80]))
        # regular points keep f's own value; arrays mixing singular and regular, real and complex
        zz = np.array([0.3 + 0.4j, 1.0, -0.7j])
        fm = lambda z: g(z) * np.where(z == 1.0, np.nan, 1.0) if False else g(z) * (np.sin(z - 1.0) / (z - 1.0))
        cnt += 1
        v = lm.Limit(fm)(zz)
        want = np.where(zz == 1.0, g(1.0), fm(np.where(zz == 1.0, 2.0, zz)))
        if not np.allclose(v, want, rtol=1e-7, atol=1e-7):
            bad.append(dict(what='array mixing regular complex points and a singular point', got=str(v.tolist())[:100], expected=str(want.tolist())[:100]))
        for p in (1, 2, 3):
            for order in (None, p + 2, p + 3, p + 4):
                for z0 in (0.3, 0.2 - 0.6j):
                    cnt += 1
                    fr = lambda z, z0=z0, p=p: g(z) / (z - z0) ** p
                    kw = {} if order is None else dict(order=order)
                    try:
                        r = lm.Residue(fr, pole_order=p, **kw)(z0)
                    except Exception as e:
                        bad.append(dict(what='Residue', pole_order=p, order=order, z0=str(z0), raised=repr(e)[:100])); continue
                    if not abs(r - g(z0)) <= 1e-6 * max(1.0, abs(g(z0))):
                        bad.append(dict(what='Residue', pole_order=p, order=order, z0=str(z0), got=str(r), expected=str(g(z0))))
    c2, b2 = limit_kwargs_cases(lm)
    cnt, bad = cnt + c2, bad + b2
    # the caller's floating-point error state: Limit.__call__ evaluates the trial points under its own np.errstate, so a caller running
    # with divide / invalid set to 'raise' (or with warnings promoted to errors) still gets g(z0) -- from below, log1p(w)/w leaves
    # its domain at the largest trial steps
    # high orders and large step ratios: the Richardson system is ill-conditioned there; the weights must still sum to one to rounding
    # (a plain inverse instead of the pseudo-inverse loses that), so the limit of a smooth kernel keeps 7 digits
    for order, ratio in ((6, 4.0), (8, 4.0), (6, 8.0), (8, 3.0), (5, 4.0)):
        for z0 in (0.3, 0.3 + 0.4j):
            for path in ('radial', 'spiral'):
                cnt += 1
                fh = (lambda z0: lambda z: g(z) * np.sin(z - z0) / (z - z0))(z0)
                try:
                    v = lm.Limit(fh, order=order, step_ratio=ratio, path=path)(z0)
                except Exception as e:
                    bad.append(dict(what='Limit at high order', order=order, step_ratio=ratio, path=path, z0=str(z0), raised=repr(e)[:100])); continue
                if not abs(np.ravel(v)[0] - g(z0)) <= 1e-7 * max(1.0, abs(g(z0))):
                    bad.append(dict(what='Limit at high order', order=order, step_ratio=ratio, path=path, z0=str(z0), got=str(np.ravel(v)[0]), expected=str(g(z0))))
    gq = lambda z: np.exp(z) + 2.0
    for z0 in (0.0, 1.5):
        fq = (lambda z0: lambda z: gq(z) * np.log1p(z - z0) / (z - z0))(z0)
        for method in ('above', 'below'):
            for mode in ('errstate-raise', 'warnings-as-errors'):
                cnt += 1
                try:
                    if mode == 'errstate-raise':
                        with np.errstate(divide='raise', invalid='raise'):
                            v = lm.Limit(fq, method=method)(z0)
                    else:
                        with warnings.catch_warnings():
                            warnings.simplefilter('error')
                            v = lm.Limit(fq, method=method)(z0)
                except Exception as e:
                    bad.append(dict(what='Limit(g*log1p(w)/w) under the caller\'s strict error state', mode=mode, method=method, z0=z0, raised=repr(e)[:100])); continue
                if not abs(np.ravel(v)[0] - gq(z0)) <= 1e-7 * abs(gq(z0)):
                    bad.append(dict(what='Limit under strict error state', mode=mode, method=method, z0=z0, got=str(np.ravel(v)[0]), expected=str(gq(z0))))
    return cnt, bad


# ------------------------------------------------------------------------------------------------------------------
# documented default arguments of the public entry points the properties speak about (transcribed once from the docstrings of
# the pinned source; "documented defaults" are part of several property statements).  module attribute path -> {argument: default}
DOCUMENTED_DEFAULTS = {
    'core.Derivative.__init__': dict(step=None, method='central', order=2, n=1),
    'core.Hessdiag.__init__': dict(step=None, method='central', order=2),
    'core.Hessian.__init__': dict(step=None, method='central', order=None),
    'step_generators.MinStepGenerator.__init__': dict(base_step=None, step_ratio=None, num_steps=None, step_nom=None, offset=0, num_extrap=0,
                                                     use_exact_steps=True, check_num_steps=True, scale=None),
    'step_generators.MaxStepGenerator.__init__': dict(base_step=2.0, step_ratio=None, num_steps=15, step_nom=None, offset=0, num_extrap=9,
                                                     use_exact_steps=False, check_num_steps=True, scale=500),
    'limits.CStepGenerator.__init__': dict(base_step=None, step_ratio=4.0, num_steps=None, step_nom=None, offset=0, scale=1.2),
    'limits.Limit.__init__': dict(step=None, method='above', order=4, full_output=False),
    'limits.Residue.__init__': dict(step=None, method='above', order=None, pole_order=1, full_output=False),
    'fornberg.fd_weights': dict(x0=0, n=1),
    'fornberg.fd_weights_all': dict(x0=0, n=1),
    'fornberg.fd_derivative': dict(n=1, m=2),
    'fornberg.taylor': dict(z0=0, n=1, r=0.0059, num_extrap=3, step_ratio=1.6),
    'fornberg.derivative': dict(n=1),
    'extrapolation.Richardson.__init__': dict(step_ratio=2.0, step=1, order=1, num_terms=2),
    'extrapolation.Dea.__init__': dict(limexp=50),
    'extrapolation.dea3': dict(symmetric=False),
    'nd_scipy._Common.__init__': dict(step=None, method='central', order=2),
}


# options taken through **options: documented default -> attribute of a default-constructed object
OPTION_DEFAULTS = {
    'core.Derivative.__init__': ('core.Derivative', dict(richardson_terms=2, full_output=False)),
    'core.Hessdiag.__init__': ('core.Hessdiag', dict(richardson_terms=2, full_output=False)),
    'core.Hessian.__init__': ('core.Hessian', dict(richardson_terms=2, full_output=False)),
    'limits.CStepGenerator.__init__': ('limits.CStepGenerator', dict(path='radial')),
}


def default_argument_mismatches(keys=None):
    """[(entry point, argument, default found, documented default)] for the real signatures (needs numdifftools importable)"""
    import importlib
    import inspect
    bad = []
    for key in (keys or sorted(DOCUMENTED_DEFAULTS)):
        want = DOCUMENTED_DEFAULTS[key]
        modname, rest = key.split('.', 1)
        obj = importlib.import_module('numdifftools.' + modname)
        for part in rest.split('.'):
            obj = getattr(obj, part)
        sig = inspect.signature(obj)
        for arg, dflt in want.items():
            prm = sig.parameters.get(arg)
            got = prm.default if prm is not None else '<no such parameter>'
            same = (got is dflt) if dflt is None or isinstance(dflt, bool) else (type(got) in (int, float, str) and got == dflt and isinstance(got, bool) == isinstance(dflt, bool))
            if not same:
                bad.append((key, arg, repr(got), repr(dflt)))
        if key in OPTION_DEFAULTS:
            path, attrs = OPTION_DEFAULTS[key]
            modname, rest = path.split('.', 1)
            cls = importlib.import_module('numdifftools.' + modname)
            for part in rest.split('.'):
                cls = getattr(cls, part)
            try:
                inst = cls() if modname == 'limits' else cls(lambda x: x)
            except Exception as e:
                bad.append((key, '<default construction>', repr(e)[:80], 'constructs'))
                continue
            for arg, dflt in attrs.items():
                got = getattr(inst, arg, '<no such attribute>')
                if not (type(got) is type(dflt) and got == dflt):
                    bad.append((key, 'option ' + arg, repr(got), repr(dflt)))
    return bad
