"""ndvc.cut -- mechanical AST extraction from the *current* source of the real code.

split(func, ordinal)      prefix / one-iteration body / suffix of the ordinal-th top-level `for` loop of func.
                          Drops: the docstring and comments only.  `break` -> return ('break', locals()),
                          `continue`/fall-through -> return ('next', locals()).
reeval_constant(mod, nm)  re-evaluate a module-level constant from its defining expression under the overlays.
source_info(obj)          file, line span and sha256 of the current source text of a function/class.
calls_of(mod, attr)       AST scan: where is `<x>.attr(...)` / name `attr` used (frame arguments).
"""
import ast
import copy
import hashlib
import inspect
import sys
import textwrap


class CutError(Exception):
    """the shape of the source changed so that the cut point cannot be located (=> undecided, never violated)"""


def _locals():
    return ast.Call(func=ast.Name(id='locals', ctx=ast.Load()), args=[], keywords=[])


class _BreakRewriter(ast.NodeTransformer):
    def visit_For(self, node): return node
    def visit_While(self, node): return node
    def visit_FunctionDef(self, node): return node
    def visit_Lambda(self, node): return node

    def visit_Break(self, node):
        return ast.Return(value=ast.Tuple(elts=[ast.Constant('break'), _locals()], ctx=ast.Load()))

    def visit_Continue(self, node):
        return ast.Return(value=ast.Tuple(elts=[ast.Constant('next'), _locals()], ctx=ast.Load()))


def _names_stored(stmts):
    out = []
    for s in stmts:
        for nd in ast.walk(s):
            if isinstance(nd, ast.Name) and isinstance(nd.ctx, ast.Store) and nd.id not in out:
                out.append(nd.id)
    return out


def _fdef(func):
    func = getattr(func, '__func__', func)
    try:
        src = textwrap.dedent(inspect.getsource(func))
        fdef = ast.parse(src).body[0]
    except (OSError, SyntaxError, IndexError) as e:
        raise CutError('cannot parse %r: %s' % (func, e))
    if not isinstance(fdef, ast.FunctionDef):
        raise CutError('%r is not a plain function' % (func,))
    return func, fdef


def _mk(name, args, body):
    kw = dict(name=name, args=ast.arguments(posonlyargs=[], args=[ast.arg(arg=a) for a in args], kwonlyargs=[],
                                            kw_defaults=[], defaults=[]), body=body, decorator_list=[])
    if sys.version_info >= (3, 12):
        kw['type_params'] = []
    return ast.FunctionDef(**kw)


def split(func, ordinal=0):
    """returns (prefix_fn, iter_fn, suffix_fn, state_names, generated_text)
    prefix_fn(*params)            -> (locals, iterable)
    iter_fn(**state, target)      -> ('next'|'break', locals)
    suffix_fn(**state)            -> whatever the function returns"""
    func, fdef = _fdef(func)
    idxs = [k for k, s in enumerate(fdef.body) if isinstance(s, ast.For)]
    if ordinal >= len(idxs):
        raise CutError('%s has no top-level for-loop #%d' % (func.__qualname__, ordinal))
    li = idxs[ordinal]
    loop = fdef.body[li]
    if loop.orelse or not isinstance(loop.target, ast.Name):
        raise CutError('unsupported loop shape in %s' % func.__qualname__)
    params = [a.arg for a in fdef.args.args]
    pre, post = fdef.body[:li], fdef.body[li + 1:]
    pre = [s for s in pre if not (isinstance(s, ast.Expr) and isinstance(s.value, ast.Constant))]   # docstring
    state = params + [n for n in _names_stored(pre) if n not in params]
    body_names = [n for n in _names_stored(loop.body) if n not in state]
    tgt = loop.target.id
    allnames = [n for n in state if n != tgt] + [n for n in body_names if n != tgt] + [tgt]
    f_pre = _mk(func.__name__ + '__prefix', params,
                pre + [ast.Return(value=ast.Tuple(elts=[_locals(), copy.deepcopy(loop.iter)], ctx=ast.Load()))])
    body = [_BreakRewriter().visit(copy.deepcopy(s)) for s in loop.body]
    f_body = _mk(func.__name__ + '__iter', allnames,
                 body + [ast.Return(value=ast.Tuple(elts=[ast.Constant('next'), _locals()], ctx=ast.Load()))])
    f_post = _mk(func.__name__ + '__suffix', allnames, post if post else [ast.Pass()])
    mod = ast.Module(body=[f_pre, f_body, f_post], type_ignores=[])
    ast.fix_missing_locations(mod)
    ns = {}
    exec(compile(mod, '<cut:%s>' % func.__qualname__, 'exec'), func.__globals__, ns)
    return ns[f_pre.name], ns[f_body.name], ns[f_post.name], allnames, ast.unparse(mod)


def loop_body(func, ordinal=0):
    """body of the ordinal-th top-level for loop as a function of (params + names assigned before + target);
    returns locals().  (no break handling needed)"""
    func, fdef = _fdef(func)
    loops = [s for s in fdef.body if isinstance(s, ast.For)]
    if ordinal >= len(loops):
        raise CutError('%s has no top-level for-loop #%d' % (func.__qualname__, ordinal))
    loop = loops[ordinal]
    pre_assigned = []
    for s in fdef.body:
        if s is loop:
            break
        for n in _names_stored([s]):
            if n not in pre_assigned:
                pre_assigned.append(n)
    params = [a.arg for a in fdef.args.args]
    params = params + [n for n in pre_assigned if n not in params] + [loop.target.id]
    body = list(loop.body) + [ast.Return(value=_locals())]
    newf = _mk(func.__name__ + '__loop%d_body' % ordinal, params, body)
    mod = ast.Module(body=[newf], type_ignores=[])
    ast.fix_missing_locations(mod)
    ns = {}
    exec(compile(mod, '<cut:%s>' % func.__qualname__, 'exec'), func.__globals__, ns)
    return ns[newf.name], params, ast.unparse(newf), ast.unparse(loop.iter)


def reeval_constant(module, name):
    """re-evaluate `name = <expr>` (module level) in the module's current namespace (i.e. under the overlays)"""
    try:
        tree = ast.parse(inspect.getsource(module))
    except (OSError, SyntaxError) as e:
        raise CutError('cannot parse module %s: %s' % (module.__name__, e))
    for s in tree.body:
        if isinstance(s, ast.Assign) and any(isinstance(t, ast.Name) and t.id == name for t in s.targets):
            expr = ast.Expression(body=s.value)
            ast.fix_missing_locations(expr)
            return eval(compile(expr, '<const:%s.%s>' % (module.__name__, name), 'eval'), module.__dict__), \
                ast.unparse(s)
    raise CutError('constant %s not found in %s' % (name, module.__name__))


def source_info(obj):
    try:
        o = getattr(obj, '__func__', obj)
        if isinstance(o, property):
            o = o.fget
        lines, start = inspect.getsourcelines(o)
        txt = ''.join(lines)
        return dict(name=getattr(o, '__qualname__', str(o)), file=inspect.getsourcefile(o), line=start,
                    end=start + len(lines) - 1, sha256=hashlib.sha256(txt.encode()).hexdigest()[:16])
    except Exception as e:
        return dict(name=str(obj), error=str(e))


def attr_stores(module, name):
    """AST scan: all statements in module that store to / mutate the global `name` (subscript store, method call)"""
    tree = ast.parse(inspect.getsource(module))
    hits = []
    for nd in ast.walk(tree):
        if isinstance(nd, ast.Subscript) and isinstance(nd.ctx, (ast.Store, ast.Del)) and \
                isinstance(nd.value, ast.Name) and nd.value.id == name:
            hits.append(('subscript-store', nd.lineno))
        if isinstance(nd, ast.Call) and isinstance(nd.func, ast.Attribute) and isinstance(nd.func.value, ast.Name) \
                and nd.func.value.id == name and nd.func.attr in ('update', 'pop', 'clear', 'setdefault', 'popitem',
                                                                  '__setitem__', '__delitem__'):
            hits.append(('call:' + nd.func.attr, nd.lineno))
        if isinstance(nd, (ast.Assign, ast.AugAssign)):
            tg = nd.targets if isinstance(nd, ast.Assign) else [nd.target]
            for t in tg:
                if isinstance(t, ast.Name) and t.id == name:
                    hits.append(('rebind', nd.lineno))
    return hits


def attribute_calls(module, attr):
    """AST scan: (enclosing function qualname, lineno) of every call `<expr>.attr(...)` in module"""
    tree = ast.parse(inspect.getsource(module))
    hits = []

    def walk(node, qual):
        for ch in ast.iter_child_nodes(node):
            q = qual
            if isinstance(ch, (ast.FunctionDef, ast.ClassDef)):
                q = (qual + '.' if qual else '') + ch.name
            if isinstance(ch, ast.Call) and isinstance(ch.func, ast.Attribute) and ch.func.attr == attr:
                hits.append((qual, ch.lineno))
            walk(ch, q)
    walk(tree, '')
    return hits
