"""ndvc.native -- replay of a refuted obligation against the real code, under the test-suite interpreter
(/venv/bin/python, no z3): concrete floats in, the property-level statement evaluated with a tolerance six
orders above rounding.  Usage: python -m ndvc.native <replay-file.json>; prints one JSON line
{"reproduced": bool, ...}."""
import json
import math
import sys
import traceback
import warnings

import numpy as np

TOL = 1e-6
REG = {}


def reg(kind):
    def deco(f):
        REG[kind] = f
        return f
    return deco


def _poly(b, x):
    """p(t) = sum b_k (t-x)^k / k!  (works for real, complex and array t)"""
    def f(t):
        d = t - x
        acc = 0 * d + b[0]
        pw = 1
        for k in range(1, len(b)):
            pw = pw * d
            acc = acc + b[k] * pw / math.factorial(k)
        return acc
    return f


def _coefs(D, cplx=False):
    b = [((-1) ** k) * (0.7 + 0.35 * k) + 0.11 * k * k for k in range(D + 1)]
    if cplx:
        b = [v + 1j * (0.3 - 0.2 * k) for k, v in enumerate(b)]
    return b


def main(path):
    doc = json.load(open(path))
    case = doc.get('case') or {}
    kind = case.get('kind')
    with warnings.catch_warnings():
        warnings.simplefilter('ignore')
        try:
            if kind not in REG and kind:
                # per-property replay modules register their kinds on import
                import importlib
                importlib.import_module('ndvc.native_' + kind.split('.')[0])
            if kind not in REG:
                res = dict(reproduced=False, error='no native replay registered for kind %r' % kind)
            else:
                res = REG[kind](case)
        except Exception:
            res = dict(reproduced=False, error=traceback.format_exc()[-1500:])
    print(json.dumps(res, default=lambda o: o.tolist() if hasattr(o, 'tolist') else repr(o)))


if __name__ == '__main__':
    import ndvc.native as _self      # make sure `reg` used by the property modules is this registry
    _self.main(sys.argv[1])


