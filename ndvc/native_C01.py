"""native replays for C01/C02 (run under /venv/bin/python against the real code)"""
import math
import warnings
import numpy as np
from ndvc.native import reg


def _poly(b, x0):
    def f(t):
        d = t - x0
        acc = 0 * d + b[0]
        pw = 1
        for k in range(1, len(b)):
            pw = pw * d
            acc = acc + b[k] * pw / math.factorial(k)
        return acc
    return f


@reg('C01.poly')
def poly(case):
    import numdifftools as nd
    import numdifftools.finite_difference as fd
    bad = []
    with warnings.catch_warnings():
        warnings.simplefilter('ignore')
        cfgs = [(case['method'], case['n'], case['order'])]
        cfgs += [('central', 1, 2), ('central', 2, 2), ('forward', 1, 2), ('backward', 2, 1), ('complex', 1, 2), ('complex', 3, 4), ('multicomplex', 2, 2),
                 ('central', 3, 4), ('forward', 4, 2)]
        for (method, n, order) in cfgs:
            for cplxf in sorted({bool(case.get('complex_f')), False}):
                if cplxf and method in ('complex', 'multicomplex'):
                    continue
                for x0 in (0.3, np.array([0.3, -1.2, 2.0])):
                    if n == 0:
                        D = 3; mo = rs = 1
                    else:
                        rule = fd.LogRule(n=n, method=method, order=order)
                        mo, rs = rule.method_order, rule.richardson_step
                        D = n + mo + rs * case.get('terms', 2) - 1
                    b = [((-1) ** k) * (0.7 + 0.35 * k) + (1j * (0.3 - 0.2 * k) if cplxf else 0) for k in range(D + 1)]
                    xs = np.atleast_1d(x0)
                    try:
                        out = []
                        for xx in xs:          # one expansion point per element
                            f = _poly(b, xx)
                            d = nd.Derivative(f, method=method, n=n, order=order, richardson_terms=case.get('terms', 2), full_output=True)
                            v, info = d(xx)
                            out.append((v, info))
                    except Exception as e:
                        bad.append(dict(method=method, n=n, order=order, complex_f=cplxf, raised=repr(e)[:120]))
                        continue
                    for (v, info), xx in zip(out, xs):
                        want = b[n]
                        scale = max(1.0, max(abs(t) for t in b))
                        tol = 1e-6 * scale * (1.0 if n <= 2 else 10.0 ** (n - 2))
                        if not abs(v - want) <= tol:
                            bad.append(dict(method=method, n=n, order=order, complex_f=cplxf, x=float(xx), got=complex(v) if cplxf else float(v),
                                            expected=complex(want) if cplxf else float(want)))
                        elif not (np.all(np.isreal(info.error_estimate)) and np.all(np.real(info.error_estimate) >= 0)):
                            bad.append(dict(method=method, n=n, order=order, problem='error estimate not real / negative', err=str(info.error_estimate)))
        if case.get('n') == 0:
            # n == 0 returns f(x, *args, **kwds) itself
            def g(z, a, b=10.0, flag=False):
                return np.sin(z) * a + b + (100.0 if flag else 0.0)
            for x0 in (0.3, np.array([0.3, -1.2, 2.0])):
                for method in sorted({case.get('method', 'central'), 'central', 'complex'}):
                    try:
                        got = nd.Derivative(g, n=0, method=method)(x0, 2.0, b=0.5, flag=True)
                    except Exception as e:
                        bad.append(dict(method=method, n=0, raised=repr(e)[:120])); continue
                    want = g(x0, 2.0, b=0.5, flag=True)
                    if np.shape(got) != np.shape(want) or not np.allclose(got, want, rtol=1e-12, atol=0):
                        bad.append(dict(method=method, n=0, call='Derivative(g, n=0)(x, 2.0, b=0.5, flag=True)', x=np.asarray(x0).tolist(),
                                        got=np.asarray(got).tolist(), expected=np.asarray(want).tolist()))
        # one object taken through n = 0 and then set to n through the public property gives what a fresh object gives
        for method in sorted({case.get('method', 'central'), 'central', 'complex'}):
            for n in sorted({max(int(case.get('n', 1)), 1), 1, 2}):
                f = lambda t: np.sin(3 * t) + np.exp(-0.5 * t)
                try:
                    d = nd.Derivative(f, n=0, method=method)
                    d(0.4)
                    d.n = n
                    got = d(0.4)
                    want = nd.Derivative(f, n=n, method=method)(0.4)
                except Exception as e:
                    bad.append(dict(method=method, n=n, history='n=0 then n=%d' % n, raised=repr(e)[:120])); continue
                if not np.allclose(got, want, rtol=1e-9, atol=1e-12):
                    bad.append(dict(method=method, history='Derivative(f, n=0)(x); d.n = %d; d(x)' % n, got=float(got), fresh_object=float(want)))
    return dict(reproduced=bool(bad), failing=bad[:4], statement='Derivative of a polynomial of the degree the pipeline is exact for must equal its n-th derivative')


@reg('C02.record')
def record(case):
    import numdifftools as nd
    bad = []
    with warnings.catch_warnings():
        warnings.simplefilter('ignore')
        x = np.array([0.4, 1.3])
        for klass in sorted({case.get('klass', 'Derivative'), 'Derivative'}):
            for method in sorted({case.get('method', 'central'), 'central', 'forward'}):
                for toggled in (False, True):
                    for n in ((1, 2, 3) if klass == 'Derivative' else (None,)):
                        if klass == 'Derivative':
                            f = lambda t: np.exp(t) + t * t
                        elif klass in ('Jacobian',):
                            f = lambda t: np.array([t[0] * t[1], np.exp(t[0]) + t[1]])
                        else:
                            f = lambda t: np.exp(t[0]) * t[1] + t[0] * t[0]
                        kw = dict(method=method)
                        if n is not None:
                            kw['n'] = n
                        try:
                            obj = getattr(nd, klass)(f, full_output=not toggled, **kw)
                            if toggled:
                                obj.full_output = True
                            val, info = obj(x)
                        except Exception as e:
                            bad.append(dict(cls=klass, method=method, n=n, toggled=toggled, raised=repr(e)[:100])); continue
                        fx = f(x)
                        if not np.allclose(info.f_value, fx, rtol=0, atol=0):
                            bad.append(dict(cls=klass, method=method, n=n, full_output_set_after_construction=toggled, f_value=str(info.f_value)[:60], expected=str(fx)[:60]))
                        if np.size(info.error_estimate) != np.size(val) or np.size(info.final_step) != np.size(val) or not np.all(np.asarray(info.error_estimate) >= 0):
                            bad.append(dict(cls=klass, method=method, n=n, problem='error_estimate / final_step', err=str(info.error_estimate)[:60]))
    return dict(reproduced=bool(bad), failing=bad[:4])


@reg('C02.honesty')
def honesty(case):
    """mechanism-level refutations (penalty / argmin / Richardson estimate) are replayed on the configurations whose outcome is
    not dominated by rounding noise on the unchanged tree (everything except the F12 class: n = 4 with user steps <= 1e-4)"""
    import numdifftools as nd
    from ndvc.concrete import honesty_cases
    res = honesty_cases(nd)
    bad = [dict(case=k, **(v[1] or {})) for k, v in sorted(res.items())
           if not v[0] and not (',n=4,' in k and any(t in k for t in ('step=1e-4', 'step=1e-6', 'step=1e-9', 'step=1e-10')))]
    return dict(reproduced=bool(bad), failing=bad[:4], statement='true error <= fixed multiple of the reported estimate + rounding floor')