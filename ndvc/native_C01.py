"""native replays for C01/C02 (run under /venv/bin/python against the real code)"""
import math
import warnings
import numpy as np
from ndvc.native import reg


def _poly(b, x0):
    def f(t):
        d = t - x0
        acc = 0 * d + b[0]
        pw = 1
        for k in range(1, len(b)):
            pw = pw * d
            acc = acc + b[k] * pw / math.factorial(k)
        return acc
    return f


@reg('C01.poly')
def poly(case):
    import numdifftools as nd
    import numdifftools.finite_difference as fd
    bad = []
    with warnings.catch_warnings():
        warnings.simplefilter('ignore')
        cfgs = [(case['method'], case['n'], case['order'])]
        cfgs += [('central', 1, 2), ('central', 2, 2), ('forward', 1, 2), ('backward', 2, 1), ('complex', 1, 2), ('complex', 3, 4), ('multicomplex', 2, 2),
                 ('central', 3, 4), ('forward', 4, 2)]
        for (method, n, order) in cfgs:
            for cplxf in sorted({bool(case.get('complex_f')), False}):
                if cplxf and method in ('complex', 'multicomplex'):
                    continue
                for x0 in (0.3, np.array([0.3, -1.2, 2.0])):
                    if n == 0:
                        D = 3; mo = rs = 1
                    else:
                        rule = fd.LogRule(n=n, method=method, order=order)
                        mo, rs = rule.method_order, rule.richardson_step
                        D = n + mo + rs * case.get('terms', 2) - 1
                    b = [((-1) ** k) * (0.7 + 0.35 * k) + (1j * (0.3 - 0.2 * k) if cplxf else 0) for k in range(D + 1)]
                    xs = np.atleast_1d(x0)
                    try:
                        out = []
                        for xx in xs:          # one expansion point per element
                            f = _poly(b, xx)
                            d = nd.Derivative(f, method=method, n=n, order=order, richardson_terms=case.get('terms', 2), full_output=True)
                            v, info = d(xx)
                            out.append((v, info))
                    except Exception as e:
                        bad.append(dict(method=method, n=n, order=order, complex_f=cplxf, raised=repr(e)[:120]))
                        continue
                    for (v, info), xx in zip(out, xs):
                        want = b[n]
                        scale = max(1.0, max(abs(t) for t in b))
                        tol = 1e-6 * scale * (1.0 if n <= 2 else 10.0 ** (n - 2))
                        if not abs(v - want) <= tol:
                            bad.append(dict(method=method, n=n, order=order, complex_f=cplxf, x=float(xx), got=complex(v) if cplxf else float(v),
                                            expected=complex(want) if cplxf else float(want)))
                        elif not (np.all(np.isreal(info.error_estimate)) and np.all(np.real(info.error_estimate) >= 0)):
                            bad.append(dict(method=method, n=n, order=order, problem='error estimate not real / negative', err=str(info.error_estimate)))
    return dict(reproduced=bool(bad), failing=bad[:4], statement='Derivative of a polynomial of the degree the pipeline is exact for must equal its n-th derivative')
