"""native replays for C01/C02 (run under /venv/bin/python against the real code)"""
import math
import warnings
import numpy as np
from ndvc.native import reg


def _poly(b, x0):
    def f(t):
        d = t - x0
        acc = 0 * d + b[0]
        pw = 1
        for k in range(1, len(b)):
            pw = pw * d
            acc = acc + b[k] * pw / math.factorial(k)
        return acc
    return f




@reg('C02.record')
def record(case):
    import numdifftools as nd
    bad = []
    with warnings.catch_warnings():
        warnings.simplefilter('ignore')
        x = np.array([0.4, 1.3])
        for klass in sorted({case.get('klass', 'Derivative'), 'Derivative'}):
            for method in sorted({case.get('method', 'central'), 'central', 'forward'}):
                for toggled in (False, True):
                    for n in ((1, 2, 3) if klass == 'Derivative' else (None,)):
                        if klass == 'Derivative':
                            f = lambda t: np.exp(t) + t * t
                        elif klass in ('Jacobian',):
                            f = lambda t: np.array([t[0] * t[1], np.exp(t[0]) + t[1]])
                        else:
                            f = lambda t: np.exp(t[0]) * t[1] + t[0] * t[0]
                        kw = dict(method=method)
                        if n is not None:
                            kw['n'] = n
                        try:
                            obj = getattr(nd, klass)(f, full_output=not toggled, **kw)
                            if toggled:
                                obj.full_output = True
                            val, info = obj(x)
                        except Exception as e:
                            bad.append(dict(cls=klass, method=method, n=n, toggled=toggled, raised=repr(e)[:100])); continue
                        fx = f(x)
                        if not np.allclose(info.f_value, fx, rtol=0, atol=0):
                            bad.append(dict(cls=klass, method=method, n=n, full_output_set_after_construction=toggled, f_value=str(info.f_value)[:60], expected=str(fx)[:60]))
                        if np.size(info.error_estimate) != np.size(val) or np.size(info.final_step) != np.size(val) or not np.all(np.asarray(info.error_estimate) >= 0):
                            bad.append(dict(cls=klass, method=method, n=n, problem='error_estimate / final_step', err=str(info.error_estimate)[:60]))
    return dict(reproduced=bool(bad), failing=bad[:4])


@reg('C02.honesty')
def honesty(case):
    import numdifftools as nd
    bad = []
    with warnings.catch_warnings():
        warnings.simplefilter('ignore')
        for name, f, dn in [('exp', np.exp, lambda x, n: np.exp(x)), ('sin', np.sin, lambda x, n: [np.sin, np.cos, lambda t: -np.sin(t), lambda t: -np.cos(t)][n % 4](x)),
                            ('1/x', lambda x: 1 / x, lambda x, n: (-1) ** n * np.prod(np.arange(1, n + 1)) / x ** (n + 1))]:
            for n in (1, 2, 4):
                for opts in [dict(), dict(step=1e-9, num_steps=20), dict(step=1e-10, num_steps=30), dict(step=0.01, num_steps=12)]:
                    for method in ('central', 'forward'):
                        for x in (0.5, 1.0, 2.0):
                            try:
                                v, info = nd.Derivative(f, n=n, method=method, full_output=True, **opts)(x)
                            except Exception:
                                continue
                            exact = dn(x, n)
                            scale = max(abs(exact), abs(f(x)), 1.0)
                            if not abs(v - exact) <= 100 * info.error_estimate + 1e-5 * scale * 10 ** n:
                                bad.append(dict(fun=name, n=n, method=method, x=x, options=str(opts), value=float(v), exact=float(exact), estimate=float(info.error_estimate)))
    return dict(reproduced=bool(bad), failing=bad[:4], statement='true error <= fixed multiple of the reported estimate + rounding floor')
