"""native replays for C01/C02 (run under /venv/bin/python against the real code)"""
import math
import warnings
import numpy as np
from ndvc.native import reg


def _poly(b, x0):
    def f(t):
        d = t - x0
        acc = 0 * d + b[0]
        pw = 1
        for k in range(1, len(b)):
            pw = pw * d
            acc = acc + b[k] * pw / math.factorial(k)
        return acc
    return f




@reg('C02.record')
def record(case):
    import numdifftools as nd
    bad = []
    with warnings.catch_warnings():
        warnings.simplefilter('ignore')
        x = np.array([0.4, 1.3])
        for klass in sorted({case.get('klass', 'Derivative'), 'Derivative'}):
            for method in sorted({case.get('method', 'central'), 'central', 'forward'}):
                for toggled in (False, True):
                    for n in ((1, 2, 3) if klass == 'Derivative' else (None,)):
                        if klass == 'Derivative':
                            f = lambda t: np.exp(t) + t * t
                        elif klass in ('Jacobian',):
                            f = lambda t: np.array([t[0] * t[1], np.exp(t[0]) + t[1]])
                        else:
                            f = lambda t: np.exp(t[0]) * t[1] + t[0] * t[0]
                        kw = dict(method=method)
                        if n is not None:
                            kw['n'] = n
                        try:
                            obj = getattr(nd, klass)(f, full_output=not toggled, **kw)
                            if toggled:
                                obj.full_output = True
                            val, info = obj(x)
                        except Exception as e:
                            bad.append(dict(cls=klass, method=method, n=n, toggled=toggled, raised=repr(e)[:100])); continue
                        fx = f(x)
                        if not np.allclose(info.f_value, fx, rtol=0, atol=0):
                            bad.append(dict(cls=klass, method=method, n=n, full_output_set_after_construction=toggled, f_value=str(info.f_value)[:60], expected=str(fx)[:60]))
                        if np.size(info.error_estimate) != np.size(val) or np.size(info.final_step) != np.size(val) or not np.all(np.asarray(info.error_estimate) >= 0):
                            bad.append(dict(cls=klass, method=method, n=n, problem='error_estimate / final_step', err=str(info.error_estimate)[:60]))
    from ndvc.concrete import record_extra_args_cases
    for klass in sorted({case.get('klass', 'Derivative'), 'Derivative'}):
        bad += record_extra_args_cases(nd, klass)[1]
    return dict(reproduced=bool(bad), failing=bad[:4])


@reg('C02.honesty')
def honesty(case):
    """mechanism-level refutations (penalty / argmin / Richardson estimate) are replayed on the configurations whose outcome is
    not dominated by rounding noise on the unchanged tree (everything except the F12 class: n = 4 with user steps <= 1e-4)"""
    import numdifftools as nd
    from ndvc.concrete import honesty_cases
    from ndvc.concrete import honesty_complex_cases
    res = dict(honesty_cases(nd)); res.update(honesty_complex_cases(nd))
    bad = [dict(case=k, **(v[1] or {})) for k, v in sorted(res.items())
           if not v[0] and not (',n=4,' in k and any(t in k for t in ('step=1e-4', 'step=1e-6', 'step=1e-9', 'step=1e-10')))]
    return dict(reproduced=bool(bad), failing=bad[:4], statement='true error <= fixed multiple of the reported estimate + rounding floor')


@reg('C02.honesty-concrete')
def honesty_concrete(case):
    import numdifftools as nd
    from ndvc.concrete import honesty_cases
    from ndvc.concrete import honesty_complex_cases
    res = dict(honesty_cases(nd)); res.update(honesty_complex_cases(nd))
    want = case.get('name')
    bad = [dict(case=k, **(v[1] or {})) for k, v in sorted(res.items()) if not v[0] and (want is None or k == want)]
    return dict(reproduced=bool(bad), failing=bad[:4], statement='|result - exact| <= 100 * error_estimate + 1e-5 * scale * 10**n')
