"""native replays for C03 (run under /venv/bin/python against the real code)"""
import itertools
import warnings
import numpy as np
from ndvc.native import reg


@reg('C03.affine')
def affine(case):
    import numdifftools as nd
    rng = np.random.default_rng(5)
    bad = []
    cfgs = [(case['m'], case['n'], case.get('k'))]
    cfgs += [(1, 3, None), (2, 3, None), (3, 2, None), ('scalar', 3, None), (2, 3, 2), (3, 2, 4), (2, 2, 3), (1, 1, None), (4, 1, 2)]
    with warnings.catch_warnings():
        warnings.simplefilter('ignore')
        for (m, n, k) in cfgs:
            m_ = 1 if m == 'scalar' else int(m)
            shapeA = (n,) if m == 'scalar' else ((m_, n) if k is None else (m_, k, n))
            A = rng.normal(size=shapeA); b = rng.normal(size=shapeA[:-1])
            f = lambda x: np.dot(A, x) + b
            x_ = rng.normal(size=n) * 3
            x_zero = x_.copy(); x_zero[0] = 0.0          # a coordinate exactly at the origin
            for method, klass, x in itertools.product(sorted({case['method'], 'central', 'forward'}), ['Jacobian'] + (['Gradient'] if m == 'scalar' else []), (x_, x_zero)):
                if True:
                    try:
                        J = getattr(nd, klass)(f, method=method, order=case.get('order', 2))(x)
                    except Exception as e:
                        bad.append(dict(cls=klass, m=m, n=n, k=k, method=method, raised=repr(e)[:100]))
                        continue
                    if klass == 'Gradient':
                        want = A if n > 1 else A.reshape(())
                    elif m == 'scalar':
                        want = A.reshape(1, n)
                    else:
                        want = A if k is None else np.transpose(A, (0, 2, 1))
                    if np.shape(J) != np.shape(want) or not np.allclose(J, want, rtol=1e-6, atol=1e-8):
                        bad.append(dict(cls=klass, m=m, n=n, k=k, method=method, x=x.tolist(), shape=np.shape(J), expected_shape=np.shape(want),
                                        got=np.asarray(J).ravel()[:4].tolist(), expected=np.asarray(want).ravel()[:4].tolist()))
        # a user-supplied step generator with another ratio, on a function with curvature: the rule must be built for the
        # ratio of the steps actually used
        g = lambda x: np.array([np.exp(0.5 * x[0]) * x[1], np.sin(x[0]) + x[1] ** 3])
        Jg = lambda x: np.array([[0.5 * np.exp(0.5 * x[0]) * x[1], np.exp(0.5 * x[0])], [np.cos(x[0]), 3 * x[1] ** 2]])
        xg = np.array([0.4, 1.3])
        for ratio in (1.6, 3.0, 4.0):
            for method in sorted({case['method'], 'central', 'forward'} - {'multicomplex'}):
                for order in (2, 4):
                    J = nd.Jacobian(g, step=nd.MinStepGenerator(step_ratio=ratio, num_steps=8 + order), method=method, order=order)(xg)
                    if not np.allclose(J, Jg(xg), rtol=1e-5, atol=1e-6):
                        bad.append(dict(cls='Jacobian', step_ratio=ratio, method=method, order=order, got=np.asarray(J).ravel().tolist(), expected=Jg(xg).ravel().tolist()))
    return dict(reproduced=bool(bad), failing=bad[:4], statement='Jacobian of an affine map is its matrix, shape (m, n) / (m, n, k); Gradient shape (n,)')


@reg('C03.directional')
def directional(case):
    import numdifftools as nd
    rng = np.random.default_rng(6)
    bad = []
    with warnings.catch_warnings():
        warnings.simplefilter('ignore')
        for shape in [(3,), (1,), (2, 2), (2, 3), (3, 2)]:
            A = rng.normal(size=shape); x0 = rng.normal(size=shape); v = rng.normal(size=shape) * 2.5
            f = lambda z: np.sum(A.ravel() * np.ravel(z)) + 0.5 * np.sum(np.ravel(z) ** 2)
            want = np.sum((A + x0) * v) / np.linalg.norm(v.ravel())
            got = nd.directionaldiff(f, x0, v)
            g = np.sum(nd.Gradient(f)(x0).ravel() * v.ravel()) / np.linalg.norm(v.ravel())
            if not (abs(got - want) <= 1e-7 * (1 + abs(want)) and abs(got - g) <= 1e-7 * (1 + abs(want))):
                bad.append(dict(shape=shape, got=float(got), expected=float(want), via_gradient=float(g)))
        # a direction of the same size but another shape (e.g. the flat gradient of a matrix argument)
        for shape, vshape in [((2, 3), (6,)), ((3, 1), (3,)), ((4,), (2, 2))]:
            A = rng.normal(size=shape); x0 = rng.normal(size=shape); v = rng.normal(size=vshape) * 2.5
            f = lambda z: np.sum(A.ravel() * np.ravel(z)) + 0.5 * np.sum(np.ravel(z) ** 2)
            want = np.sum((A + x0).ravel() * v.ravel()) / np.linalg.norm(v.ravel())
            try:
                got = float(nd.directionaldiff(f, x0, v))
            except Exception as e:
                bad.append(dict(shape=shape, direction_shape=vshape, raised=repr(e)[:100])); continue
            if not abs(got - want) <= 1e-7 * (1 + abs(want)):
                bad.append(dict(shape=shape, direction_shape=vshape, got=got, expected=float(want)))
    return dict(reproduced=bool(bad), failing=bad[:4])


@reg('C03.layout')
def layout(case):
    """Gradient(f)(X) for X with several axes == gradient at X.ravel() (row-major), whatever the memory layout of X"""
    import numdifftools as nd
    w = np.array([1.0, 2.0, 3.0, 4.0, 5.0, 6.0])
    bad = []
    for shape in [(2, 2), (2, 3), (3, 2)]:
        n = shape[0] * shape[1]
        X = np.arange(1.0, n + 1).reshape(shape) * 0.37
        f = lambda v: np.sum(w[:n] * np.asarray(v) ** 2)
        want = 2 * w[:n] * X.ravel()
        for name, Xv in [('C', X), ('F', np.asfortranarray(X)), ('transposed-view', np.ascontiguousarray(X.T).T)]:
            for method in ('central', 'forward', 'complex'):
                got = nd.Gradient(f, method=method)(Xv)
                if np.shape(got) != want.shape or not np.allclose(got, want, rtol=1e-5, atol=1e-5):
                    bad.append(dict(layout=name, shape=shape, method=method, got=np.asarray(got).tolist(), expected=want.tolist()))
    return dict(reproduced=bool(bad), failing=bad[:3], statement='Gradient(f)(X) == gradient of f at X.ravel() for every memory layout of X')


@reg('C03.views')
def views(case):
    import numdifftools as nd
    from ndvc.concrete import jacobian_view_cases
    cnt, bad = jacobian_view_cases(nd)
    return dict(reproduced=bool(bad), failing=bad[:3], cases=cnt, statement='Jacobian of affine functions that return views of their argument')


@reg('C03.shapes')
def shapes(case):
    import numdifftools as nd
    from ndvc.concrete import jacobian_shape_cases
    cnt, bad = jacobian_shape_cases(nd)
    return dict(reproduced=bool(bad), failing=bad[:3], cases=cnt, statement='Jacobian of affine maps: shape (m, n) / (m, n, k), exact to rounding, over the corners of the range')
