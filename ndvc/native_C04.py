"""native replays for C04 (run under /venv/bin/python against the real code)"""
import warnings
import numpy as np
from ndvc.native import reg


@reg('C04.call')
def call(case):
    import numdifftools as nd
    rng = np.random.default_rng(8)
    bad = []
    with warnings.catch_warnings():
        warnings.simplefilter('ignore')
        ds = sorted({case.get('d', 2), 1, 2, 3})
        for d in ds:
            Qm = rng.normal(size=(d, d)); Qm = Qm + Qm.T
            g = rng.normal(size=d); c = rng.normal()
            x = rng.normal(size=d) * np.array([1.0, 10.0, -3.0][:d])
            for variant in sorted({case.get('variant', 'plain'), 'plain', 'length-1-array-f'}):
                for full in (True, False):
                    def f(z):
                        v = c + np.dot(g, z) + 0.5 * np.dot(z, np.dot(Qm, z))
                        if variant == 'complex-valued-f':
                            v = v * (1 + 0.5j)
                        return np.array([v]) if variant == 'length-1-array-f' else v
                    fac = (1 + 0.5j) if variant == 'complex-valued-f' else 1
                    for method in sorted({case.get('method', 'central'), 'central', 'forward', 'backward', 'central2'}):
                        if variant == 'complex-valued-f' and method in ('complex', 'multicomplex'):
                            continue
                        for klass in ('Hessian', 'Hessdiag'):
                            try:
                                kw = dict(method=method, full_output=full)
                                if klass == 'Hessdiag':
                                    kw['order'] = case.get('order', 2)
                                out = getattr(nd, klass)(f, **kw)(x)
                                if full:
                                    out = out[0]
                            except Exception as e:
                                bad.append(dict(cls=klass, method=method, d=d, variant=variant, raised=repr(e)[:100]))
                                continue
                            want = Qm * fac if klass == 'Hessian' else np.diag(Qm) * fac
                            tol = 1e-5 if method in ('forward', 'backward') else 1e-7
                            if np.shape(out) != np.shape(want) or not np.allclose(out, want, rtol=tol, atol=tol * (1 + np.max(np.abs(Qm)))):
                                bad.append(dict(cls=klass, method=method, d=d, variant=variant, full_output=full, shape=np.shape(out),
                                                got=np.asarray(out).ravel()[:4].tolist(), expected=np.asarray(want).ravel()[:4].tolist()))
                            elif klass == 'Hessian' and not np.array_equal(out, out.T):
                                bad.append(dict(cls=klass, method=method, d=d, problem='not exactly symmetric'))
    if case.get('variant') == 'second-call-with-other-args':
        # one object, two calls with different extra arguments: f(x, s) = s * quadratic(x)
        Qm = np.array([[2.0, -1.0], [-1.0, 3.0]]); x = np.array([0.4, -1.2])
        for klass in ('Hessian', 'Hessdiag'):
            for method in sorted({case.get('method', 'central'), 'central', 'forward'}):
                obj = getattr(nd, klass)(lambda z, s: s * 0.5 * np.dot(z, np.dot(Qm, z)), method=method)
                with warnings.catch_warnings():
                    warnings.simplefilter('ignore')
                    first = obj(x, 1.0); second = obj(x, 3.0)
                want = 3.0 * (Qm if klass == 'Hessian' else np.diag(Qm))
                if not np.allclose(second, want, rtol=1e-4, atol=1e-4):
                    bad.append(dict(cls=klass, method=method, calls='obj(x, 1.0); obj(x, 3.0)', second_result=np.asarray(second).tolist(),
                                    expected=want.tolist()))
    return dict(reproduced=bool(bad), failing=bad[:4], statement='Hessian of a quadratic is its matrix, exactly symmetric; Hessdiag its diagonal')


@reg('C04.dconc')
def dconc(case):
    import numdifftools as nd
    from ndvc.concrete import hessian_default_step_cases
    cnt, bad = hessian_default_step_cases(nd)
    return dict(reproduced=bool(bad), failing=bad[:3], cases=cnt, statement='Hessian / Hessdiag with the default step generators')


@reg('C04.hrule')
def hrule(case):
    """the order the Richardson stage is told about is the order the Hessian difference quotient really has (1 for the one-sided
    methods): a cubic is then reproduced exactly from 2..4 user-supplied steps of any size"""
    import warnings
    import numdifftools as nd
    f = lambda x: x[0] ** 3 + 2 * x[0] ** 2 * x[1] - x[1] ** 3 + x[0] * x[1] + 0.5 * x[1] ** 2
    H = lambda x: np.array([[6 * x[0] + 4 * x[1], 4 * x[0] + 1], [4 * x[0] + 1, -6 * x[1] + 1]])
    x = np.array([0.7, -0.4])
    bad = []
    with warnings.catch_warnings():
        warnings.simplefilter('ignore')
        for method in ('forward', 'backward', 'central', 'central2'):
            for ns in (2, 3, 4):
                for bs in (0.1, 0.01):
                    h = nd.Hessian(f, method=method, step=nd.MinStepGenerator(base_step=bs, num_steps=ns, step_ratio=2.0))(x)
                    if not np.max(np.abs(h - H(x))) <= 1e-9:
                        bad.append(dict(method=method, num_steps=ns, base_step=bs, got=np.asarray(h).tolist(), expected=H(x).tolist()))
        # complex-step Hessian with several user steps: its error series is h^2, h^4, h^6 (not h^4, h^8): three steps of ratio 2 from 0.1
        fs = lambda x: np.exp(0.9 * x[0] - 0.5 * x[1]) + x[0] * x[1] ** 2
        Hs = lambda x: np.exp(0.9 * x[0] - 0.5 * x[1]) * np.array([[0.81, -0.45], [-0.45, 0.25]]) + np.array([[0.0, 2 * x[1]], [2 * x[1], 2 * x[0]]])
        h = nd.Hessian(fs, method='complex', step=nd.MinStepGenerator(base_step=0.1, num_steps=3, step_ratio=2.0))(x)
        if not np.max(np.abs(h - Hs(x))) <= 1e-6:
            bad.append(dict(method='complex', steps=[0.4, 0.2, 0.1], got=np.asarray(h).tolist(), expected=Hs(x).tolist(), max_error=float(np.max(np.abs(h - Hs(x))))))
        # the rule cache: a Hessdiag with a nearby step ratio right after the default one gets ITS rule (cold == warm)
        import numdifftools.finite_difference as fd
        for method, order in (('central', 4), ('forward', 2)):
            g2 = nd.MinStepGenerator(base_step=0.05, step_ratio=1.64, num_steps=6)
            fd.FD_RULES.clear()
            cold = nd.Hessdiag(fs, method=method, order=order, step=g2)(x)
            fd.FD_RULES.clear()
            nd.Hessdiag(fs, method=method, order=order, step=nd.MinStepGenerator(base_step=0.05, step_ratio=1.6, num_steps=6))(x)
            warm = nd.Hessdiag(fs, method=method, order=order, step=g2)(x)
            if not np.array_equal(cold, warm):
                bad.append(dict(method=method, order=order, what='Hessdiag(step_ratio=1.64) after a call with step_ratio=1.6', warm_cache=np.asarray(warm).tolist(), cold_cache=np.asarray(cold).tolist()))
    if not bad:
        for method in ('central', 'forward', 'complex'):
            r = call(dict(klass='Hessian', method=method, d=3, order=2, variant='plain'))
            if r.get('reproduced'):
                return r
    return dict(reproduced=bool(bad), failing=bad[:3], statement='Hessian of a cubic from a short user step sequence is exact (Richardson removes the O(h) / O(h^2) term of the quotient)')
