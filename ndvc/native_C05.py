"""native replays for C05 (run under /venv/bin/python against the real code)"""
import math
import numpy as np
from ndvc.native import reg, _poly, _coefs, TOL


# ------------------------------------------------------------------------------------------ C05
_C05_KIND = {'_forward': 'forward', '_backward': 'backward', '_central': 'symmetric', '_central_even': 'symmetric',
             '_central2': 'symmetric', '_complex': 'imag-only', '_multicomplex': 'imag-only',
             '_multicomplex2': 'imag-only'}


def _c05_offsets(z, x):
    from numdifftools.multicomplex import Bicomplex
    if isinstance(z, Bicomplex):
        z1 = np.atleast_1d(z.z1).ravel(); z2 = np.atleast_1d(z.z2).ravel()
    else:
        z1 = np.atleast_1d(np.asarray(z)).ravel(); z2 = np.zeros(z1.shape)
    x = np.atleast_1d(x).ravel()
    return np.real(z1) - x, np.imag(z1), np.real(z2), np.imag(z2)


def _c05_judge(calls, x, kind, hmax, maxnz):
    bad = []
    offs = [_c05_offsets(z, x) for z in calls]
    for k, (dr, di, jr, ji) in enumerate(offs):
        if kind == 'forward' and not (np.all(dr >= 0) and np.all(di == 0) and np.all(jr == 0) and np.all(ji == 0)):
            bad.append(('below x / not real', k, dr.tolist(), di.tolist()))
        if kind == 'backward' and not (np.all(dr <= 0) and np.all(di == 0) and np.all(jr == 0) and np.all(ji == 0)):
            bad.append(('above x / not real', k, dr.tolist(), di.tolist()))
        if kind == 'imag-only' and not np.all(dr == 0):
            bad.append(('real part moved', k, dr.tolist()))
        if kind == 'symmetric':
            if not (np.all(di == 0) and np.all(jr == 0) and np.all(ji == 0)):
                bad.append(('not real', k))
            if not any(np.allclose(dr, -o[0], rtol=0, atol=1e-12 * (1 + np.max(np.abs(dr)))) for o in offs):
                bad.append(('no mirror point', k, dr.tolist()))
        mag = np.maximum.reduce([np.abs(dr), np.abs(di), np.abs(jr), np.abs(ji)])
        if np.any(mag > 2 * hmax * (1 + 1e-9)):
            bad.append(('reach', k, mag.tolist()))
        if np.count_nonzero(mag) > maxnz:
            bad.append(('too many coordinates perturbed', k, mag.tolist()))
    return bad


@reg('C05.points')
def c05_points(case):
    import numdifftools.finite_difference as fd
    from numdifftools.multicomplex import Bicomplex
    cls = getattr(fd, case['cls'])
    d = case['d']
    calls = []

    def f(z):
        calls.append(z)
        if isinstance(z, Bicomplex):
            if case['cls'] == 'JacobianDifferenceFunctions':
                return Bicomplex(np.array([1 + 0j, 2]), np.array([0.5j, 1]))
            return z if case['cls'] == 'DifferenceFunctions' else Bicomplex(1 + 2j, 3 + 4j)
        if case['cls'] == 'DifferenceFunctions':
            return z * 1.0
        if case['cls'] == 'JacobianDifferenceFunctions':
            return np.array([np.sum(z), np.sum(z * z)])
        return np.sum(z * z)
    if case['cls'] == 'DifferenceFunctions' and d == 0:
        x = 0.3; h = 0.01
    else:
        x = np.array([0.3, -0.7, 1.1, 2.0, -1.3][:d]); h = np.array([0.01, 0.02, 0.03, 0.04, 0.05][:d])
    fx = f(x); calls.clear()
    getattr(cls, case['func'])(f, fx, x, h)
    kind = _C05_KIND.get(case['func'], 'any')
    maxnz = 2 if case['cls'] == 'HessianDifferenceFunctions' else (max(d, 1) if case['cls'] == 'DifferenceFunctions' else 1)
    bad = _c05_judge(calls, x, kind, np.max(h), maxnz)
    if not bad and case['cls'] != 'DifferenceFunctions' and d >= 1:
        # re-entrant use: while the outer pass is suspended inside f, a nested pass of the same dimension runs
        outer = []
        state = dict(n=0)
        x2 = x[::-1] * 0.5 + 0.1; h2 = h[::-1] * 3.0

        def f_outer(z):
            outer.append(z)
            if len(outer) in (1, 4) and state['n'] < 2:
                state['n'] += 1
                getattr(cls, case['func'])(f, f(x2), x2, h2)
            return f(z)
        getattr(cls, case['func'])(f_outer, fx, x, h)
        bad = [('re-entrant use: outer pass',) + tuple(b) for b in _c05_judge(outer, x, kind, np.max(h), maxnz)]
    return dict(reproduced=bool(bad), kind=kind, calls=len(calls), problems=bad[:5])


@reg('C05.glue')
def c05_glue(case):
    import numdifftools as nd
    from numdifftools.multicomplex import Bicomplex
    K = getattr(nd, case['klass'])
    calls = []
    method = case['method']

    def f(z, *a):
        calls.append(z)
        if case['klass'] == 'Derivative':
            return z * z * z if not isinstance(z, Bicomplex) else z * z * z
        if case['klass'] == 'Jacobian':
            return z * z if isinstance(z, Bicomplex) else np.asarray(z) ** 2
        s = z[0] * z[0] + z[1] * z[0] + z[1] * z[1] * z[1]
        return s
    other = case.get('other')
    m0, n0, o0 = other if other else (method, case['n'], case['order'])
    kw = dict(method=m0, order=o0)
    if case['klass'] == 'Derivative':
        kw['n'] = n0
    x = np.array([0.3, 0.7])
    steps = []
    obj = K(f, **kw)
    if other:
        obj.method = method
        obj.order = case['order']
        if case['klass'] == 'Derivative':
            obj.n = case['n']
    gen = obj.step
    orig = gen.step_generator_function

    def spy(*a, **k):
        g = orig(*a, **k)
        real_call = g.__call__

        class G(object):
            step_ratio = g.step_ratio

            def __call__(self_):
                for s in real_call():
                    steps.append(np.max(np.abs(s)))
                    yield s
        return G()
    gen.step_generator_function = spy
    obj(x)
    kind = {'forward': 'forward', 'backward': 'backward', 'central': 'symmetric', 'central2': 'symmetric',
            'multicomplex': 'imag-only', 'complex': 'any'}[method]
    if method == 'complex' and case['klass'] in ('Derivative', 'Jacobian', 'Gradient') and case['n'] == 1 and case['order'] < 4:
        kind = 'imag-only'
    maxnz = 2 if case['klass'] == 'Hessian' else (2 if case['klass'] == 'Derivative' else 1)
    bad = _c05_judge(calls, x, kind, max(steps), maxnz)
    # history: the same object called twice with different extra arguments must forward each call's own arguments
    seen = []

    def g(z, *a, **k):
        seen.append((a, tuple(sorted(k.items()))))
        return f(z)
    obj2 = K(g, **dict(kw, method=method, order=case['order'], **({'n': case['n']} if case['klass'] == 'Derivative' else {})))
    obj2(x, 'A1', 7, key='K')
    n1 = len(seen)
    obj2(x, 'A2', 8, 'more', key='K2', other=3)
    wrong = [s for s in seen[:n1] if s != (('A1', 7), (('key', 'K'),))] + \
            [s for s in seen[n1:] if s != (('A2', 8, 'more'), (('key', 'K2'), ('other', 3)))]
    if wrong:
        bad = list(bad) + [dict(second_call_received=repr(wrong[0]), expected="('A2', 8, 'more'), key='K2', other=3", calls_first=n1, calls_total=len(seen))]
    return dict(reproduced=bool(bad), kind=kind, calls=len(calls), problems=bad[:5])


@reg('C05.dispatch')
def c05_dispatch(case):
    import numdifftools.finite_difference as fd
    fam = {'forward': ['_forward'], 'backward': ['_backward'], 'central': ['_central', '_central_even'],
           'central2': ['_central2'], 'multicomplex': ['_multicomplex', '_multicomplex2']}
    bad = []
    ns = [int(case['n'])] if case.get('n') not in (None, '') else range(1, 13)
    orders = [int(case['order'])] if case.get('order') not in (None, '') else range(1, 13)
    for n in ns:
        for order in orders:
            try:
                nm = getattr(fd, case['rule'])(n=n, method=case['method'], order=order).diff.__name__
            except (AttributeError, ValueError):
                continue
            ok = nm in fam[case['method']] if case['method'] in fam else nm.startswith('_complex')
            if case['method'] == 'complex' and n == 1 and order < 4 and case['rule'] == 'LogRule' and nm != '_complex':
                ok = False
            if not ok:
                bad.append((n, order, nm))
    return dict(reproduced=bool(bad), problems=bad[:8])


@reg('C05.pconc')
def pconc(case):
    import numdifftools.finite_difference as fd
    from numdifftools.multicomplex import Bicomplex
    from ndvc.concrete import evaluation_point_cases
    cnt, bad = evaluation_point_cases(fd, Bicomplex)
    return dict(reproduced=bool(bad), failing=bad[:3], cases=cnt, statement='evaluation points admissible in floating point')


@reg('C05.signs')
def signs(case):
    """one-sided methods at points with negative, zero and positive coordinates, default and user steps: forward never evaluates
    below x, backward never above, in any coordinate; the generated steps are positive"""
    import warnings
    import numdifftools as nd
    bad = []
    with warnings.catch_warnings():
        warnings.simplefilter('ignore')
        for xv in ([-2.0, -0.3], [-4.5, 3.0], [0.0, -1.0], [2.0, 0.5]):
            for gen in (None, nd.MinStepGenerator(), nd.MaxStepGenerator(), nd.MinStepGenerator(base_step=0.01, num_steps=4)):
                x = np.array(xv)
                if gen is not None:
                    for s in gen.step_generator_function(x, 'forward', 1, 2)():
                        if not np.all(np.asarray(s) > 0):
                            bad.append(dict(generator=type(gen).__name__, x=xv, step=np.asarray(s).tolist())); break
                for klass in ('Derivative', 'Gradient', 'Jacobian', 'Hessdiag', 'Hessian'):
                    for method in ('forward', 'backward'):
                        calls = []

                        def f(z):
                            calls.append(np.array(z, dtype=float))
                            z = np.asarray(z)
                            if klass == 'Derivative':
                                return z ** 3
                            if klass == 'Jacobian':
                                return z ** 2
                            return z[0] * z[0] + z[1] * z[0] + z[1] ** 3
                        kw = dict(method=method)
                        if gen is not None:
                            kw['step'] = gen
                        try:
                            getattr(nd, klass)(f, **kw)(x)
                        except Exception as e:
                            bad.append(dict(cls=klass, method=method, x=xv, raised=repr(e)[:100])); continue
                        sgn = 1 if method == 'forward' else -1
                        off = [z for z in calls if np.any(sgn * (z - x) < 0)]
                        if off:
                            bad.append(dict(cls=klass, method=method, x=xv, step=type(gen).__name__ if gen is not None else None,
                                            evaluated_at=off[0].tolist(), rule='%s must stay %s x in every coordinate' % (method, 'at or above' if sgn > 0 else 'at or below')))
    return dict(reproduced=bool(bad), failing=bad[:4])
