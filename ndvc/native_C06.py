"""native replays for C06 (run under /venv/bin/python against the real code)"""
import math
import numpy as np
from ndvc.native import reg, _poly, _coefs, TOL


# ------------------------------------------------------------------------------------------ C06
HISTORY = []
KEEP_CACHE = [False]     # case['keep_cache']: the process-wide rule cache keeps what earlier ratios of the same case left in it


def _c06_run(method, n, order, r, x, h, D, extra_rows=2):
    import numdifftools.finite_difference as fd
    from numdifftools.extrapolation import Richardson
    if not KEEP_CACHE[0]:
        fd.FD_RULES.clear()
    if HISTORY:
        # the same object used earlier with other orders, then re-configured (as the check does)
        rule = fd.LogRule(n=n, method=method, order=HISTORY[0])
        for o in HISTORY:
            rule.order = o
            rule.rule(r)
        rule.order = order
    else:
        rule = fd.LogRule(n=n, method=method, order=order)
    w = rule.rule(r)
    T = len(w)
    K = T + extra_rows
    b = _coefs(D)
    f = _poly(b, x)
    steps = [h * r ** (-k) for k in range(K)]
    fx = f(x)
    fdel = [rule.diff(f, fx, x, hk) for hk in steps]
    der, hh, shape = rule.apply(fdel, steps, r)
    scale = max(1.0, abs(b[n]), float(np.max(np.abs(w)) * np.max(np.abs(fdel)) / min(abs(s_) for s_ in steps) ** n) * 1e-10)
    return rule, np.asarray(der).ravel(), b, scale, np.asarray(hh).ravel()


@reg('C06.exact')
def c06_exact(case):
    KEEP_CACHE[0] = bool(case.get('keep_cache'))
    res = _c06_exact_one(case)
    if not res['reproduced'] and case.get('history'):
        HISTORY[:] = case['history']
        try:
            res2 = _c06_exact_one(case)
        finally:
            HISTORY[:] = []
        if res2['reproduced']:
            res2['history'] = 'same LogRule object used before with orders %s, then .order = %d' % (case['history'], case['order'])
            return res2
    if res['reproduced'] or not case.get('scan'):
        return res
    # the solver's model need not be the configuration where the defect is visible: scan the property's grid
    for n in range(1, 11):
        for order in range(1, 11):
            c = dict(case, n=n, order=order)
            r2 = _c06_exact_one(c)
            if r2['reproduced']:
                r2['scanned_to'] = dict(n=n, order=order)
                return r2
    return res


def _c06_exact_one(case):
    import numdifftools.finite_difference as fd
    out = []
    rep = False
    try:
        return _c06_exact_body(case)
    except Exception as e:      # a valid configuration must not raise
        return dict(reproduced=True, statement='valid configuration raised', raised=repr(e), n=case['n'], order=case['order'])


def _c06_exact_body(case):
    import numdifftools.finite_difference as fd
    out = []
    rep = False
    for r in case['step_ratios']:
        rule = fd.LogRule(n=case['n'], method=case['method'], order=case['order'])
        D = case['n'] + rule.method_order - 1
        rule, der, b, scale, _ = _c06_run(case['method'], case['n'], case['order'], r, case['x'], case['h'], D)
        err = float(np.max(np.abs(der - b[case['n']])))
        bad = not (err <= TOL * scale)
        rep = rep or bad
        out.append(dict(step_ratio=r, degree=D, expected=b[case['n']], got=der.tolist(), err=err, tol=TOL * scale))
        # a geometric sequence of NEGATIVE steps is as good as a positive one (the quotient is divided by h**n, sign included)
        rule, der, b, scale, _ = _c06_run(case['method'], case['n'], case['order'], r, case['x'], -case['h'], D)
        err = float(np.max(np.abs(der - b[case['n']])))
        if not (err <= TOL * scale):
            rep = True
            out.append(dict(step_ratio=r, degree=D, negative_steps=True, first_step=-case['h'], expected=b[case['n']], got=der.tolist(), err=err, tol=TOL * scale))
    # the same with a complex-valued polynomial (complex coefficients, real steps; real-step methods only)
    if case['method'] in ('central', 'forward', 'backward'):
        for r in case['step_ratios'][:1]:
            rule = fd.LogRule(n=case['n'], method=case['method'], order=case['order'])
            D = case['n'] + rule.method_order - 1
            w = rule.rule(r)
            K = len(w) + 2
            b = [complex(v, (-1) ** k * 0.5 * (v + 0.3)) for k, v in enumerate(_coefs(D))]
            f = _poly(b, case['x'])
            steps = [case['h'] * r ** (-k) for k in range(K)]
            fdel = [rule.diff(f, f(case['x']), case['x'], hk) for hk in steps]
            der = np.asarray(rule.apply(fdel, steps, r)[0]).ravel()
            scale = max(1.0, abs(b[case['n']]), float(np.max(np.abs(w)) * np.max(np.abs(fdel)) / min(steps) ** case['n']) * 1e-10)
            err = float(np.max(np.abs(der - b[case['n']])))
            if not err <= TOL * scale:
                rep = True
                out.append(dict(step_ratio=r, degree=D, complex_valued=True, expected=str(b[case['n']]), got=[str(v) for v in der.tolist()], err=err, tol=TOL * scale))
    return dict(reproduced=rep, statement='rule applied to the difference quotient of a polynomial of degree '
                '< n + method_order must return its n-th derivative', runs=out)


@reg('C06.requested-order')
def c06_req(case):
    out = []
    rep = False
    for r in case['step_ratios']:
        D = case['n'] + case['order'] - 1
        rule, der, b, scale, _ = _c06_run(case['method'], case['n'], case['order'], r, case['x'], case['h'], D)
        err = float(np.max(np.abs(der - b[case['n']])))
        bad = not (err <= TOL * scale)
        rep = rep or bad
        out.append(dict(step_ratio=r, degree=D, method_order=rule.method_order, expected=b[case['n']],
                        got=der.tolist(), err=err, tol=TOL * scale))
    return dict(reproduced=rep, statement='rule must be exact for polynomials of degree < n + requested order', runs=out)


@reg('C06.residual')
def c06_residual(case):
    import numdifftools.finite_difference as fd
    from numdifftools.extrapolation import Richardson
    out = []
    rep = False
    for r in case['step_ratios']:
        rule = fd.LogRule(n=case['n'], method=case['method'], order=case['order'])
        mo, rs = rule.method_order, rule.richardson_step
        D = case['n'] + mo + 4 * rs
        rule, der, b, scale, hh = _c06_run(case['method'], case['n'], case['order'], r, case['x'], 0.25, D, extra_rows=7)
        rich = Richardson(step_ratio=r, step=rs, order=mo, num_terms=5)
        new, err_, st = rich(der.reshape(-1, 1), hh.reshape(-1, 1))
        err = float(np.max(np.abs(np.asarray(new).ravel() - b[case['n']])))
        bad = not (err <= 1e-5 * scale * 10)
        rep = rep or bad
        out.append(dict(step_ratio=r, degree=D, expected=b[case['n']], got=np.asarray(new).ravel().tolist(), err=err))
    return dict(reproduced=rep, statement='residual error of the rule contains only the powers the paired '
                'Richardson(order=method_order, step=richardson_step) removes', runs=out)


@reg('C06.pairing')
def c06_pairing(case):
    import numdifftools.core as core
    import numdifftools.finite_difference as fd
    d = core.Derivative(lambda x: x, method=case['method'], n=case['n'], order=case['order'])
    rule = fd.LogRule(n=case['n'], method=case['method'], order=case['order'])
    d.set_richardson_rule(1.7, 3)
    got = (d.richardson.order, d.richardson.step)
    want = (rule.method_order, rule.richardson_step)
    return dict(reproduced=got != want, expected=want, got=got)




@reg('C06.cache0')
def cache0(case):
    """fresh interpreter: every rule served from the cache content present at import must satisfy the moment identities"""
    from fractions import Fraction as Fr
    import numdifftools.finite_difference as fd
    bad = []
    for key, val in list(fd.FD_RULES.items()):
        M = np.asarray(fd.LogRule._fd_matrix(*key), dtype=float)
        E = np.asarray(val, dtype=float)
        want = fd.linalg.pinv(M)
        T = E.shape[0]
        worst = max(abs(float(sum(Fr(float(E[i, k])) * Fr(float(M[k, j])) for k in range(T)) - (1 if i == j else 0)))
                    for i in range(T) for j in range(T))
        worst_c = max(abs(float(sum(Fr(float(want[i, k])) * Fr(float(M[k, j])) for k in range(T)) - (1 if i == j else 0)))
                      for i in range(T) for j in range(T))
        if worst > 1e-11 + 100 * worst_c:
            bad.append(dict(key=repr(key), max_abs_of_E_M_minus_I=worst, same_for_computed_inverse=worst_c))
    return dict(reproduced=bool(bad), failing=bad[:4], entries_at_import=len(fd.FD_RULES),
                statement='rules served from FD_RULES as populated at import invert their moment matrix')


@reg('C06.intq')
def intq(case):
    import numdifftools.finite_difference as fd
    bad = []
    for method, n, order in [('forward', 1, 2), ('forward', 1, 3), ('central', 1, 4), ('backward', 2, 2), ('central', 3, 2)]:
        rule = fd.LogRule(n=n, method=method, order=order)
        T = len(rule.rule(2.0)); K = T + 3
        q = np.array([[((7 * k * k + 3 * k) % 13) - 6] for k in range(K)])
        h = np.array([[2.0 ** -k] for k in range(K)])
        b = rule._apply(q.astype(float), h, 2.0)[0]
        for name, qa in (('int64', q.astype(np.int64)), ('float32', q.astype(np.float32))):
            a = rule._apply(qa, h, 2.0)[0]
            if not np.allclose(np.asarray(a, dtype=float), b, rtol=1e-6, atol=1e-6 * float(np.max(np.abs(b)))):
                bad.append(dict(method=method, n=n, order=order, dtype=name, got=np.asarray(a).ravel()[:3].tolist(), expected=b.ravel()[:3].tolist()))
    return dict(reproduced=bool(bad), failing=bad[:3], statement='LogRule._apply on integer / float32 quotients == on float64 quotients')
