"""native replays for C07 (run under /venv/bin/python against the real code)"""
import numpy as np
from ndvc.native import reg


def _ratios(kind):
    if kind == 'complex':
        return [4.0 * np.exp(1j * np.pi / 8), 2.0 * np.exp(0.7j), 1.6 * np.exp(-0.3j)]
    return [2.0, 1.6, 4.0, 1.1, 1.05, 10.0]


@reg('C07.limit')
def limit(case):
    res = _limit(case)
    if res['reproduced'] or not case.get('scan', True):
        return res
    for nt in (2, 3, 4, 5):
        for step in (1, 2):
            for order in (1, 2):
                for K in (nt + 1, nt + 3):
                    r2 = _limit(dict(case, num_terms=nt, step=step, order=order, length=K))
                    if r2['reproduced']:
                        r2['scanned_to'] = dict(num_terms=nt, step=step, order=order, length=K)
                        return r2
    return res


def _limit(case):
    from numdifftools.extrapolation import Richardson
    bad = []
    step, order, nt, K = case['step'], case['order'], case['num_terms'], case['length']
    for r in _ratios(case['ratio_kind']):
        for ncol in (1, 2):
            rich = Richardson(step_ratio=r, step=step, order=order, num_terms=nt)
            T = min(nt, K - 1)
            L = np.array([1.25, -0.5][:ncol]) + (0.3j if case['ratio_kind'] == 'complex' else 0)
            a = [np.array([0.7 - 0.2 * j, -0.4 + 0.1 * j][:ncol]) for j in range(T)]
            h = 0.5 * (1.0 / r) ** np.arange(K)
            seq = np.array([L + sum(a[j] * h[k] ** (order + step * j) for j in range(T)) for k in range(K)])
            steps = np.tile(h[:, None], (1, ncol))
            try:
                new, err, st = rich(seq, steps)
            except Exception as e:
                bad.append(dict(ratio=str(r), ncol=ncol, raised=repr(e)))
                continue
            w = rich.rule(K)
            cond = float(np.sum(np.abs(w)))
            probs = []
            if new.shape != (K - T, ncol) or err.shape != (K - T, ncol) or st.shape != (K - T, ncol):
                probs.append('shapes new=%s err=%s steps=%s expected %s' % (new.shape, err.shape, st.shape, (K - T, ncol)))
            else:
                if not np.all(np.abs(new - L) <= 1e-9 * cond * (1 + np.max(np.abs(seq)))):
                    probs.append('limit not recovered: max err %.3g (tol %.3g)' % (np.max(np.abs(new - L)), 1e-9 * cond))
                if np.iscomplexobj(err) and np.any(err.imag != 0) or not np.all(np.real(err) >= 0):
                    probs.append('error estimate not real and non-negative: %s' % err.ravel()[:3])
            if abs(np.sum(w) - 1) > 1e-7 * cond:
                probs.append('weights do not sum to one: %r' % np.sum(w))
            if probs:
                bad.append(dict(ratio=str(r), ncol=ncol, problems=probs))
    return dict(reproduced=bool(bad), failing=bad[:4])


@reg('C07.errest')
def errest(case):
    from numdifftools.extrapolation import Richardson
    bad = []
    for r in ([2.0] if case.get('stepkind') == 'real' else [4.0 * np.exp(1j * np.pi / 8)]):
        for K in (1, 2, 3, 4, 6):
            for nt in (0, 1, 2):
                for sign in (1, -1):
                    rich = Richardson(step_ratio=r, step=1, order=1, num_terms=nt)
                    h = sign * 0.5 * (1.0 / r) ** np.arange(K)
                    seq = (1.0 + 0.3 * h + 0.2 * h * h)[:, None]
                    if case.get('datakind') == 'complex':
                        seq = seq * (1 + 0.5j)
                    try:
                        new, err, st = rich(seq, h[:, None])
                    except Exception as e:
                        bad.append(dict(K=K, nt=nt, sign=sign, raised=repr(e)))
                        continue
                    if np.iscomplexobj(err) and np.any(np.imag(err) != 0) or not np.all(np.real(err) >= 0) or err.shape != new.shape:
                        bad.append(dict(K=K, num_terms=nt, steps=str(h[:2]), abserr=str(err.ravel()[:3]), shapes=(new.shape, err.shape)))
    return dict(reproduced=bool(bad), statement='error estimates must be real, non-negative, one per output', failing=bad[:4])


@reg('C07.columns')
def columns(case):
    from numdifftools.extrapolation import Richardson
    rng = np.random.default_rng(1)
    bad = []
    for K, nt in [(4, 2), (6, 2), (3, 1), (2, 2), (1, 2), (8, 3)]:
        rich = Richardson(step_ratio=2.0, step=1, order=1, num_terms=nt)
        seq = rng.normal(size=(K, 3)) * np.array([1.0, 1e6, 1e-6])
        st = np.abs(rng.normal(size=(K, 3)))
        n3, e3, s3 = rich(seq, st)
        for c in range(3):
            n1, e1, s1 = rich(seq[:, c:c + 1], st[:, c:c + 1])
            if not (np.array_equal(n1[:, 0], n3[:, c]) and np.array_equal(e1[:, 0], e3[:, c]) and np.array_equal(s1[:, 0], s3[:, c])):
                bad.append(dict(K=K, nt=nt, column=c))
        # converging columns of very different magnitude: a tolerance taken over the whole table instead of per column shows here
        h = 0.5 ** np.arange(K)
        seq = np.stack([1.0 + 1e-5 * h + 3e-6 * h ** 2, 1e12 * (1.0 + 0.3 * h), -2.0 + 1e-3 * h], axis=1)
        st = np.stack([h, h, h], axis=1)
        n3, e3, s3 = rich(seq, st)
        for c in range(3):
            n1, e1, s1 = rich(seq[:, c:c + 1], st[:, c:c + 1])
            if not (np.array_equal(n1[:, 0], n3[:, c]) and np.array_equal(e1[:, 0], e3[:, c])):
                bad.append(dict(K=K, nt=nt, column=c, magnitudes=[1.0, 1e12, 2.0], error_estimate_alone=e1[:, 0].tolist(), error_estimate_jointly=e3[:, c].tolist()))
        # complex table whose first column is real-valued: every column keeps its imaginary part
        zseq = seq.astype(complex)
        zseq[:, 1] = zseq[:, 1] * (1 + 0.5j); zseq[:, 2] = zseq[:, 2] * (0.25 - 2j)
        nz = rich(zseq, st)[0]
        for c in range(3):
            n1 = rich(zseq[:, c:c + 1], st[:, c:c + 1])[0]
            if not np.array_equal(n1[:, 0], nz[:, c]):
                bad.append(dict(K=K, nt=nt, column=c, table='complex, first column real-valued', alone=str(n1[:, 0][:2]), jointly=str(nz[:, c][:2])))
    return dict(reproduced=bool(bad), failing=bad[:4])


@reg('C07.reconf')
def reconf(case):
    """one Richardson object, reconfigured between uses: each use must remove the modelled terms of the CURRENT configuration"""
    import numdifftools.extrapolation as ex
    cfgs = [(2.0, 1, 1, 2), (4.0, 1, 1, 2), (4.0, 2, 2, 2), (2.0, 2, 2, 3), (2.0, 1, 3, 3), (1.6, 1, 3, 1), (2.0, 1, 1, 2)]
    r = ex.Richardson(step_ratio=cfgs[0][0], step=cfgs[0][1], order=cfgs[0][2], num_terms=cfgs[0][3])
    bad = []
    for (ratio, step, order, nt) in cfgs:
        r.step_ratio, r.step, r.order, r.num_terms = ratio, step, order, nt
        K = nt + 3
        h = 0.5 * (1.0 / ratio) ** np.arange(K)
        L = 1.25
        a = [0.7, -1.3, 0.4, 2.0][:nt]
        seq = (L + sum(a[j] * h ** (order + step * j) for j in range(nt))).reshape(-1, 1)
        # a short sequence first (handled with fewer terms), then the full one on the same object
        short = r(seq[:2], h[:2].reshape(-1, 1))[0]
        if short.shape[0] != 1 or r.num_terms != nt:
            bad.append(dict(config=dict(step_ratio=ratio, step=step, order=order, num_terms=nt), after_a_2_row_call=dict(num_terms=r.num_terms, outputs=int(short.shape[0]))))
        new, err, st = r(seq, h.reshape(-1, 1))
        if new.shape[0] != K - nt:
            bad.append(dict(config=dict(step_ratio=ratio, step=step, order=order, num_terms=nt), rows=K, outputs=int(new.shape[0]), expected_outputs=K - nt,
                            history='a 2-row sequence was extrapolated with the same object before'))
        fresh = ex.Richardson(step_ratio=ratio, step=step, order=order, num_terms=nt)(seq, h.reshape(-1, 1))[0]
        if new.shape != fresh.shape:
            continue
        dev = float(np.max(np.abs(new - L)))
        devf = float(np.max(np.abs(fresh - L)))
        if dev > 1e-9 + 100 * devf:
            bad.append(dict(config=dict(step_ratio=ratio, step=step, order=order, num_terms=nt), max_dev_from_L=dev,
                            fresh_object_dev=devf))
    return dict(reproduced=bool(bad), failing=bad[:3], statement='a reconfigured Richardson object removes the modelled terms of its current configuration')


@reg('C07.intcfg')
def intcfg(case):
    import numdifftools.extrapolation as ex
    bad = []
    for (ratio, step, order, nt) in [(2, 1, 1, 2), (3, 2, 2, 3), (4, 1, 2, 1), (2, 2, 1, 4), (np.int64(2), np.int64(1), np.int64(1), 2)]:
        a = ex.Richardson._r_matrix(ratio, step, nt, order)
        b = ex.Richardson._r_matrix(float(ratio), float(step), nt, float(order))
        if not np.array_equal(np.asarray(a, dtype=float), b):
            bad.append(dict(step_ratio=repr(ratio), step=repr(step), order=repr(order), num_terms=nt, matrix=np.asarray(a).tolist(),
                            expected=b.tolist()))
    return dict(reproduced=bool(bad), failing=bad[:2], statement='_r_matrix with integer-typed configuration == float configuration')
