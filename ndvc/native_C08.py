"""native replays for C08 (run under /venv/bin/python against the real code)"""
import warnings
import numpy as np
from ndvc.native import reg


@reg('C08.elementwise')
def elementwise(case):
    import numdifftools as nd
    rng = np.random.default_rng(11)
    bad = []
    funs = [('x**3', lambda x: x * x * x), ('1/x', lambda x: 1.0 / x), ('x*sqrt(x)', lambda x: x * np.sqrt(x)), ('tan', np.tan),
            ('x**2-3x', lambda x: x * x - 3 * x)]
    pts = {'x**3': [0.3, -1.7, 2.0, 11.0], '1/x': [0.05, 0.5, 5.0, 50.0], 'x*sqrt(x)': [0.3, 0.05, 0.7, 0.9],
           'tan': [0.1, 0.7, 1.5, 1.55], 'x**2-3x': [1e-3, 1.0, 30.0, -4.0]}
    with warnings.catch_warnings():
        warnings.simplefilter('ignore')
        for method in sorted({case.get('method', 'central'), 'central', 'forward', 'backward'}):
            n = case.get('n', 1) if method == case.get('method') else 1
            for name, f in funs:
                base = np.array(pts[name])
                d = nd.Derivative(f, method=method, n=n, order=case.get('order', 2) if method == case.get('method') else 2, full_output=True)
                scal = [d(v) for v in base]
                for arr in [base, base[::-1].copy(), base.reshape(2, 2), base.reshape(2, 2).T, np.asfortranarray(base.reshape(2, 2))]:
                    val, info = d(arr)
                    if np.shape(val) != arr.shape:
                        bad.append(dict(fun=name, method=method, problem='shape', got=np.shape(val), expected=arr.shape)); continue
                    for idx in np.ndindex(arr.shape):
                        k = int(np.flatnonzero(base == arr[idx])[0])
                        sv, si = scal[k]
                        same = (val[idx] == sv or (np.isnan(val[idx]) and np.isnan(sv))) and \
                            (info.error_estimate[idx] == si.error_estimate or (np.isnan(info.error_estimate[idx]) and np.isnan(si.error_estimate))) and \
                            info.final_step[idx] == si.final_step
                        if not same:
                            bad.append(dict(fun=name, method=method, x=float(arr[idx]), array=arr.tolist(), got=float(val[idx]), scalar=float(sv),
                                            err=(float(info.error_estimate[idx]), float(si.error_estimate))))
                            break
        # estimates that are partly NaN (steps leaving the domain): the NaN branch of the outlier penalty
        for name, f in [('x*sqrt(x)', lambda x: x * np.sqrt(x)), ('sqrt(x)', np.sqrt)]:
            for method, order in [('central', 2), ('central', 4), ('backward', 2), ('backward', 4)]:
                d = nd.Derivative(f, method=method, order=order)
                for x0 in (0.1, 0.3, 0.5, 0.7, 0.9):
                    sc = float(d(x0))
                    for nb in (0.2, 0.4, 0.6, 0.8, 0.95):
                        arr = np.array([x0, nb, nb * 1.01, nb * 1.03, nb * 1.04])
                        v = d(arr)
                        if not (float(v[0]) == sc or (np.isnan(v[0]) and np.isnan(sc))):
                            bad.append(dict(fun=name, method=method, order=order, x=x0, neighbours=arr[1:].tolist(), got=float(v[0]), scalar=sc))
                            break
        # few candidate estimates (short user step sequences, coarse steps next to a pole / narrow peak): the choice among them
        # must not depend on how many elements are evaluated together
        for name, f in [('1/(1+16x^2)', lambda x: 1.0 / (1.0 + 16.0 * x * x)), ('1/x^2', lambda x: 1.0 / (x * x))]:
            for ns in (3, 4, 5, 6, 8):
                for method in ('central', 'forward'):
                    d = nd.Derivative(f, step=0.25, num_steps=ns, method=method, full_output=True)
                    for x0 in (0.375, 0.3125, -1.5):
                        sv, si = d(x0)
                        for arr in (np.array([x0, 1.3]), np.array([[2.0, x0], [0.9, 1.7]])):
                            av, ai = d(arr)
                            idx = tuple(np.argwhere(arr == x0)[0])
                            eq = lambda a, b: a == b or (np.isnan(a) and np.isnan(b))
                            if not (eq(av[idx], sv) and eq(ai.error_estimate[idx], si.error_estimate) and eq(ai.final_step[idx], si.final_step)):
                                bad.append(dict(fun=name, method=method, num_steps=ns, x=x0, array=arr.tolist(), in_array=float(av[idx]), alone=float(sv),
                                                err=(float(ai.error_estimate[idx]), float(si.error_estimate))))
                                break
        # extra arguments
        seen = []
        g = lambda x, a, b=0: (seen.append((a, b)), a * x * x + b)[1]
        nd.Derivative(g)(np.array([1.0, 2.0]), 3.0, b=4.0)
        if not seen or any(s != (3.0, 4.0) for s in seen):
            bad.append(dict(problem='args/kwds not forwarded', seen=seen[:3]))
        # one object, several calls: each call's own extra arguments reach f (also when only a keyword VALUE changes)
        for klass in ('Derivative', 'Gradient', 'Hessdiag'):
            gg = (lambda x, a, b=0: (seen.append((a, b)), a * x * x + b)[1]) if klass == 'Derivative' else \
                (lambda x, a, b=0: (seen.append((a, b)), np.sum(a * x * x) + b * x[0])[1])
            obj = getattr(nd, klass)(gg)
            xx = np.array([1.0, 2.0])
            for (a_, b_) in [(3.0, 2.0), (3.0, 5.0), (4.0, 5.0), (3.0, 2.0)]:
                del seen[:]
                got = obj(xx, a_, b=b_)
                want = 2 * a_ * xx + (b_ * np.array([1.0, 0.0]) if klass == 'Gradient' else 0.0) if klass != 'Hessdiag' else 2 * a_ * np.ones(2)
                if not seen or any(s_ != (a_, b_) for s_ in seen):
                    bad.append(dict(cls=klass, problem='a later call on the same object received stale extra arguments', call='obj(x, %r, b=%r)' % (a_, b_), f_received=seen[:1]))
                    break
                if not np.allclose(got, want, rtol=1e-8, atol=1e-8):
                    bad.append(dict(cls=klass, call='obj(x, %r, b=%r)' % (a_, b_), got=np.asarray(got).tolist(), expected=np.asarray(want).tolist()))
                    break
        for n0 in (0,):
            del seen[:]
            got = nd.Derivative(g, n=n0)(np.array([1.0, 2.0]), 3.0, b=4.0)
            if not seen or any(s != (3.0, 4.0) for s in seen) or not np.array_equal(got, 3.0 * np.array([1.0, 4.0]) + 4.0):
                bad.append(dict(problem='n=0: args/kwds not forwarded', call='Derivative(g, n=0)(x, 3.0, b=4.0)', seen=seen[:3], got=np.asarray(got).tolist(),
                                expected=(3.0 * np.array([1.0, 4.0]) + 4.0).tolist()))
    return dict(reproduced=bool(bad), failing=bad[:4], statement='each element of the result is bit-identical to the scalar evaluation of that element')


@reg('C08.cconc')
def cconc(case):
    import numdifftools as nd
    from ndvc.concrete import concrete_complex_step_cases
    cnt, bad = concrete_complex_step_cases(nd)
    return dict(reproduced=bool(bad), failing=bad[:3], cases=cnt,
                statement='complex-step methods: an element evaluated inside an array agrees with the same element evaluated alone within the error estimates')


@reg('C08.econc')
def econc(case):
    import numdifftools as nd
    from ndvc.concrete import elementwise_default_step_cases
    cnt, bad = elementwise_default_step_cases(nd)
    return dict(reproduced=bool(bad), failing=bad[:3], cases=cnt, statement='element in an array == the same element alone (value, error estimate, final step), default steps')
