"""native replays for C09: history scenarios compared bit for bit with a fresh object (real code, floats)"""
import itertools
import warnings
import numpy as np
from ndvc.native import reg


@reg('C09.history')
def history(case):
    import numdifftools as nd
    import numdifftools.finite_difference as fd
    bad = []
    cfgs = [(case.get('method', 'central'), case.get('n', 1), case.get('order', 2)), ('central', 1, 2), ('forward', 2, 2), ('complex', 1, 2),
            ('central', 2, 4), ('complex', 3, 4)]
    funs = [np.exp, np.sin]
    x, y = 0.5, 1.3

    def res(d, pt):
        v, i = d(pt)
        return (float(v), float(i.error_estimate), float(i.final_step))
    with warnings.catch_warnings():
        warnings.simplefilter('ignore')
        for (method, n, order), f in itertools.product(cfgs, funs):
            om = 'forward' if method != 'forward' else 'central'
            on = 2 if n == 1 else 1
            oo = 4 if order != 4 else 2
            for gk in ('default', 'Min', 'Max'):
                def gen():
                    return None if gk == 'default' else (nd.MinStepGenerator() if gk == 'Min' else nd.MaxStepGenerator())

                def fresh(m=method, n_=n, o=order, g=None):
                    return nd.Derivative(f, step=g if g is not None else gen(), method=m, n=n_, order=o, full_output=True)
                fd.FD_RULES.clear()
                ref = res(fresh(), x)
                scen = {}
                d = fresh(); d(y); scen['same object, other points first'] = res(d, x)
                d = fresh(); d.order = oo; d(y); d.order = order; scen['order changed and restored'] = res(d, x)
                d = fresh(); d.method = om; d(y); d.method = method; scen['method changed and restored'] = res(d, x)
                d = fresh(); d.n = on; d(y); d.n = n; scen['n changed and restored'] = res(d, x)
                d = fresh(); d.n = 0; d(y); d.n = n; scen['n set to 0 (f itself) and back'] = res(d, x)
                # with step=None the constructor picks the generator class from the method it is given (Max for real-step, Min for
                # complex-step methods); the property speaks of changing and restoring a REAL-STEP method, so an object built for a
                # real-step method and switched to a complex-step one is compared only when the generator is given explicitly
                if not (gk == 'default' and method in ('complex', 'multicomplex')):
                    d = fresh(om, on, oo); d(y); d.method = method; d.order = order; d.n = n; scen['re-configured from another configuration'] = res(d, x)
                    d = fresh(om, on, oo); d.n = n; d.order = order; d.method = method; scen['re-configured before the first call'] = res(d, x)
                    d = fresh(om, n, order); d(y); d(x); d.method = method; scen['only the method switched (n and order kept) after calls'] = res(d, x)
                if gk != 'default':
                    g = gen(); d1 = fresh(om, on, oo, g); d2 = fresh(g=g); d1(y); scen['generator shared with another object'] = res(d2, x)
                    g = gen(); d2 = fresh(g=g); nd.Derivative(f, step=g, method=om, n=on, order=oo, num_steps=1, offset=2)
                    scen['generator shared, the other object built with step options'] = res(d2, x)
                fd.FD_RULES.clear(); scen['cold cache'] = res(fresh(), x)
                for k, v in scen.items():
                    if v != ref:
                        bad.append(dict(scenario=k, generator=gk, method=method, n=n, order=order, fun=f.__name__, got=v, fresh=ref))
    return dict(reproduced=bool(bad), failing=bad[:4], statement='result after any history == result of a freshly constructed object')


@reg('C09.cache0')
def cache0(case):
    """fresh interpreter: a rule served from the cache as populated at import == the rule computed after clearing it"""
    import numdifftools.finite_difference as fd
    bad = []
    init = {k: np.array(v) for k, v in fd.FD_RULES.items()}
    for key, val in init.items():
        want = fd.linalg.pinv(fd.LogRule._fd_matrix(*key))
        if not np.array_equal(val, want):
            bad.append(dict(key=repr(key), max_abs_difference=float(np.max(np.abs(val - want)))))
    return dict(reproduced=bool(bad), failing=bad[:4], entries_at_import=len(init),
                statement='cache content at import == what rule() computes with an empty cache (bit-for-bit)')


@reg('C09.shared')
def shared(case):
    """behaviour that only hidden shared state can break: nested / interleaved use of separate objects"""
    import numdifftools as nd
    import numdifftools.extrapolation as ex
    import numdifftools.fornberg as fb
    bad = []
    with warnings.catch_warnings():
        warnings.simplefilter('ignore')
        # (1) the documented idiom Jacobian(Gradient(f)): inner and outer pass of the same dimension are in flight together
        Q = np.array([[2.0, -1.0, 0.5], [-1.0, 3.0, 0.25], [0.5, 0.25, 1.5]])
        f = lambda x: 0.5 * np.dot(x, np.dot(Q, x))
        for mo, mi in (('central', 'central'), ('forward', 'central'), ('central', 'complex')):
            H = nd.Jacobian(nd.Gradient(f, method=mi), method=mo)(np.array([0.3, -0.7, 1.1]))
            if not np.allclose(H, Q, rtol=1e-6, atol=1e-6):
                bad.append(dict(what='Jacobian(Gradient(f)) of a quadratic form', outer=mo, inner=mi, got=np.asarray(H).round(6).tolist(), expected=Q.tolist()))
        # (2) f raising in the middle of a pass must not poison later calls of other objects
        g0 = nd.Gradient(f)(np.array([0.3, -0.7, 1.1]))
        cnt = [0]

        def boom(x):
            cnt[0] += 1
            if cnt[0] == 3:
                raise RuntimeError('user function failed')
            return f(x)
        try:
            nd.Gradient(boom)(np.array([0.3, -0.7, 1.1]))
        except RuntimeError:
            pass
        g1 = nd.Gradient(f)(np.array([0.3, -0.7, 1.1]))
        if not np.array_equal(g0, g1):
            bad.append(dict(what='Gradient after another Gradient was interrupted by an exception in f', before=g0.tolist(), after=g1.tolist()))
        # (3) two default-constructed extrapolators are independent
        seq = [1 + 0.5 ** k for k in range(5)]
        first = [ex.EpsAlg()(v) for v in [3.0, 2.0, 1.5]]       # a used-and-dropped instance
        e2 = ex.EpsAlg(); out = [e2(v) for v in seq]
        if not abs(out[2] - 1.0) <= 1e-12:
            bad.append(dict(what='a fresh EpsAlg() continues the table of an earlier instance', third_value=float(out[2]), expected=1.0))
        # (4) weight tables held by the caller are not overwritten by later calls
        W1 = fb.fd_weights_all(np.array([0.0, 1.0, 3.0]), 0.5, 1); keep = np.array(W1, copy=True)
        fb.fd_weights_all(np.array([-2.0, 0.5, 4.0]), 0.0, 1)
        if not np.array_equal(W1, keep):
            bad.append(dict(what='fd_weights_all result changed by a later call', before=keep.tolist(), after=np.asarray(W1).tolist()))
        # (4b) weights depend on the arguments of THIS call only: stencils that differ by less than any fixed absolute resolution
        #      (fine grids, tight clusters), asked for one after the other
        from ndvc.concrete import lagrange_weights_exact
        base = np.array([-2.0, -1.0, 0.0, 1.0, 2.0])
        for xs_list, x0 in (([1e-11 * base, 4e-12 * base, 2.5e-11 * base], 0.0), ([np.array([0.0, 1e-11, 1.0, 2.0]), np.array([0.0, 3e-11, 1.0, 2.0])], 0.5),
                            ([1000.0 + 1e-3 * base, 1000.0 + 2e-3 * base], 1000.0)):
            for n_ in (1, 2):
                for xs in xs_list:
                    w = np.asarray(fb.fd_weights(xs, x0, n_), dtype=float)
                    ref = np.array([float(v) for v in lagrange_weights_exact(xs, x0, n_)[n_]])
                    if w.shape != ref.shape or not np.allclose(w, ref, rtol=1e-6, atol=1e-6 * np.max(np.abs(ref))):
                        bad.append(dict(what='fd_weights on a sequence of nearby stencils', stencil=xs.tolist(), x0=x0, n=n_, got=w.tolist(), exact=ref.tolist()))
                        break
        # (5) a step generator shared by two objects is not modified by constructing (or configuring) the second one
        gen = nd.MinStepGenerator(num_steps=10)
        d1 = nd.Derivative(np.exp, step=gen, full_output=True)
        r0 = d1(1.0)
        nd.Derivative(np.sin, step=gen, method='forward', num_steps=1)
        r1 = d1(1.0)
        if not (r0[0] == r1[0] and r0[1].error_estimate == r1[1].error_estimate and r0[1].final_step == r1[1].final_step):
            bad.append(dict(what='constructing a second object on a shared generator changed the first object', before=(float(r0[0]), float(r0[1].error_estimate)),
                            after=(float(r1[0]), float(r1[1].error_estimate))))
    return dict(reproduced=bool(bad), failing=bad[:4], statement='separate objects (and later calls) do not influence each other')
