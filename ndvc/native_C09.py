"""native replays for C09: history scenarios compared bit for bit with a fresh object (real code, floats)"""
import itertools
import warnings
import numpy as np
from ndvc.native import reg


@reg('C09.history')
def history(case):
    import numdifftools as nd
    import numdifftools.finite_difference as fd
    bad = []
    cfgs = [(case.get('method', 'central'), case.get('n', 1), case.get('order', 2)), ('central', 1, 2), ('forward', 2, 2), ('complex', 1, 2),
            ('central', 2, 4), ('complex', 3, 4)]
    funs = [np.exp, np.sin]
    x, y = 0.5, 1.3

    def res(d, pt):
        v, i = d(pt)
        return (float(v), float(i.error_estimate), float(i.final_step))
    with warnings.catch_warnings():
        warnings.simplefilter('ignore')
        for (method, n, order), f in itertools.product(cfgs, funs):
            om = 'forward' if method != 'forward' else 'central'
            on = 2 if n == 1 else 1
            oo = 4 if order != 4 else 2
            for gk in ('default', 'Min', 'Max'):
                def gen():
                    return None if gk == 'default' else (nd.MinStepGenerator() if gk == 'Min' else nd.MaxStepGenerator())

                def fresh(m=method, n_=n, o=order, g=None):
                    return nd.Derivative(f, step=g if g is not None else gen(), method=m, n=n_, order=o, full_output=True)
                fd.FD_RULES.clear()
                ref = res(fresh(), x)
                scen = {}
                d = fresh(); d(y); scen['same object, other points first'] = res(d, x)
                d = fresh(); d.order = oo; d(y); d.order = order; scen['order changed and restored'] = res(d, x)
                d = fresh(); d.method = om; d(y); d.method = method; scen['method changed and restored'] = res(d, x)
                d = fresh(); d.n = on; d(y); d.n = n; scen['n changed and restored'] = res(d, x)
                # with step=None the constructor picks the generator class from the method it is given (Max for real-step, Min for
                # complex-step methods); the property speaks of changing and restoring a REAL-STEP method, so an object built for a
                # real-step method and switched to a complex-step one is compared only when the generator is given explicitly
                if not (gk == 'default' and method in ('complex', 'multicomplex')):
                    d = fresh(om, on, oo); d(y); d.method = method; d.order = order; d.n = n; scen['re-configured from another configuration'] = res(d, x)
                    d = fresh(om, on, oo); d.n = n; d.order = order; d.method = method; scen['re-configured before the first call'] = res(d, x)
                if gk != 'default':
                    g = gen(); d1 = fresh(om, on, oo, g); d2 = fresh(g=g); d1(y); scen['generator shared with another object'] = res(d2, x)
                fd.FD_RULES.clear(); scen['cold cache'] = res(fresh(), x)
                for k, v in scen.items():
                    if v != ref:
                        bad.append(dict(scenario=k, generator=gk, method=method, n=n, order=order, fun=f.__name__, got=v, fresh=ref))
    return dict(reproduced=bool(bad), failing=bad[:4], statement='result after any history == result of a freshly constructed object')


@reg('C09.cache0')
def cache0(case):
    """fresh interpreter: a rule served from the cache as populated at import == the rule computed after clearing it"""
    import numdifftools.finite_difference as fd
    bad = []
    init = {k: np.array(v) for k, v in fd.FD_RULES.items()}
    for key, val in init.items():
        want = fd.linalg.pinv(fd.LogRule._fd_matrix(*key))
        if not np.array_equal(val, want):
            bad.append(dict(key=repr(key), max_abs_difference=float(np.max(np.abs(val - want)))))
    return dict(reproduced=bool(bad), failing=bad[:4], entries_at_import=len(init),
                statement='cache content at import == what rule() computes with an empty cache (bit-for-bit)')
