"""native replays for C10 (run under /venv/bin/python against the real code)"""
import itertools
import numpy as np
from ndvc.native import reg

EPS = np.finfo(float).eps


def _div(method, n, order):
    if method in ('central', 'central2', 'multicomplex'):
        return 2
    if method == 'complex':
        return 4 if (n > 1 or order >= 4) else 2
    return 1


def _model(kind, o, x, method, n, order):
    import numdifftools.step_generators as sg
    d = dict(base_step=None, step_ratio=None, num_steps=None, step_nom=None, offset=0, num_extrap=0,
             use_exact_steps=True, check_num_steps=True, scale=None)
    if kind == 'Max':
        d.update(base_step=2.0, num_steps=15, num_extrap=9, use_exact_steps=False, scale=500)
    d.update(o)
    scale = d['scale'] if d['scale'] is not None else sg.default_scale(method, n, order)
    base = d['base_step'] if d['base_step'] is not None else EPS ** (1.0 / scale)
    x = np.asarray(x, dtype=float)
    nom = np.maximum(np.log(1.718281828459045 + np.abs(x)), 1) if d['step_nom'] is None else np.full(x.shape, d['step_nom'])
    ratio = d['step_ratio'] if d['step_ratio'] is not None else (2.0 if n == 1 else 1.6)
    mn = max((n + order - 1) // _div(method, n, order), 1)
    if d['num_steps'] is not None:
        num = max(int(d['num_steps']), mn) if d['check_num_steps'] else int(d['num_steps'])
    else:
        num = mn + int(d['num_extrap'])
    idx = range(num) if kind == 'Max' else range(num - 1, -1, -1)
    sgn = -1 if kind == 'Max' else 1
    bn = base * nom
    if d['use_exact_steps']:
        bn = (bn + 1.0) - 1.0          # make_exact applies to base_step * step_nom (documented) and to the ratio
        ratio = (ratio + 1.0) - 1.0
    return [bn * ratio ** (sgn * i + d['offset']) for i in idx]


@reg('C10.seq')
def seq(case):
    import numdifftools.step_generators as sg
    bad = []
    kinds = ['Min', 'Max']
    for kind in kinds:
        cls = sg.MinStepGenerator if kind == 'Min' else sg.MaxStepGenerator
        for base, ratio, ns, nom, off, ue, cn, ne in itertools.product([None, 0.125], [None, 3.0], [None, 1, 4, 10], [None, 1.5],
                                                                      [0, 2, -1], [True, False], [True, False], [0, 3]):
            o = dict(base_step=base, step_ratio=ratio, num_steps=ns, step_nom=nom, offset=off, use_exact_steps=ue,
                     check_num_steps=cn, num_extrap=ne)
            if kind == 'Max':
                o = {k: v for k, v in o.items() if not (k == 'base_step' and v is None)}
            for method, n, order in [('forward', 1, 2), ('central', 2, 4), ('complex', 3, 4), ('backward', 4, 1)]:
                for x in (0.5, np.array([0.3, 20.0]), -3.0, np.array([-0.3, -20.0, 7.5])):
                    got = list(cls(**o)(x, method, n, order))
                    want = _model(kind, o, x, method, n, order)
                    ok = len(got) == len(want) and all(np.allclose(g, w, rtol=1e-13, atol=0) for g, w in zip(got, want))
                    if not ok:
                        bad.append(dict(cls=kind, options={k: v for k, v in o.items()}, method=method, n=n, order=order,
                                        got=[np.asarray(g).tolist() for g in got[:3]], expected=[np.asarray(w).tolist() for w in want[:3]],
                                        counts=(len(got), len(want))))
                        break
    # zero steps are dropped: an array step with a zero in ANY component is not yielded (it would give 0/0 there)
    for cls, o, x, want_n in ((sg.MinStepGenerator, dict(base_step=np.array([0.0, 0.25]), num_steps=3), np.array([0.5, 0.7]), 0),
                              (sg.MaxStepGenerator, dict(base_step=1e-320, step_ratio=2.0, num_steps=15), np.array([0.0, 1e6]), None)):
        got = [np.asarray(s_) for s_ in cls(**o)(x, 'forward', 1, 2)]
        with_zero = [g.tolist() for g in got if np.any(g == 0)]
        if with_zero or (want_n is not None and len(got) != want_n):
            bad.append(dict(cls=cls.__name__, options={k: (v.tolist() if isinstance(v, np.ndarray) else v) for k, v in o.items()}, x=x.tolist(), yielded=len(got),
                            steps_with_a_zero_component=with_zero[:2]))
    return dict(reproduced=bool(bad), failing=bad[:3], statement='generated steps == base_step*step_nom*step_ratio**(+-i+offset)')


@reg('C10.count')
def count(case):
    import numdifftools.step_generators as sg
    import numdifftools.finite_difference as fd
    bad = []
    for method in ['central', 'forward', 'backward', 'complex', 'multicomplex']:
        for n in range(1, 13):
            for order in range(1, 13):
                if method == 'multicomplex' and n > 2:
                    continue
                rule = fd.LogRule(n=n, method=method, order=order)
                need = rule.rule(2.0).size
                for g in (sg.MinStepGenerator(), sg.MaxStepGenerator()):
                    got = len(list(g(1.0, method, n, rule.method_order)))
                    if got < need:
                        bad.append((method, n, order, type(g).__name__, got, need))
                # the documented default count of MinStepGenerator: max((n + order - 1) // divisor, 1) + num_extrap
                mo = rule.method_order
                dv = 2 if method in ('central', 'multicomplex') else (4 if (n > 1 or mo >= 4) else 2) if method == 'complex' else 1
                for extra in (0, 3):
                    got = len(list(sg.MinStepGenerator(num_extrap=extra)(1.0, method, n, mo)))
                    if got != max((n + mo - 1) // dv, 1) + extra:
                        bad.append(dict(method=method, n=n, order=mo, num_extrap=extra, steps_generated=got, documented=max((n + mo - 1) // dv, 1) + extra))
    return dict(reproduced=bool(bad), failing=bad[:5], statement='default step count >= rule length and == the documented count')


@reg('C10.cseq')
def cseq(case):
    """CStepGenerator: steps == base_step*step_nom*(exp(1j*dtheta)*step_ratio)**(i+offset) (dtheta 0 on a radial path)"""
    import numdifftools.limits as lm
    bad = []
    for dth, path, ratio, ns, off, nom in itertools.product([None, 0.4, -0.3, 0.0], ['radial', 'spiral'], [4.0, 2.5], [None, 5], [0, 2], [None, 1.5]):
        o = dict(step_ratio=ratio, num_steps=ns, offset=off, step_nom=nom, path=path)
        if dth is not None:
            o['dtheta'] = dth
        for x in (0.5, np.array([0.3, 20.0])):
            gen = lm.CStepGenerator(**o)
            got = list(gen(x))
            d = 0.0 if path == 'radial' else (np.pi / 8 if dth is None else dth)
            q = np.exp(1j * d) * ratio
            num = ns if ns is not None else 2 * int(np.round(16.0 / np.log(abs(ratio)))) + 1
            base = EPS ** (1. / 1.2)
            xa = np.asarray(x, dtype=float)
            nm = np.maximum(np.log(1.718281828459045 + np.abs(xa)), 1) if nom is None else np.full(xa.shape, nom)
            bn = (base * nm + 1.0) - 1.0     # use_exact_steps (default): (h + 1) - 1
            q = (q + 1.0) - 1.0
            want = [bn * q ** (i + off) for i in range(num - 1, -1, -1)]
            ok = len(got) == len(want) and all(np.allclose(g, w, rtol=1e-9, atol=0) for g, w in zip(got, want))
            ok = ok and np.allclose(gen.step_ratio, q, rtol=1e-12, atol=0)
            if not ok:
                bad.append(dict(options=o, x=np.asarray(x).tolist(), reported_step_ratio=str(gen.step_ratio), expected_step_ratio=str(q),
                                got=[str(np.asarray(g).tolist()) for g in got[:2]], expected=[str(np.asarray(w).tolist()) for w in want[:2]]))
                break
    return dict(reproduced=bool(bad), failing=bad[:3], statement='CStepGenerator steps == base*nom*(exp(1j*dtheta)*ratio)**(i+offset)')


@reg('C10.intx')
def intx(case):
    import numdifftools.step_generators as sg
    import numdifftools.limits as lm
    bad = []
    for cls in (sg.MinStepGenerator, sg.MaxStepGenerator, lm.CStepGenerator):
        for opt in [dict(), dict(step_nom=1.5), dict(step_nom=0.25, base_step=0.5), dict(step_nom=2.75, num_steps=4), dict(base_step=0.125, step_ratio=3.0)]:
            for xi in (3, np.array([1, 2, 7]), np.int64(5), np.array([[1, 2], [3, 40]])):
                xf = np.asarray(xi, dtype=float)
                if cls is lm.CStepGenerator:
                    a = list(cls(**opt)(xi)); b = list(cls(**opt)(xf))
                else:
                    a = list(cls(**opt)(xi, 'central', 2, 2)); b = list(cls(**opt)(xf, 'central', 2, 2))
                if len(a) != len(b) or not all(np.array_equal(np.asarray(u, dtype=complex), np.asarray(v, dtype=complex)) for u, v in zip(a, b)):
                    bad.append(dict(cls=cls.__name__, options=opt, x=np.asarray(xi).tolist(), with_int_x=[str(np.asarray(u).tolist()) for u in a[:2]],
                                    with_float_x=[str(np.asarray(v).tolist()) for v in b[:2]]))
                    break
    return dict(reproduced=bool(bad), failing=bad[:3], statement='integer-typed x generates the same steps as the same x as floats')


@reg('C10.misc')
def misc(case):
    r = seq(case)
    if not r['reproduced']:
        r2 = cseq(case)
        if r2['reproduced']:
            return r2
    return r


@reg('C10.reuse')
def reuse(case):
    """one generator object used for several (method, n, order): each sequence equals the documented closed form for THAT call"""
    import numdifftools.step_generators as sg
    EPS = np.finfo(float).eps
    bad = []
    calls = [('forward', 1, 2), ('central', 3, 4), ('complex', 1, 2), ('central', 2, 2), ('complex', 2, 4), ('complex', 4, 4), ('central', 4, 2), ('forward', 3, 2)]
    for order_of_calls in (calls, calls[::-1]):
        g = sg.MinStepGenerator(num_steps=5)
        for (m_, n_, o_) in order_of_calls:
            got = [float(s_) for s_ in g(0.7, m_, n_, o_)]
            ratio = 2.0 if n_ == 1 else 1.6
            fresh = [float(s_) for s_ in sg.MinStepGenerator(num_steps=5)(0.7, m_, n_, o_)]
            rat = [got[i] / got[i + 1] for i in range(len(got) - 1)]
            if len(got) != len(fresh) or not np.allclose(got, fresh, rtol=1e-12, atol=0) or (len(set(order_of_calls)) == len(order_of_calls) and not np.allclose(rat, ratio, rtol=1e-6)):
                bad.append(dict(history=[c for c in order_of_calls[:order_of_calls.index((m_, n_, o_)) + 1]], call=(m_, n_, o_), steps=got[:4], fresh_generator=fresh[:4], documented_ratio=ratio))
                break
    user = np.array([0.01, 0.02]); keep = user.copy()
    g = sg.MinStepGenerator(base_step=user, num_steps=3)
    first = [np.array(s_) for s_ in g(np.array([0.3, -20.0]), 'forward', 1, 2)]
    second = [np.array(s_) for s_ in g(np.array([0.3, -20.0]), 'forward', 1, 2)]
    if not np.array_equal(user, keep) or not all(np.array_equal(a_, b_) for a_, b_ in zip(first, second)):
        bad.append(dict(what='array given as base_step', caller_array_after_two_calls=user.tolist(), was=keep.tolist(), first_call=[a_.tolist() for a_ in first[:2]], second_call=[a_.tolist() for a_ in second[:2]]))
    return dict(reproduced=bool(bad), failing=bad[:3])
