"""native replay for C11: the concrete misuse matrix against the real code"""
import itertools
import warnings
import numpy as np
from ndvc.native import reg


def _set(obj, **kw):
    for k, v in kw.items():
        setattr(obj, k, v)
    return obj


@reg('C11.misuse')
def misuse(case):
    import numdifftools as nd
    import numdifftools.finite_difference as fd
    from numdifftools.limits import Residue, CStepGenerator
    bad = []
    with warnings.catch_warnings():
        warnings.simplefilter('ignore')
        classes = [case['klass']] if case.get('klass') else ['Derivative', 'Jacobian', 'Gradient', 'Hessdiag', 'Hessian']
        for klass in classes:
            K = getattr(nd, klass)
            for method, mis, dim, full, hist in itertools.product(['complex', 'multicomplex'], ['complex-x', 'complex-f', 'both'],
                                                                  (1, 2, 3), (False, True), ('fresh', 'reconfigured')):
                for n in ((1, 2, 4, 8) if klass == 'Derivative' else (None,)):
                    if method == 'multicomplex' and n is not None and n > 2:
                        continue

                    def f(z):
                        s = np.sum(z * z) if klass in ('Gradient', 'Hessdiag', 'Hessian') else z * z
                        return s * (1 + 0.5j) if mis in ('complex-f', 'both') else s
                    imx = 1e-14j if (dim == 2 and full) else 0.5j
                    x = np.arange(1.0, dim + 1) + (imx if mis in ('complex-x', 'both') else 0)
                    if klass == 'Derivative' and dim == 1:
                        x = x[0]
                    kw = dict(method=method if hist == 'fresh' else 'central', full_output=full)
                    if n is not None:
                        kw['n'] = n
                    try:
                        obj = K(f, **kw)
                        if hist == 'reconfigured':
                            obj.method = method
                        out = obj(x)
                        bad.append(dict(cls=klass, method=method, misuse=mis, x=str(x), n=n, full_output=full, history=hist,
                                        returned=str(out)[:80]))
                    except ValueError:
                        pass
                    except Exception as e:
                        bad.append(dict(cls=klass, method=method, misuse=mis, n=n, raised=repr(e)[:100]))
        for nm, fn in [('multicomplex n=3 (ctor)', lambda: nd.Derivative(np.exp, method='multicomplex', n=3)(1.0)),
                       ('multicomplex n set to 3', lambda: _set(nd.Derivative(np.exp, method='multicomplex', n=2), n=3)(1.0)),
                       ('method set to multicomplex on n=3', lambda: _set(nd.Derivative(np.exp, method='central', n=3), method='multicomplex')(1.0)),
                       ('Residue order<=pole_order', lambda: Residue(np.sin, order=2, pole_order=2)),
                       ('unknown path', lambda: CStepGenerator(path='xyz')),
                       ('n=0, function not vectorised', lambda: nd.Derivative(lambda x: np.sum(x ** 2), n=0)(np.array([1.0, 2.0, 3.0]))),
                       ('fd_derivative with fewer samples than abscissas', lambda: __import__('numdifftools.fornberg', fromlist=['x']).fd_derivative(np.ones(10), np.arange(12.0), 1)),
                       ('fd_weights with n == len(x)', lambda: __import__('numdifftools.fornberg', fromlist=['x']).fd_weights(np.array([0.0, 1.0, 2.0]), 0.5, 3)),
                       ('fd_weights_all with n == len(x)', lambda: __import__('numdifftools.fornberg', fromlist=['x']).fd_weights_all(np.array([0.0, 1.0]), 0.5, 2)),
                       ('unknown path "straight"', lambda: CStepGenerator(path='straight')),
                       ('unknown path "Spiral"', lambda: CStepGenerator(path='Spiral')),
                       ('unknown path "ray"', lambda: nd.limits.Limit(np.sin, path='ray')),
                       ('unknown path "RADIAL"', lambda: nd.limits.Limit(np.sin, path='RADIAL')),
                       ('f complex in only some components, complex step', lambda: nd.Derivative(lambda x: np.sqrt(x + 0j), method='complex')(np.array([-4.0, 9.0]))),
                       ('f complex in only some components, multicomplex', lambda: nd.Derivative(lambda x: x * np.array([1.0, 1j]), method='multicomplex')(np.array([1.0, 2.0]))),
                       ('Jacobian of f with one complex component', lambda: nd.Jacobian(lambda x: np.array([x[0] * x[1], 1j * x[0]]), method='complex')(np.array([1.0, 2.0]))),
                       ('directionaldiff sizes', lambda: nd.directionaldiff(lambda x: np.sum(x ** 2), np.ones(2), np.ones(3))),
                       ('too few steps', lambda: fd.LogRule(n=2, method='forward', order=4)._apply(np.ones((2, 1)), np.ones((2, 1)), 2.0)),
                       ('too few steps, several columns', lambda: fd.LogRule(n=2, method='forward', order=4)._apply(np.ones((2, 3)), np.ones((2, 3)), 2.0)),
                       ('one step too few', lambda: fd.LogRule(n=1, method='forward', order=2)._apply(np.ones((1, 1)), np.ones((1, 1)), 2.0)),
                       ('one step too few through Derivative (user generator, check_num_steps=False), array x',
                        lambda: nd.Derivative(np.exp, step=nd.MinStepGenerator(base_step=0.01, step_ratio=2, num_steps=1, check_num_steps=False), method='central', order=4)(np.array([1.0, 2.0]))),
                       ('one step too few through Derivative (user generator, check_num_steps=False), scalar x',
                        lambda: nd.Derivative(np.exp, step=nd.MinStepGenerator(base_step=0.01, step_ratio=2, num_steps=1, check_num_steps=False), method='forward', order=2)(1.0)),
                       ('Residue order=0', lambda: Residue(np.sin, order=0, pole_order=1)),
                       ('Residue order=0.0', lambda: Residue(np.sin, order=0.0, pole_order=2)),
                       ('Residue order=1, pole_order=1', lambda: Residue(np.sin, order=1, pole_order=1)),
                       ('Residue negative order', lambda: Residue(np.sin, order=-1, pole_order=1)),
                       ('non-vectorised fun', lambda: nd.Derivative(lambda x: np.array([1.0, 2.0, 3.0]))(np.array([1.0, 2.0])))]:
            try:
                fn()
                bad.append(dict(case=nm, returned=True))
            except ValueError:
                pass
            except Exception as e:
                bad.append(dict(case=nm, raised=repr(e)[:100]))
    return dict(reproduced=bool(bad), failing=bad[:5], statement='misuse must raise ValueError, never return a number')
