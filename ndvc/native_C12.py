"""native replays for C12 (run under /venv/bin/python against the real code)"""
import warnings
import numpy as np
from ndvc.native import reg

FUNCS = {
    'exp': np.exp, 'expm1': np.expm1, 'sin': np.sin, 'cos': np.cos, 'sinh': np.sinh, 'cosh': np.cosh, 'tan': np.tan,
    'tanh': np.tanh, 'log': np.log, 'log1p': np.log1p, 'log2': np.log2, 'log10': np.log10, 'exp2': np.exp2, 'sqrt': np.sqrt,
    'arcsin': np.arcsin, 'arccos': np.arccos, 'arctan': np.arctan, 'arccosh': np.arccosh, 'arcsinh': np.arcsinh,
    'arctanh': np.arctanh, 'cot': lambda w: 1 / np.tan(w), 'sec': lambda w: 1 / np.cos(w), 'csc': lambda w: 1 / np.sin(w),
    'coth': lambda w: 1 / np.tanh(w), 'sech': lambda w: 1 / np.cosh(w), 'csch': lambda w: 1 / np.sinh(w),
}
BASE = {'arccosh': 1.7, 'arcsin': 0.4, 'arccos': 0.4, 'arctanh': 0.4, 'log1p': 0.5, 'expm1': 0.5}


def idem(z1, z2, f):
    u = z1 - 1j * z2; v = z1 + 1j * z2
    fu, fv = f(u), f(v)
    return (fu + fv) / 2, (fu - fv) * 1j / 2


@reg('C12.idempotent')
def idempotent(case):
    from numdifftools.multicomplex import Bicomplex
    bad = []
    names = [case['function']] if case.get('function') in FUNCS else sorted(FUNCS)
    with warnings.catch_warnings():
        warnings.simplefilter('ignore')
        for nm in names:
            x0 = BASE.get(nm, 0.8)
            for rel in (1e-1, 1e-3, 1e-6):
                for (b, c, d) in [(1, 0, 0), (0, 1, 0), (1, 1, 0), (1, 1, 1), (0.5, -1, 0.3), (0, 0, 0)]:
                    for arr in (False, True):
                        z1 = x0 + 1j * b * rel * x0; z2 = c * rel * x0 + 1j * d * rel * x0
                        if arr:
                            z1 = np.array([z1, z1 * 1.1]); z2 = np.array([z2, z2 * 0.9])
                        out = getattr(Bicomplex(z1, z2), nm)()
                        s1, s2 = idem(np.asarray(z1), np.asarray(z2), FUNCS[nm])
                        sc = max(1e-300, float(np.max(np.abs(s1))))
                        if not (np.allclose(out.z1, s1, rtol=1e-6, atol=1e-9 * sc) and np.allclose(out.z2, s2, rtol=1e-6, atol=1e-9 * sc * rel + 1e-15)):
                            bad.append(dict(function=nm, z1=str(z1), z2=str(z2), got=(str(out.z1), str(out.z2)), expected=(str(s1), str(s2))))
                            break
        if case.get('group') in ('ring', 'compose', 'branch', None) or not bad:
            # operators incl. negative bases and arrays mixing zero divisors
            for re in (-2.0, -0.5, 0.5, 2.0):
                for (b, c, d) in [(0, 0, 0), (1e-3, 0, 0), (1e-3, 1e-3, 0), (0, 1e-3, -1e-3), (0, 0, 1e-3)]:
                    z = Bicomplex(re + 1j * b, c + 1j * d)
                    w = Bicomplex(0.7 - 0.2j, 0.1 + 0.05j)
                    for nm, op, f in [('pow3', lambda t: t ** 3, lambda u: u ** 3), ('pow-1', lambda t: t ** -1, lambda u: 1 / u),
                                      ('rdiv', lambda t: 1.0 / t, lambda u: 1 / u), ('pow2', lambda t: t ** 2, lambda u: u ** 2),
                                      ('2/z', lambda t: 2.0 / t, lambda u: 2 / u), ('-0.5/z', lambda t: -0.5 / t, lambda u: -0.5 / u),
                                      ('(3+1j)/z', lambda t: (3 + 1j) / t, lambda u: (3 + 1j) / u), ('z/2', lambda t: t / 2.0, lambda u: u / 2)]:
                        out = op(z)
                        s1, s2 = idem(z.z1, z.z2, f)
                        if not (np.allclose(out.z1, s1, rtol=1e-8, atol=1e-12) and np.allclose(out.z2, s2, rtol=1e-8, atol=1e-12)):
                            bad.append(dict(function=nm, z1=str(z.z1), z2=str(z.z2), got=(str(out.z1), str(out.z2)), expected=(str(s1), str(s2))))
                    for nm, out in [('mul', z * w), ('sub', z - w), ('add', z + w)]:
                        uz, vz = z.z1 - 1j * z.z2, z.z1 + 1j * z.z2
                        uw, vw = w.z1 - 1j * w.z2, w.z1 + 1j * w.z2
                        f = {'mul': lambda a, b_: a * b_, 'sub': lambda a, b_: a - b_, 'add': lambda a, b_: a + b_}[nm]
                        su, sv = f(uz, uw), f(vz, vw)
                        s1, s2 = (su + sv) / 2, (su - sv) * 1j / 2
                        if not (np.allclose(out.z1, s1, rtol=1e-12) and np.allclose(out.z2, s2, rtol=1e-12)):
                            bad.append(dict(function=nm, z=str((z.z1, z.z2))))
            h = 1e-4
            z = Bicomplex(np.array([0.0, 1.0, -1.5]) + 1j * h, h)
            out = z ** 2
            s1, s2 = idem(z.z1, z.z2, lambda u: u ** 2)
            if not (np.allclose(out.z1, s1, rtol=1e-8, atol=1e-14) and np.allclose(out.z2, s2, rtol=1e-8, atol=1e-14)):
                bad.append(dict(function='pow2 on an array with a zero divisor', got=str(out.z2), expected=str(s2)))
    return dict(reproduced=bool(bad), failing=bad[:4], statement='Bicomplex f agrees with the idempotent decomposition e1 f(z1 - i z2) + e2 f(z1 + i z2)')


@reg('C12.small')
def small(case):
    from numdifftools.multicomplex import Bicomplex
    from ndvc.concrete import small_argument_cases
    cnt, bad = small_argument_cases(Bicomplex)
    from ndvc.concrete import small_domain_cases
    cnt2, bad2 = small_domain_cases(Bicomplex)
    cnt, bad = cnt + cnt2, bad + bad2
    return dict(reproduced=bool(bad), failing=bad[:3], samples=cnt,
                statement='expm1, sin, sinh, tan, tanh near 0: every component agrees with the idempotent spec to 1e-12 relative')


@reg('C12.containers')
def containers(case):
    """Bicomplex.__array_wrap__ on object arrays of every memory layout"""
    from numdifftools.multicomplex import Bicomplex
    bad = []
    for shape, layout in [((3,), 'C'), ((2, 3), 'C'), ((2, 3), 'transposed-view'), ((2, 2), 'F'), ((3, 2), 'transposed-view'), ((2, 2, 2), 'transposed-view')]:
        if layout == 'C':
            arr = np.empty(shape, dtype=object)
        elif layout == 'F':
            arr = np.empty(shape, dtype=object, order='F')
        else:
            arr = np.empty(shape[::-1], dtype=object).T
        for k, idx in enumerate(np.ndindex(shape)):
            arr[idx] = Bicomplex(k + 1 + 0.5j, -(k + 1) + 0.25j * k)
        out = Bicomplex.__array_wrap__(arr)
        for idx in np.ndindex(shape):
            if out.z1[idx] != arr[idx].z1 or out.z2[idx] != arr[idx].z2:
                bad.append(dict(shape=shape, layout=layout, index=idx, got=(complex(out.z1[idx]), complex(out.z2[idx])),
                                expected=(complex(arr[idx].z1), complex(arr[idx].z2))))
                break
    return dict(reproduced=bool(bad), failing=bad[:3], statement='__array_wrap__ keeps every number at its index for every memory layout')


@reg('C12.defstep')
def defstep(case):
    import numdifftools as nd
    from ndvc.concrete import multicomplex_default_step_cases
    res = multicomplex_default_step_cases(nd)
    want = case.get('name')
    bad = [dict(case=k, **(v[1] or {})) for k, v in sorted(res.items()) if not v[0] and (want is None or k == want)]
    return dict(reproduced=bool(bad), failing=bad[:4], statement='Derivative(f, method="multicomplex", n) with default steps == analytic derivative (rtol 1e-8)')


@reg('C12.consumers')
def consumers(case):
    """the difference functions that read imag1 / imag12 off a Bicomplex evaluation, with a different step per coordinate, on a
    function with mixed partial derivatives (exact: exp of a linear form)"""
    import numdifftools.finite_difference as fd
    bad = []
    c = np.array([0.7, -1.1, 0.4])
    for d in (1, 2, 3):
        cc = c[:d]
        x = np.array([0.3, -0.2, 0.5])[:d]
        h = np.array([1e-3, 4e-3, 2.5e-4])[:d]

        def f(z):
            s_ = z[0] * cc[0]
            for k in range(1, d):
                s_ = s_ + z[k] * cc[k]
            return s_.exp() if hasattr(s_, 'exp') else np.exp(s_)
        val = np.exp(np.dot(cc, x))
        want_h = val * np.outer(cc, cc)
        got = fd.HessianDifferenceFunctions._multicomplex2(f, None, x, h)
        if np.shape(got) != (d, d) or not np.allclose(got, want_h, rtol=1e-4, atol=1e-9):
            bad.append(dict(function='HessianDifferenceFunctions._multicomplex2', d=d, steps=h.tolist(), got=np.asarray(got).tolist(), expected=want_h.tolist()))
        got = fd.HessdiagDifferenceFunctions._multicomplex2(f, None, x, h)
        if not np.allclose(got, np.diag(want_h) * h * h, rtol=1e-4, atol=1e-15):
            bad.append(dict(function='HessdiagDifferenceFunctions._multicomplex2 (imag12 = h^2 f_ii)', d=d, steps=h.tolist(), got=np.asarray(got).tolist(), expected=(np.diag(want_h) * h * h).tolist()))
        got = fd.JacobianDifferenceFunctions._multicomplex(f, None, x, h)
        if not np.allclose(np.ravel(got), val * cc * h, rtol=1e-4, atol=1e-12):
            bad.append(dict(function='JacobianDifferenceFunctions._multicomplex', d=d, steps=h.tolist(), got=np.ravel(got).tolist(), expected=(val * cc * h).tolist()))
    return dict(reproduced=bool(bad), failing=bad[:3])
