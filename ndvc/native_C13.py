"""native replays for C13 (run under /venv/bin/python against the real code)"""
import itertools
import numpy as np
from ndvc.native import reg

EPS = np.finfo(float).eps
TINY = np.finfo(float).tiny


def _spec_guard(e0, e1, e2):
    """True when the documented criterion says 'converged / irregular': result is the last term"""
    d1, d2 = e1 - e0, e2 - e1
    if abs(d1) <= max(abs(e1), abs(e0)) * EPS or abs(d2) <= max(abs(e2), abs(e1)) * EPS:
        return True
    if abs(d1) < TINY or abs(d2) < TINY:
        return True
    sss = 1.0 / d2 - 1.0 / d1 + TINY
    return abs(sss * e1) <= 1.0e-4


@reg('C13.geometric')
def geometric(case):
    from numdifftools.extrapolation import dea3
    cands = []
    if None not in (case.get('L'), case.get('a'), case.get('q')):
        cands.append((case['L'], case['a'], case['q']))
    Ls = [-9.0, -4.0, 0.0, 1.5, 1e3]
    As = [1.0, 16.0, -3.0, 1e-3]
    Qs = [0.75, 2.0, -0.5, 0.3, -3.0, 0.5]
    cands += list(itertools.product(Ls, As, Qs))
    # triples whose third (or first) term vanishes: L = -a q^2
    cands += [(-a * q * q, a, q) for a in As for q in Qs] + [(-a, a, q) for a in As for q in Qs]
    # the same triples at other scales (the criterion is relative: scaling the triple scales the answer)
    cands += [(L * sc, a * sc, q) for sc in (1e-15, 1e-22, 1e15) for (L, a, q) in [(1.0, 1e-7, 0.5), (1.5, 1.0, 0.75), (0.0, 1.0, 0.5), (-4.0, 16.0, -0.5)]]
    bad = []
    for L, a, q in cands:
        e = (L + a, L + a * q, L + a * q * q)
        if _spec_guard(*e):
            continue
        corr = 1.0 / (1.0 / (e[2] - e[1]) - 1.0 / (e[1] - e[0]))
        if not np.isfinite(corr) or abs(corr) > 1e150:
            continue
        res, err = dea3(*e)
        scale = max(abs(L), abs(a), abs(a * q * q), abs(corr), 1e-300)
        if not abs(res[0] - L) <= 1e-6 * scale or not (err[0] >= abs(res[0] - L) - 1e-6 * scale):
            bad.append(dict(L=L, a=a, q=q, terms=e, got=float(res[0]), abserr=float(err[0]), expected=L))
    return dict(reproduced=bool(bad), tried=len(cands), failing=bad[:5])


@reg('C13.total')
def total(case):
    from numdifftools.extrapolation import dea3
    cands = []
    if None not in (case.get('e0'), case.get('e1'), case.get('e2')):
        cands.append((case['e0'], case['e1'], case['e2']))
    vals = [0.0, 1.0, -1.0, 1.5, 2.0, 1e-300, -1e-300, 1e10, 3.0, 0.5]
    cands += list(itertools.product(vals, vals, vals))
    bad = []
    for e in cands:
        try:
            res, err = dea3(*e)
        except Exception as ex:
            bad.append(dict(terms=e, raised=repr(ex)))
            continue
        if not (np.all(np.isfinite(res)) and np.all(np.isfinite(err)) and np.all(err >= 0)):
            bad.append(dict(terms=e, got=res.tolist(), abserr=err.tolist()))
    from ndvc.concrete import dea3_quiet_cases
    cnt, qbad = dea3_quiet_cases(dea3)
    bad += qbad
    return dict(reproduced=bool(bad), tried=len(cands) + cnt, failing=bad[:5])


@reg('C13.frame')
def frame(case):
    from numdifftools.extrapolation import dea3
    rng = np.random.default_rng(0)
    bad = []
    for t in range(200):
        a = [rng.normal(size=5) for _ in range(3)]
        if t % 3 == 0:
            a[1][:2] = a[0][:2]
        if t % 4 == 0:
            a[2][1:3] = a[1][1:3]
        if t % 7 == 0:
            a = [np.zeros(5), np.zeros(5), np.zeros(5)]
        cp = [x.copy() for x in a]
        dea3(*a)
        if not all(np.array_equal(x, y) for x, y in zip(a, cp)):
            bad.append(t)
    return dict(reproduced=bool(bad), failing_trials=bad[:5])


@reg('C13.elementwise')
def elementwise(case):
    from numdifftools.extrapolation import dea3
    bad = []
    Ls = np.array([1.0, 1e-14, 1e12, -3.0, 0.0, 2.5e6])
    As = np.array([0.5, 1e-15, 3e11, 1.0, 1e-8, -1.0])
    Qs = np.array([0.5, 0.7, -0.4, 2.0, 0.3, 0.25])
    e0, e1, e2 = Ls + As, Ls + As * Qs, Ls + As * Qs * Qs
    for shape in [(6,), (2, 3), (3, 2)]:
        r, e = dea3(e0.reshape(shape), e1.reshape(shape), e2.reshape(shape))
        if r.shape != shape or e.shape != shape:
            bad.append(('shape', shape, r.shape))
            continue
        for k, idx in enumerate(np.ndindex(shape)):
            rs, es = dea3(e0[k], e1[k], e2[k])
            if not (rs[0] == r[idx] and es[0] == e[idx]):
                bad.append(('elem', shape, k, float(r[idx]), float(rs[0]), float(e[idx]), float(es[0])))
    r, e = dea3(e0, e1, e2)
    rs, es = dea3(e0, e1, e2, symmetric=True)
    if not (np.array_equal(rs, r[:-1]) and np.array_equal(es, e[1:])):
        bad.append(('symmetric',))
    return dict(reproduced=bool(bad), failing=bad[:5])


@reg('C13.intterms')
def intterms(case):
    from numdifftools.extrapolation import dea3
    from ndvc.concrete import dea3_integer_cases
    cnt, bad = dea3_integer_cases(dea3)
    return dict(reproduced=bool(bad), failing=bad[:3], cases=cnt, statement='dea3 on integer-typed terms == dea3 on the same terms as floats')


@reg('C13.symmetric')
def symmetric(case):
    from numdifftools.extrapolation import dea3
    bad = []
    for n in range(1, 7):
        for tail in [(), (1,), (3,)]:
            shape = (n,) + tail
            e0 = 1.0 + 0.5 * np.arange(np.prod(shape)).reshape(shape)
            e1, e2 = e0 + 0.5 * (1 + e0 / 7), e0 + 0.75 * (1 + e0 / 7)
            r, a = dea3(e0, e1, e2)
            rs, as_ = dea3(e0, e1, e2, symmetric=True)
            want = (n - 1,) + tail if n > 1 else shape
            if np.shape(rs) != want or np.shape(as_) != want or (n > 1 and not (np.array_equal(rs, r[:-1]) and np.array_equal(as_, a[1:]))):
                bad.append(dict(shape=shape, symmetric_output_shapes=(np.shape(rs), np.shape(as_)), expected_shape=want))
    return dict(reproduced=bool(bad), failing=bad[:3], statement='symmetric=True returns result[:-1], abserr[1:] for every leading length > 1')


@reg('C13.layouts')
def layouts(case):
    from numdifftools.extrapolation import dea3
    from ndvc.concrete import dea3_layout_cases
    cnt, bad = dea3_layout_cases(dea3)
    return dict(reproduced=bool(bad), failing=bad[:3], cases=cnt, statement='dea3 element-wise for every memory layout')
