"""native replays for C14 (run under /venv/bin/python against the real code)"""
from fractions import Fraction
import numpy as np
from ndvc.native import reg

EPS = np.finfo(float).eps


def wynn(seq):
    """exact rational epsilon table; returns for each n the entry of highest even order"""
    s = [Fraction(float(v)) for v in seq]
    N = len(s)
    prev = [Fraction(0)] * (N + 1)
    cur = list(s)
    cols = {0: list(s)}
    k = 0
    while len(cur) > 1:
        nxt = []
        for n in range(len(cur) - 1):
            d = cur[n + 1] - cur[n]
            if d == 0:
                return None
            nxt.append(prev[n + 1] + 1 / d)
        prev, cur = cur, nxt
        k += 1
        cols[k] = list(cur)
    out = []
    for n in range(N):
        kk = 2 * (n // 2)
        out.append(cols[kk][n - kk])
    return out


@reg('C14.epsalg')
def epsalg(case):
    from numdifftools.extrapolation import EpsAlg
    bad = []
    rng = np.random.default_rng(3)
    for scale in (1.0, 2.0 ** -20, 2.0 ** -40, 2.0 ** -60, 2.0 ** -80, 1e6):
        for k in (1, 2, 3):
            L = 1.25 * scale
            a = rng.uniform(0.5, 2, k) * scale
            q = np.array([0.5, -0.3, 0.7])[:k]
            # 2k+1 terms: beyond that the exact table of an exactly summable sequence has vanishing differences (outside the
            # property's precondition) and the floating-point table is pure rounding noise
            seq = [L + float(np.sum(a * q ** n)) for n in range(2 * k + 1)]
            want = wynn(seq)
            if want is None:
                continue
            ea = EpsAlg()
            for n, v in enumerate(seq):
                got = ea(v)
                w = float(want[n])
                if not abs(got - w) <= 1e-6 * max(abs(w), abs(scale) * 1e-3):
                    bad.append(dict(scale=scale, k=k, term=n, got=got, expected=w))
                    break
    return dict(reproduced=bool(bad), failing=bad[:4], statement='EpsAlg must return the highest even-order entry of the exact epsilon table')


@reg('C14.dea')
def dea(case):
    from numdifftools.extrapolation import Dea, dea3
    bad = []
    lims = sorted({case.get('limexp', 5), 3, 5, 6, 9, 50})
    for limexp in lims:
        for name, f in [('1+0.5^k', lambda k: 1 + 0.5 ** k), ('1+0.3^k', lambda k: 1 + 0.3 ** k), ('alt', lambda k: 1 + (-0.7) ** k),
                        ('two', lambda k: 2 + 0.5 ** k + 0.2 * 0.8 ** k), ('const', lambda k: 3.0), ('harmonic', lambda k: sum(1.0 / (j + 1) ** 2 for j in range(k + 1)))]:
            d = Dea(limexp=limexp)
            seq = [f(k) for k in range(120)]
            for k, v in enumerate(seq):
                try:
                    res, err = d(v)
                except Exception as e:
                    bad.append(dict(limexp=limexp, sequence=name, term=k, raised=repr(e)[:80]))
                    break
                if not (np.isfinite(res) and np.isfinite(err)):
                    bad.append(dict(limexp=limexp, sequence=name, term=k, result=res, abserr=err)); break
                if k >= 2 and not err >= 5 * EPS * abs(res) * (1 - 1e-12):
                    bad.append(dict(limexp=limexp, sequence=name, term=k, abserr=err, floor=5 * EPS * abs(res))); break
                if k == 2:
                    r3, e3 = dea3(*seq[:3])
                    if not abs(res - r3[0]) <= 1e-9 * max(1.0, abs(r3[0])):
                        bad.append(dict(limexp=limexp, sequence=name, term=2, dea=res, dea3=float(r3[0]))); break
    # first three terms == dea3, also for triples that touch zero
    for tri in [(2.0, 0.5, 0.0), (3.0, 1.0, 0.0), (-1.0, 0.0, 0.5), (0.0, 1.0, 1.5), (77.0, 21.0, 5.0)]:
        d = Dea(limexp=7)
        for v in tri:
            res, err = d(v)
        r3 = float(dea3(*tri)[0][0])
        if not abs(res - r3) <= 1e-9 * max(1.0, abs(r3)):
            bad.append(dict(terms=tri, dea_after_three_terms=float(res), dea3=r3))
    # outside the guards the table holds the even columns of Wynn's epsilon table: a limit plus k geometric transients is
    # an entry of the table after 2k+1 terms (k = 1, 2, 3)
    for k, (L, amps, qs) in enumerate([(1.5, [3.5], [0.6]), (2.0, [2.5, 0.5], [0.8, 0.3]), (-1.0, [1.0, -2.0, 0.7], [0.7, 0.45, -0.2])], start=1):
        for limexp in (21, 51):
            d = Dea(limexp=limexp)
            for j in range(2 * k + 1):
                d(L + sum(a * q ** j for a, q in zip(amps, qs)))
            tab = np.asarray(d.epstab[:d._n + 1], dtype=float)
            if not np.any(np.abs(tab - L) <= 1e-7 * max(1.0, abs(L))):
                bad.append(dict(limexp=limexp, transients=k, terms=2 * k + 1, limit=L, table=tab.tolist()))
    return dict(reproduced=bool(bad), failing=bad[:4], statement='Dea accepts sequences of any length, returns finite values with abserr >= 5 eps |result|')


@reg('C14.shift')
def shift(case):
    """(1) the real _shift_table on concrete tables against qelg's shift; (2) behaviour: after the irregular-behaviour guard
    truncated the table to the newest term, Dea continues like the epsilon algorithm on the retained terms"""
    import numdifftools.extrapolation as ex
    bad = []
    for L in range(3, 22, 2):
        for old_n in range(L):
            newelm = old_n // 2
            for n in sorted({old_n} | {2 * i for i in range(newelm)} | ({L - 2} if old_n == L - 1 else set())):
                tab = np.arange(100.0, 100.0 + L + 5)
                e = {i + 1: tab[i] for i in range(len(tab))}
                num, n1 = old_n + 1, n + 1
                ib = 2 if (num // 2) * 2 == num else 1
                for _ in range(newelm + 1):
                    e[ib] = e[ib + 2]; ib += 2
                if num != n1:
                    indx = num - n1 + 1
                    for i in range(1, n1 + 1):
                        e[i] = e[indx]; indx += 1
                ref = np.array([e[i + 1] for i in range(len(tab))])
                got = ex.Dea._shift_table(tab.copy(), n, newelm, old_n)
                if not np.array_equal(got[:n + 1], ref[:n + 1]) and len(bad) < 3:
                    bad.append(dict(limexp=L, old_n=old_n, n=n, table='100, 101, ...', kept=got[:n + 1].tolist(), expected=ref[:n + 1].tolist()))
    rng = np.random.default_rng(5)
    beh = []
    for npre in range(0, 8):
        prefix = list(rng.normal(size=npre) * 3) + [2.0, 5.0]          # (2, 5, 8) arithmetic: the guard fires when 8 arrives
        tail = [4.0 + 4.0 * 0.5 ** k for k in range(3)]                  # t_0 = 8, limit 4
        for limexp in (7, 21, 51):
            d = ex.Dea(limexp)
            for v in prefix:
                d(v)
            for v in tail:
                res, err = d(v)
            if not abs(res - 4.0) <= 1e-9:
                beh.append(dict(terms_before_t0=npre + 2, limexp=limexp, sequence=[float(x) for x in prefix + tail], got=float(res), expected=4.0))
    return dict(reproduced=bool(bad or beh), failing=bad[:2] + beh[:2],
                statement='_shift_table keeps the newest n+1 entries (qelg); Dea recovers L + a q^k from the 3 terms retained after a guard')


@reg('C14.dconc')
def dconc(case):
    import numdifftools.extrapolation as ex
    from ndvc.concrete import dea_cases
    cnt, bad = dea_cases(ex)
    from ndvc.concrete import epsilon_integer_cases
    cnt2, bad2 = epsilon_integer_cases(ex)
    cnt, bad = cnt + cnt2, bad + bad2
    return dict(reproduced=bool(bad), failing=bad[:3], cases=cnt, statement='Dea on concrete sequences: finite values, error floor, agreement with dea3, transients recovered; integer-typed terms == float terms')
