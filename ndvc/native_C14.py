"""native replays for C14 (run under /venv/bin/python against the real code)"""
from fractions import Fraction
import numpy as np
from ndvc.native import reg

EPS = np.finfo(float).eps


def wynn(seq):
    """exact rational epsilon table; returns for each n the entry of highest even order"""
    s = [Fraction(float(v)) for v in seq]
    N = len(s)
    prev = [Fraction(0)] * (N + 1)
    cur = list(s)
    cols = {0: list(s)}
    k = 0
    while len(cur) > 1:
        nxt = []
        for n in range(len(cur) - 1):
            d = cur[n + 1] - cur[n]
            if d == 0:
                return None
            nxt.append(prev[n + 1] + 1 / d)
        prev, cur = cur, nxt
        k += 1
        cols[k] = list(cur)
    out = []
    for n in range(N):
        kk = 2 * (n // 2)
        out.append(cols[kk][n - kk])
    return out


@reg('C14.epsalg')
def epsalg(case):
    from numdifftools.extrapolation import EpsAlg
    bad = []
    rng = np.random.default_rng(3)
    for scale in (1.0, 2.0 ** -20, 2.0 ** -40, 2.0 ** -60, 2.0 ** -80, 1e6):
        for k in (1, 2, 3):
            L = 1.25 * scale
            a = rng.uniform(0.5, 2, k) * scale
            q = np.array([0.5, -0.3, 0.7])[:k]
            seq = [L + float(np.sum(a * q ** n)) for n in range(2 * k + 3)]
            want = wynn(seq)
            if want is None:
                continue
            ea = EpsAlg()
            for n, v in enumerate(seq):
                got = ea(v)
                w = float(want[n])
                if not abs(got - w) <= 1e-6 * max(abs(w), abs(scale) * 1e-3):
                    bad.append(dict(scale=scale, k=k, term=n, got=got, expected=w))
                    break
    return dict(reproduced=bool(bad), failing=bad[:4], statement='EpsAlg must return the highest even-order entry of the exact epsilon table')


@reg('C14.dea')
def dea(case):
    from numdifftools.extrapolation import Dea, dea3
    bad = []
    lims = sorted({case.get('limexp', 5), 3, 5, 6, 9, 50})
    for limexp in lims:
        for name, f in [('1+0.5^k', lambda k: 1 + 0.5 ** k), ('1+0.3^k', lambda k: 1 + 0.3 ** k), ('alt', lambda k: 1 + (-0.7) ** k),
                        ('two', lambda k: 2 + 0.5 ** k + 0.2 * 0.8 ** k), ('const', lambda k: 3.0), ('harmonic', lambda k: sum(1.0 / (j + 1) ** 2 for j in range(k + 1)))]:
            d = Dea(limexp=limexp)
            seq = [f(k) for k in range(120)]
            for k, v in enumerate(seq):
                try:
                    res, err = d(v)
                except Exception as e:
                    bad.append(dict(limexp=limexp, sequence=name, term=k, raised=repr(e)[:80]))
                    break
                if not (np.isfinite(res) and np.isfinite(err)):
                    bad.append(dict(limexp=limexp, sequence=name, term=k, result=res, abserr=err)); break
                if k >= 2 and not err >= 5 * EPS * abs(res) * (1 - 1e-12):
                    bad.append(dict(limexp=limexp, sequence=name, term=k, abserr=err, floor=5 * EPS * abs(res))); break
                if k == 2:
                    r3, e3 = dea3(*seq[:3])
                    if not abs(res - r3[0]) <= 1e-9 * max(1.0, abs(r3[0])):
                        bad.append(dict(limexp=limexp, sequence=name, term=2, dea=res, dea3=float(r3[0]))); break
    return dict(reproduced=bool(bad), failing=bad[:4], statement='Dea accepts sequences of any length, returns finite values with abserr >= 5 eps |result|')
