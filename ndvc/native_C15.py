"""native replays for C15/C16 (run under /venv/bin/python against the real code)"""
import math
from fractions import Fraction
import numpy as np
from ndvc.native import reg


def exact_weights(xs, x0, n):
    """(n+1) x m exact rational Lagrange-derivative weights from the float inputs"""
    xs = [Fraction(float(v)) for v in xs]
    x0 = Fraction(float(x0))
    m = len(xs)
    W = [[Fraction(0)] * m for _ in range(n + 1)]
    for v in range(m):
        # Taylor coefficients at x0 of l_v(x0 + t) = prod_{u != v} (x0 + t - x_u)/(x_v - x_u)
        poly = [Fraction(1)]
        for u in range(m):
            if u == v:
                continue
            den = xs[v] - xs[u]
            a0, a1 = (x0 - xs[u]) / den, Fraction(1) / den
            new = [Fraction(0)] * (len(poly) + 1)
            for k, c in enumerate(poly):
                new[k] += c * a0
                new[k + 1] += c * a1
            poly = new
        for k in range(n + 1):
            W[k][v] = (poly[k] if k < len(poly) else Fraction(0)) * math.factorial(k)
    return W


def node_sets(m):
    rng = np.random.default_rng(m)
    u = np.arange(m) - (m - 1) / 2.0
    sets = [('uniform', u * 0.5, 0.0), ('uniform-x0-outside', u * 0.5, 7.3), ('descending', (u * 0.5)[::-1], 0.1),
            ('centre-out', np.array(sorted(u * 0.25, key=abs)), 0.0),
            ('random', np.sort(rng.uniform(-2, 2, m)), 0.37), ('permuted', rng.permutation(u * 0.3 + 1.0), 1.1),
            ('one-sided', np.arange(m) * 0.1, 0.0), ('on-node', u * 1.0, float(u[m // 2])),
            ('fine', 1.0 + u * 2.5e-4, 1.0), ('coarse', u * 1e3, 0.0), ('clustered', np.cumsum(1.0 / 2 ** np.arange(m)), 0.9)]
    return sets


@reg('C15.weights')
def weights(case):
    from numdifftools.fornberg import fd_weights_all, fd_weights
    bad = []
    ms = sorted({case.get('m', 5), 3, 5, 7, 9})
    for m in ms:
        for name, xs, x0 in node_sets(m):
            for n in sorted({min(case.get('n', 2), m - 1), 1, m - 1, min(6, m - 1)}):
                try:
                    W = fd_weights_all(xs, x0, n)
                    w = fd_weights(xs, x0, n)
                except Exception as e:
                    bad.append(dict(nodes=name, m=m, n=n, raised=repr(e)))
                    continue
                E = exact_weights(xs, x0, n)
                Ef = np.array([[float(v) for v in row] for row in E])
                if W.shape != Ef.shape:
                    bad.append(dict(nodes=name, m=m, n=n, shape=W.shape)); continue
                # rounding scaled by the conditioning of the node set: sum_v |exact weight| per row
                tol = 1e-6 * np.maximum(np.sum(np.abs(Ef), axis=1, keepdims=True), 1e-300)
                if not np.all(np.abs(W - Ef) <= tol) or not np.array_equal(w, W[-1]):
                    k, v = np.unravel_index(np.argmax(np.abs(W - Ef) / tol), W.shape)
                    bad.append(dict(nodes=name, m=m, n=n, x=[float(t) for t in xs], x0=x0, row=int(k), node=int(v),
                                    got=float(W[k, v]), expected=float(Ef[k, v])))
    return dict(reproduced=bool(bad), failing=bad[:4], statement='row k of fd_weights_all must equal the k-th derivative at x0 of the Lagrange basis')


@reg('C16.deriv')
def c16_deriv(case):
    from numdifftools.fornberg import fd_derivative
    n, m = case['n'], case['m']
    mm = n // 2 + m
    deg = 2 * mm
    Nmin = 2 * mm + 2
    Ns = sorted({Nmin, Nmin + 1, Nmin + 6, 45} | ({case['N']} if case.get('N') and Nmin <= case['N'] <= 200 else set()))
    rng = np.random.default_rng(7)
    bad = []
    for N in Ns:
        for gname, x in [('uniform', np.linspace(-1.0, 1.0, N)), ('random', np.sort(rng.uniform(-1, 1, N))),
                         ('decreasing', np.linspace(1.0, -1.0, N))]:
            for d in sorted({deg, deg - 1, max(n, 1), 0}):
                if d < 0:
                    continue
                c = 0.3
                fx = (x - c) ** d
                exact = (math.factorial(d) / math.factorial(d - n)) * (x - c) ** (d - n) if d >= n else np.zeros(N)
                try:
                    du = fd_derivative(fx, x, n, m)
                except Exception as e:
                    bad.append(dict(N=N, grid=gname, degree=d, raised=repr(e)))
                    continue
                if du.shape != (N,):
                    bad.append(dict(N=N, grid=gname, degree=d, shape=du.shape)); continue
                # conditioning-scaled tolerance: exact weights of the widest stencil
                h = np.min(np.abs(np.diff(x)))
                tol = 1e-6 * (1 + np.max(np.abs(fx))) / h ** n * 4.0 ** mm
                err = np.max(np.abs(du - exact))
                if not err <= tol:
                    k = int(np.argmax(np.abs(du - exact)))
                    bad.append(dict(N=N, grid=gname, degree=d, index=k, got=float(du[k]), expected=float(exact[k]), tol=tol))
    return dict(reproduced=bool(bad), failing=bad[:4], statement='fd_derivative exact on polynomials of degree <= 2*(n//2+m) at every grid point')


@reg('C16.guards')
def c16_guards(case):
    from numdifftools.fornberg import fd_derivative
    bad = []
    for args in [(np.arange(3.0), np.arange(3.0), 3, 1), (np.arange(5.0), np.arange(6.0), 1, 1), (np.arange(2.0), np.arange(2.0), 2, 2)]:
        try:
            fd_derivative(*args)
            bad.append(str([len(args[0]), len(args[1]), args[2], args[3]]))
        except ValueError:
            pass
        except Exception as e:
            bad.append(repr(e))
    return dict(reproduced=bool(bad), failing=bad)


@reg('C15.intnodes')
def intnodes(case):
    import numdifftools.fornberg as fb
    from ndvc.concrete import fd_weights_integer_cases
    cnt, bad = fd_weights_integer_cases(fb)
    return dict(reproduced=bool(bad), failing=bad[:3], cases=cnt, statement='weights for integer-typed nodes == weights for the same nodes as floats')


@reg('C15.held')
def held(case):
    """tables returned earlier must not change when the function is called again"""
    import numdifftools.fornberg as fb
    bad = []
    for m, n in [(3, 1), (4, 2), (5, 1)]:
        xs = np.linspace(-1.0, 1.0, m) ** 3 + np.linspace(0, 0.3, m)
        ys = xs[::-1] * 1.7 + 0.1
        W1 = fb.fd_weights_all(xs, 0.1, n); keep = np.array(W1, copy=True)
        r1 = fb.fd_weights(xs, 0.1, n); keep_r = np.array(r1, copy=True)
        fb.fd_weights_all(ys, -0.2, n); fb.fd_weights(ys, -0.2, n)
        if not (np.array_equal(W1, keep) and np.array_equal(r1, keep_r)):
            bad.append(dict(m=m, n=n, table_before=keep.tolist(), same_table_after_another_call=np.asarray(W1).tolist()))
    return dict(reproduced=bool(bad), failing=bad[:2], statement='a weight table held by the caller is unchanged by later calls')


@reg('C16.grids')
def c16_grids(case):
    from numdifftools.fornberg import fd_derivative
    from ndvc.concrete import fd_derivative_grid_cases
    cnt, bad = fd_derivative_grid_cases(fd_derivative)
    return dict(reproduced=bool(bad), failing=bad[:3], cases=cnt, statement='fd_derivative exact on polynomials of degree 2*(n//2+m) on every strictly monotone grid')


@reg('C15.history')
def c15_history(case):
    import numdifftools.fornberg as fb
    from ndvc.concrete import fd_weights_history_cases
    cnt, bad = fd_weights_history_cases(fb)
    return dict(reproduced=bool(bad), failing=bad[:3], calls=cnt,
                statement='every call in a sequence returns the exact Lagrange-derivative weights of the nodes it was given')


@reg('C15.exactw')
def exactw(case):
    import numdifftools.fornberg as fb
    from ndvc.concrete import fd_weights_exact_cases
    cnt, bad = fd_weights_exact_cases(fb)
    return dict(reproduced=bool(bad), failing=bad[:3], cases=cnt, statement='fd_weights_all / fd_weights == exact rational Lagrange weights')
