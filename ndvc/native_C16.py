"""native replays for C16 live in native_C15 (shared exact-weights helper)"""
from ndvc.native_C15 import *  # noqa: F401,F403
