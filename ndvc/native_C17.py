"""native replays for C17 (run under /venv/bin/python against the real code)"""
import math
import warnings
import numpy as np
from ndvc.native import reg


@reg('C17.taylor')
def taylor_replay(case):
    from numdifftools import fornberg as fb
    bad = []
    with warnings.catch_warnings():
        warnings.simplefilter('ignore')
        # polynomials of degree < 8
        a = np.array([1.5 - 0.5j, 0.7, -0.4 + 0.2j, 0.9, -0.3, 0.2j, 0.1, -0.25])
        for z0 in (0.0, 0.3 + 0.1j, -0.6):
            f = lambda z: sum(a[j] * (z - z0) ** j for j in range(8))
            c, info = fb.taylor(f, z0, n=6, full_output=True)
            if len(c) < 7 or not np.allclose(c[:8], a, atol=1e-9):
                bad.append(dict(what='polynomial coefficients', z0=str(z0), got=str(c[:4]), expected=str(a[:4])))
        # derivative == coefficients * k!, errors scaled alike, for n up to 40
        for n in (3, 6, 13, 25, 30, 40):
            f = lambda z: np.exp(0.8 * z)
            c, ci = fb.taylor(f, 0.1, n=n, full_output=True)
            d, di = fb.derivative(f, 0.1, n=n, full_output=True)
            m = len(c)
            fact = np.array([float(math.factorial(k)) for k in range(m)])
            if len(c) < n + 1 or not np.allclose(d, c * fact, rtol=1e-12, atol=0) or not np.allclose(di.error_estimate, ci.error_estimate * fact, rtol=1e-12, atol=0):
                k = int(np.argmax(np.abs(d - c * fact) / (np.abs(c * fact) + 1e-300)))
                bad.append(dict(what='derivative != coefficient * k!', n=n, k=k, got=str(d[k]), expected=str(c[k] * fact[k])))
            if tuple(di[1:]) != tuple(ci[1:]):
                bad.append(dict(what='status fields changed by derivative()', n=n))
        # reused object == fresh object
        for f in (np.exp, np.cos, lambda z: np.log(2.5 + z)):
            T = fb.Taylor(f, n=6, full_output=True)
            for z0 in (0.0, 0.3, 0.1j, 0.7 + 0.2j, -0.4, 0.5j, 0.2):
                c1, i1 = T(z0)
                c2, i2 = fb.Taylor(f, n=6, full_output=True)(z0)
                if not (np.array_equal(c1, c2) and i1.failed == i2.failed and i1.degenerate == i2.degenerate):
                    bad.append(dict(what='reused Taylor object differs from a fresh one', z0=str(z0), failed=(i1.failed, i2.failed), degenerate=(i1.degenerate, i2.degenerate)))
                    break
        # `failed` is set exactly when the iteration cap was reached
        for f, n in ((np.exp, 6), (lambda z: 1.0 / (2.0 - z), 8), (np.exp, 20)):
            need = fb.taylor(f, 0.0, n=n, max_iter=200, min_iter=15, full_output=True)[1].iterations
            for cap in sorted({max(need - 3, 1), need, need + 3}):
                info = fb.taylor(f, 0.0, n=n, max_iter=cap, min_iter=15, full_output=True)[1]      # same min_iter: the search itself is the same
                want = cap <= need
                if bool(info.failed) != want:
                    bad.append(dict(what='failed flag', n=n, iterations_needed=int(need), max_iter=cap, failed=bool(info.failed), expected=want))
        # documented defaults
        for mi in (4, 30, 31, 60, 200):
            t = fb.Taylor(np.exp, max_iter=mi)
            if t.min_iter != mi // 2:
                bad.append(dict(what='Taylor(max_iter=%d).min_iter' % mi, got=t.min_iter, expected=mi // 2))
        # error estimate with exactly five radii: must bound the actual error of the returned coefficients
        m = 16
        true = 0.5 ** (np.arange(m) + 1.0)
        for r0 in (0.2, 0.35, 0.5):
            rs = [r0 * 1.3 ** i for i in range(5)]
            bs, mx = [], []
            for r in rs:
                fz = 1.0 / (2.0 - fb._circle(0.0, r, m))
                bn = np.fft.fft(fz) / m
                bs.append(bn * np.power(r, -np.arange(m, dtype=float)))
                mx.append(np.max(np.abs(bn)))
            coefs, errors = fb._get_best_taylor_coefficients(bs, rs, m, lambda: max(mx))
            miss = np.abs(coefs - true)[:m // 2]
            bound = 10 * np.abs(errors)[:m // 2] + 1e-14
            if np.any(miss > bound):
                k = int(np.argmax(miss / bound))
                bad.append(dict(what='five radii: coefficient error exceeds 10 x reported error', radii=rs, k=k, coefficient=str(coefs[k]),
                                true=float(true[k]), actual_error=float(miss[k]), reported_error=float(np.abs(errors)[k])))
        for n in range(1, 193):
            mm = int(fb._num_taylor_coefficients(n))
            if not (mm >= n + 1 and mm & (mm - 1) == 0):
                bad.append(dict(what='number of coefficients', n=n, m=mm)); break
    return dict(reproduced=bool(bad), failing=bad[:4])


@reg('C17.tconc')
def tconc(case):
    import numdifftools.fornberg as fb
    from ndvc.concrete import taylor_cases
    from ndvc.concrete import taylor_hard_cases
    res = dict(taylor_cases(fb)); res.update(taylor_hard_cases(fb))
    want = case.get('name')
    bad = [dict(case=k, **(v[1] or {})) for k, v in sorted(res.items()) if not v[0] and (want is None or k == want)]
    return dict(reproduced=bool(bad), failing=bad[:4], statement='taylor: n+1 coefficients, not degenerate/failed with defaults, error within 100 x estimate + 100 x floor')


@reg('C17.stages')
def stages(case):
    """_get_best_taylor_coefficients for 3..9 radii: returns (never raises); with fewer than three extrapolants the last extrapolant
    and the rounding floor, otherwise values selected from dea3 of the extrapolants; then the property-level replay"""
    import numdifftools.fornberg as fb
    rng = np.random.default_rng(3)
    m = 8
    bad = []
    for nk in range(3, 10):
        rs = list(0.5 * 1.3 ** np.arange(nk))
        bs = [rng.normal(size=m) + 1j * rng.normal(size=m) for _ in range(nk)]
        try:
            with warnings.catch_warnings():
                warnings.simplefilter('ignore')
                coefs, errors = fb._get_best_taylor_coefficients(bs, rs, m, lambda: 1.0)
        except Exception as e:
            bad.append(dict(radii=nk, extrapolants=nk - 2, raised=repr(e)[:120])); continue
        ext = fb._extrapolate(bs, rs, m)
        if np.shape(coefs) != (m,) or np.shape(errors) != (m,):
            bad.append(dict(radii=nk, shapes=(np.shape(coefs), np.shape(errors))))
        elif nk - 2 < 3 and not np.array_equal(coefs, ext[-1]):
            bad.append(dict(radii=nk, problem='fewer than three extrapolants: the last extrapolant is not what is returned'))
    if not bad:
        return taylor_replay(dict(group='acceleration-stages'))
    return dict(reproduced=bool(bad), failing=bad[:3])


@reg('C17.alias')
def alias(case):
    """the two Richardson sweeps remove the aliasing terms a r^m + b r^2m of geometrically spaced circles (exact rational data)"""
    from fractions import Fraction as F
    import numdifftools.fornberg as fb
    bad = []
    for m in (8, 16):
        for ratio in (F(8, 5), F(13, 10)):
            rs = [F(1, 2) * ratio ** k for k in range(5)]
            L = np.array([F(3), F(-2)], dtype=object); a = np.array([F(5), F(7)], dtype=object); b = np.array([F(-4), F(9)], dtype=object)
            bs = [L + a * r ** m + b * r ** (2 * m) for r in rs]
            ext = fb._extrapolate(bs, rs, m)
            dev = max(abs(float(v) - float(l)) for row in ext for v, l in zip(row, L))
            if len(ext) != len(rs) - 2 or not dev <= 1e-9:
                bad.append(dict(m=m, ratio=str(ratio), extrapolants=[[float(v) for v in row] for row in ext][:2], expected=[float(l) for l in L], max_deviation=dev))
    if not bad:
        return taylor_replay(dict(group='aliasing-removed'))
    return dict(reproduced=bool(bad), failing=bad[:3])
