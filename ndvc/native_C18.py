"""native replays for C18 (run under /venv/bin/python against the real code)"""
import warnings
import numpy as np
from ndvc.native import reg


@reg('C18.limit')
def limit(case):
    from numdifftools.limits import Limit
    bad = []
    with warnings.catch_warnings():
        warnings.simplefilter('ignore')
        for order in sorted({case.get('order', 4), 2, 4}):
            c = np.array([1.5 - 0.5j, 0.7, -0.4 + 0.2j, 0.9, -0.3, 0.2j, 0.1, -0.25, 0.6, 0.3])[:order + 2]
            for z0 in (0.3, 0.3 + 0.4j, np.array([0.3, -1.2 + 0.5j])):
                for method in ('above', 'below'):
                    for path in ('radial', 'spiral'):
                        f = lambda z, z0=z0: sum(c[j] * (z - z0) ** j for j in range(len(c)))
                        try:
                            v, info = Limit(f, method=method, order=order, path=path, full_output=True).limit(z0)
                        except Exception as e:
                            bad.append(dict(order=order, method=method, path=path, raised=repr(e)[:100])); continue
                        if not np.all(np.abs(v - c[0]) <= 1e-8) or not np.all(np.isreal(info.error_estimate)) or not np.all(np.real(info.error_estimate) >= 0):
                            bad.append(dict(order=order, method=method, path=path, z0=str(z0), got=str(v), expected=str(c[0]), err=str(info.error_estimate)))
        # arrays with several axes in every memory layout: each point has its own limit g(z0[idx])
        Z = np.array([[0.3, -1.2, 2.0], [0.7, 1.1, -0.4]])
        g = lambda z: 2.0 + z + 0.5 * z * z
        # several points at once on a spiral path (complex Richardson weights): each point has its own limit
        zs = np.array([0.5, -1.0, 2.0])
        for method in ('above', 'below'):
            def fs(z):
                d = z - zs
                with np.errstate(all='ignore'):
                    return np.exp(z) * np.where(d == 0, 1.0, np.sin(d) / np.where(d == 0, 1.0, d))
            v = Limit(fs, path='spiral', method=method).limit(zs)
            if np.shape(v) != zs.shape or not np.allclose(v, np.exp(zs), rtol=1e-7, atol=1e-8):
                bad.append(dict(path='spiral', method=method, z0=zs.tolist(), got=str(np.asarray(v).tolist()), expected=np.exp(zs).tolist()))
        for name, z0 in [('C', Z), ('F', np.asfortranarray(Z)), ('transposed-view', np.ascontiguousarray(Z.T).T)]:
            def f(z, z0=z0):
                d = z - z0
                with np.errstate(all='ignore'):
                    return g(z) * np.where(d == 0, 1.0, np.sin(d) / np.where(d == 0, 1.0, d))
            v = Limit(f, full_output=False).limit(z0)
            if np.shape(v) != Z.shape or not np.allclose(v, g(Z), rtol=1e-7, atol=1e-7):
                bad.append(dict(z0_layout=name, z0=Z.tolist(), got=np.asarray(v).tolist(), expected=g(Z).tolist()))
    import numdifftools.limits as lm_
    from ndvc.concrete import limit_kwargs_cases
    bad += limit_kwargs_cases(lm_)[1]
    return dict(reproduced=bool(bad), failing=bad[:4], statement='Limit of a polynomial kernel of degree <= order+1 is its constant term')


@reg('C18.residue')
def residue(case):
    from numdifftools.limits import Residue
    bad = []
    with warnings.catch_warnings():
        warnings.simplefilter('ignore')
        for p in sorted({case.get('pole_order', 1), 1, 2, 3}):
            for order in (None, p + 1, p + 3):
                eff = order if order else p + 2
                g = np.array([1.5 - 0.5j, -0.7, 0.4, 0.9, -0.3, 0.2, 0.1, -0.25, 0.6, 0.3])[:eff + 2]
                for z0 in (0.3, 0.3 + 0.4j, 0.0):
                    for method in ('above', 'below'):
                        for path in ('radial', 'spiral'):
                            f = lambda z: sum(g[j] * (z - z0) ** j for j in range(len(g))) / (z - z0) ** p
                            try:
                                v, info = Residue(f, pole_order=p, order=order, method=method, path=path, full_output=True)(z0)
                            except Exception as e:
                                bad.append(dict(p=p, order=order, method=method, path=path, raised=repr(e)[:100])); continue
                            if not abs(v - g[0]) <= 1e-7:
                                bad.append(dict(pole_order=p, order=order, method=method, path=path, z0=str(z0), got=str(v), expected=str(g[0])))
    import numdifftools.limits as lm_
    from ndvc.concrete import limit_kwargs_cases
    bad += limit_kwargs_cases(lm_)[1]
    return dict(reproduced=bool(bad), failing=bad[:4], statement='Residue of g(z)/(z-z0)^p is g(z0)')


@reg('C18.nan')
def nan(case):
    from numdifftools.limits import Limit
    bad = []
    with warnings.catch_warnings():
        warnings.simplefilter('ignore')
        pts = np.array([0.5, 1.0, -2.0, 0.25, 3.0, -1.0])
        for sing in ([1], [1, 4], [0, 5], [2, 3], [0, 2, 5]):
            zs = pts[sing]

            def f(z):
                out = np.exp(z).astype(float)
                for s in zs:
                    out = out * np.where(z == s, np.nan, 1.0) if False else out
                k = np.ones_like(z, dtype=float)
                for i, s in enumerate(zs):
                    k = k * np.where(np.isclose(z, s), 1.0, 1.0)
                # f(z) = exp(z) * prod_s sin(z - s)/(z - s): removable singularities with limit exp(s) * prod_{t != s} sin(s-t)/(s-t)
                val = np.exp(z)
                for s in zs:
                    val = val * np.sin(z - s) / (z - s)
                return val
            want = f(pts + 0.0)
            for s_i, s in zip(sing, zs):
                lim = np.exp(s)
                for t in zs:
                    if t != s:
                        lim *= np.sin(s - t) / (s - t)
                want[s_i] = lim
            v, info = Limit(f, full_output=True)(pts)
            reg_ = [i for i in range(len(pts)) if i not in sing]
            fz = f(pts)
            if not np.array_equal(v[reg_], fz[reg_]):
                bad.append(dict(singular=sing, problem='regular points changed'))
            if not np.allclose(v[sing], want[sing], rtol=1e-8, atol=1e-10):
                bad.append(dict(singular=sing, got=v[sing].tolist(), expected=want[sing].tolist()))
            if np.any(info.error_estimate[reg_] != 0):
                bad.append(dict(singular=sing, problem='non-zero error at a regular point'))
    return dict(reproduced=bool(bad), failing=bad[:4], statement='Limit replaces only NaN entries, each by its own limit')


@reg('C18.lconc')
def lconc(case):
    import numdifftools.limits as lm
    from ndvc.concrete import limit_cases
    cnt, bad = limit_cases(lm)
    return dict(reproduced=bool(bad), failing=bad[:3], cases=cnt, statement='Limit / Residue recover g(z0) on concrete kernels')
