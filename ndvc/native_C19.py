"""native replay for C19: the wrapper against the real scipy (affine maps, extra arguments, boxes incl. half-open)"""
import numpy as np
from ndvc.native import reg


@reg('C19.wrapper')
def wrapper(case):
    import numdifftools.nd_scipy as ns
    rng = np.random.default_rng(0)
    bad = []
    for trial in range(30):
        n = int(rng.integers(1, 7)); m = int(rng.integers(1, 6))
        A = rng.normal(size=(m, n)); b = rng.normal(size=m)
        x = np.abs(rng.normal(size=n)) + 0.1
        pts = []

        def f(z, shift=0.0, scale=1.0):
            pts.append(np.array(z, dtype=complex).real.copy())
            return scale * (A @ z) + b + shift
        for method in ('central', 'forward', 'complex'):
            try:
                J = ns.Jacobian(f, method=method)(x, 0.5, scale=2.0)
                tol = 1e-12 if method == 'complex' else 1e-5
                if m == 1:
                    J = np.atleast_2d(J)      # known finding F10: single-output Jacobians come back raveled
                if J.shape != (m, n) or not np.allclose(J, 2.0 * A, rtol=tol, atol=tol):
                    bad.append(dict(what='Jacobian value/shape', method=method, m=m, n=n))
                g = ns.Gradient(lambda z, c=1.0, shift=0.0: c * np.sum(A[0] * z.ravel()) + shift, method=method)(x, 3.0, shift=2.0)
                g2 = ns.Gradient(lambda z, c=1.0: c * np.sum(A[0] * z.ravel()), method=method)(x, c=3.0)
                if np.shape(g) != (() if n == 1 else (n,)) or not np.allclose(g, 3.0 * A[0], rtol=1e-5, atol=1e-5) \
                        or not np.allclose(g2, 3.0 * A[0], rtol=1e-5, atol=1e-5):
                    bad.append(dict(what='Gradient value/shape/extra arguments', method=method, n=n, got=np.asarray(g2).tolist(), expected=(3.0 * A[0]).tolist()))
            except Exception as e:
                bad.append(dict(what='raised', method=method, error=repr(e)[:120]))
                continue
            for bounds in [(np.zeros(n), np.inf), (-np.inf, x + 1e-9), (x.copy(), x + 1.0), (x - 1.0, x.copy())]:
                if method == 'complex':
                    continue
                del pts[:]
                try:
                    ns.Jacobian(f, method=method, bounds=bounds)(np.where(np.isfinite(np.broadcast_to(bounds[0], x.shape)),
                                                                          np.maximum(x, np.broadcast_to(bounds[0], x.shape)), x))
                except Exception as e:
                    bad.append(dict(what='a point inside the box was rejected', method=method, n=n, bounds=str(bounds)[:80], x=x.tolist(), error=repr(e)[:100]))
                    continue
                lb, ub = np.broadcast_to(bounds[0], x.shape), np.broadcast_to(bounds[1], x.shape)
                if any(np.any(p < lb - 1e-15) or np.any(p > ub + 1e-15) for p in pts):
                    bad.append(dict(what='evaluation outside the box', method=method, bounds=str(bounds)[:80]))
    # default step: accuracy must not collapse for coordinates much smaller than 1 (scipy scales its default step by max(1, |x|))
    for method, tol in (('central', 1e-7), ('forward', 1e-5)):
        xs = np.array([1e-6, 2.0, -1e-9])
        J = ns.Jacobian(lambda z: np.exp(3 * z), method=method)(xs)
        want = np.diag(3 * np.exp(3 * xs))
        if not np.allclose(J, want, rtol=tol, atol=tol):
            bad.append(dict(what='default step at small |x|', method=method, x=xs.tolist(), got=np.diag(J).tolist(), expected=np.diag(want).tolist()))
    # one object called several times: every call differentiates f(x, <that call's extra arguments>)
    w = np.array([1.0, -2.0, 0.5])
    for klass, f in (('Jacobian', lambda z, c=1.0, shift=0.0: c * w * z + shift), ('Gradient', lambda z, c=1.0, shift=0.0: c * np.sum(w * z * z) + shift)):
        for method in ('central', 'forward', 'complex'):
            obj = getattr(ns, klass)(f, method=method)
            x = np.array([0.3, 1.1, -0.7])
            want = (lambda c: np.diag(c * w)) if klass == 'Jacobian' else (lambda c: 2 * c * w * x)
            for call, c in (((x, 3.0), 3.0), ((x,), 1.0), ((x, 2.0), 2.0)):
                got = obj(*call)
                if not np.allclose(got, want(c), rtol=1e-5, atol=1e-6):
                    bad.append(dict(what='%s object re-used: call %d arguments' % (klass, len(call) - 1), method=method, extra_args=call[1:], got=np.asarray(got).tolist(),
                                    expected=np.asarray(want(c)).tolist()))
    # the caller updates x in place between two calls of the same object (an optimisation loop): the second call is a derivative at
    # the NEW point
    for klass, f, dfun in (('Jacobian', lambda z: np.array([z[0] ** 2 + z[1], np.exp(0.5 * z[0]) * z[1]]),
                            lambda z: np.array([[2 * z[0], 1.0], [0.5 * np.exp(0.5 * z[0]) * z[1], np.exp(0.5 * z[0])]])),
                           ('Gradient', lambda z: z[0] ** 2 * z[1] + np.sin(z[1]), lambda z: np.array([2 * z[0] * z[1], z[0] ** 2 + np.cos(z[1])]))):
        for method in ('forward', 'central', 'complex'):
            obj = getattr(ns, klass)(f, method=method)
            xx = np.array([0.5, 1.5])
            obj(xx)
            xx += np.array([0.25, -0.5])
            got = obj(xx)
            if not np.allclose(got, dfun(xx), rtol=1e-5, atol=1e-5):
                bad.append(dict(what='%s object called again after x was updated in place' % klass, method=method, x=xx.tolist(), got=np.asarray(got).tolist(), expected=dfun(xx).tolist()))
    # the method attribute is read at the time of the call: an object built for one method and switched to another behaves like a
    # fresh object of the new method
    for klass, f in (('Jacobian', lambda z: np.array([np.abs(z[0]) * z[1], z[0] + 3.0 * z[1]])), ('Gradient', lambda z: np.abs(z[0]) * z[1] + z[1] ** 2)):
        xx = np.array([0.5, 1.5])
        for m0, m1 in (('complex', 'central'), ('forward', 'complex'), ('central', 'forward')):
            seen = []
            g = lambda z: (seen.append(np.iscomplexobj(z)), f(z))[1]
            obj = getattr(ns, klass)(g, method=m0)
            obj.method = m1
            got = obj(xx)
            used_complex = any(seen)
            fresh = getattr(ns, klass)(f, method=m1)(xx)
            if used_complex != (m1 == 'complex') or not np.array_equal(np.asarray(got), np.asarray(fresh)):
                bad.append(dict(what='%s built with method=%r, then obj.method = %r' % (klass, m0, m1), evaluated_at_complex_points=bool(used_complex),
                                got=np.asarray(got).tolist(), fresh_object_of_the_new_method=np.asarray(fresh).tolist()))
    # array bounds for every number of variables (two variables included): evaluation stays in the box, feasible points are accepted
    for n in (1, 2, 3, 4):
        lo = np.arange(n, dtype=float); hi = lo + 1.0 + 0.5 * np.arange(n)
        for xs in (0.5 * (lo + hi), lo.copy(), hi.copy()):
            for method in ('central', 'forward'):
                seen = []
                try:
                    ns.Jacobian(lambda z: (seen.append(np.array(z, dtype=float)), np.cumsum(z) ** 2)[1], method=method, bounds=(lo, hi))(xs)
                except Exception as e:
                    bad.append(dict(what='feasible point rejected with array bounds', n=n, method=method, lower=lo.tolist(), upper=hi.tolist(), x=xs.tolist(), error=repr(e)[:100])); continue
                if any(np.any(p < lo - 1e-15) or np.any(p > hi + 1e-15) for p in seen):
                    bad.append(dict(what='evaluation outside the box (array bounds)', n=n, method=method, lower=lo.tolist(), upper=hi.tolist(), x=xs.tolist()))
    # Gradient of an x with several axes: variables in index order for every memory layout
    wm = np.arange(1.0, 7.0).reshape(2, 3)
    X = np.array([[0.3, -1.2, 2.0], [0.7, 1.1, -0.4]])
    for name, Xv in (('C', X), ('F', np.asfortranarray(X)), ('transposed-view', np.ascontiguousarray(X.T).T)):
        for method in ('central', 'complex'):
            g = ns.Gradient(lambda z: np.sum(wm.ravel() * np.ravel(z) ** 2), method=method)(Xv)
            if np.shape(g) != (6,) or not np.allclose(g, (2 * wm * X).ravel(), rtol=1e-5, atol=1e-6):
                bad.append(dict(what='Gradient of a 2-d x', layout=name, method=method, got=np.asarray(g).tolist(), expected=(2 * wm * X).ravel().tolist()))
    return dict(reproduced=bool(bad), failing=bad[:4])
