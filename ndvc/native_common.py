"""native replays shared by several properties"""
import warnings
import numpy as np
from ndvc.native import reg


def _poly3(x):
    return x[0] ** 2 * x[1] + 3 * x[0] * x[1] ** 2 + x[2] ** 3 + x[0] * x[2]


def _vec2(x):
    return np.array([x[0] * x[1], x[1] ** 2 + x[0], 2 * x[0] - x[1]])


def _scalar2(x):
    return x[0] ** 2 * x[1] + 3 * x[1]


def _cubic(x):
    return x ** 3 - 2 * x ** 2 + 5 * x


@reg('common.intx')
def intx(case):
    import numdifftools as nd
    K = getattr(nd, case['klass'])
    kw = {}
    if case.get('n'):
        kw['n'] = case['n']
    if case['f'] == 'poly3':
        fs, xs = [_poly3], [[1, 2, 3], np.array([2, 1, 4]), np.array([1, -2, 3], dtype=np.int32)]
    elif case['f'] == 'vec2':
        fs, xs = ([_scalar2] if case['klass'] == 'Gradient' else [_vec2, _scalar2]), [[1, 2], np.array([3, 1]), np.array([-2, 5], dtype=np.int32)]
    else:
        fs, xs = [_cubic], [3, np.int64(-2), np.array([1, 2, 5]), np.array([[1, -3], [2, 4]], dtype=np.int32)]
    bad = []
    for f in fs:
        for x in xs:
            xf = np.asarray(x, dtype=float) if np.ndim(x) else float(x)
            with warnings.catch_warnings():
                warnings.simplefilter('ignore')
                try:
                    a = np.asarray(K(f, method=case['method'], **kw)(x)); b = np.asarray(K(f, method=case['method'], **kw)(xf))
                except Exception as e:
                    bad.append(dict(x=np.asarray(x).tolist(), error=repr(e)[:200])); continue
            scale = max(1.0, float(np.max(np.abs(b))))
            if a.shape != b.shape or not np.allclose(a, b, rtol=1e-7, atol=1e-7 * scale):
                bad.append(dict(f=f.__name__, x=np.asarray(x).tolist(), x_dtype=str(np.asarray(x).dtype), with_int_x=a.tolist(), with_float_x=b.tolist()))
    return dict(reproduced=bool(bad), failing=bad[:3],
                statement='%s(f, method=%r)(integer-typed x) == the same with x as floats' % (case['klass'], case['method']))


@reg('common.defaults')
def defaults(case):
    from ndvc.concrete import default_argument_mismatches
    bad = default_argument_mismatches(case.get('keys'))
    return dict(reproduced=bool(bad), failing=[dict(entry_point=k, argument=a, default_found=g, documented=w) for k, a, g, w in bad][:5],
                statement='default arguments of the public entry points == the documented defaults')
