"""ndvc.overlay -- namespace overlays: the bindings the repo modules use to reach numpy / scipy / builtins
are replaced, for a verification run, by symbolic-aware versions.  On concrete arguments every override
returns exactly what the original returns (overlay conformance: the repository's own tests pass with the
overlays installed).  The overridden set is finite and is listed in OVERRIDES (reported in evidence)."""
import builtins
import contextlib
import math
import warnings
from fractions import Fraction
import numpy as np
import z3
from .sym import R, C, Z, B, SYM, lift, lb, ite, is_sym, NeedsConcrete, CTX, SQRT, UF1, POW, uf, _and, dfn_of
from .arr import SymArr, wrap, asobj, emap, select, IdxSet, FlatView

OVERRIDES = []


def _ov(f):
    OVERRIDES.append(f.__name__)
    return f


class _NoCtx(object):
    def __init__(self, *a, **k):
        pass

    def __enter__(self):
        return self

    def __exit__(self, *a):
        return False


def _dt(dtype):
    """the builtins overlay replaces `float`/`int` in the repo modules; map them back when used as dtypes"""
    if dtype is vc_float:
        return float
    if dtype is vc_int:
        return int
    return dtype


def _cast(arr, dtype):
    """dtype conversion of a symbolic array: a cast to a real floating type discards imaginary parts (numpy semantics, with a
    ComplexWarning); a cast to an integer type truncates -- not expressible, so it needs concrete data"""
    dtype = _dt(dtype)
    if dtype is None or dtype is object:
        return arr
    try:
        kind = np.dtype(dtype).kind
    except TypeError:
        return arr
    if kind == 'f':
        if builtins.any(isinstance(lift(v), C) for v in asobj(arr).ravel() if v is not None):
            return emap(lambda v: lift(v).re if isinstance(lift(v), C) else v, arr)
        return arr
    if kind in 'iu' and builtins.any(isinstance(v, (R, C)) for v in asobj(arr).ravel()):
        raise NeedsConcrete('cast of a symbolic value to an integer dtype')
    return arr


class NpProxy(object):
    """stands in for the `np` global of a repo module"""

    pi = np.pi

    def __init__(self, **extra):
        for k, v in extra.items():
            setattr(self, k, v)

    def __getattr__(self, k):
        v = getattr(np, k)
        if callable(v) and not isinstance(v, type):
            def fwd(*a, **kw):
                a = tuple(_dt(x) for x in a)
                if 'dtype' in kw:
                    kw['dtype'] = _dt(kw['dtype'])
                if any(is_sym(x) for x in a) or any(is_sym(x) for x in kw.values()):
                    kw.pop('dtype', None) if 'dtype' in kw and kw['dtype'] is not object else None
                    return wrap(v(*a, **kw))
                return v(*a, **kw)
            fwd.__name__ = k
            return fwd
        return v

    # ---- constructors
    # symbolic_alloc: in verification runs freshly allocated float/complex arrays are object arrays (they will
    # receive symbolic values); integer / bool allocations stay concrete.  Off in overlay-conformance runs.
    symbolic_alloc = True

    def _symalloc(self, dtype):
        if dtype is object:
            return True
        if not self.symbolic_alloc:
            return False
        try:
            return np.dtype(dtype).kind in 'fc'
        except TypeError:
            return False

    @_ov
    def zeros(self, shape, dtype=float, **kw):
        dtype = _dt(dtype)
        if self._symalloc(dtype):
            a = np.empty(shape, dtype=object); a[...] = 0.0
            return a.view(SymArr)
        return np.zeros(shape, dtype, **kw)

    @_ov
    def ones(self, shape, dtype=float, **kw):
        dtype = _dt(dtype)
        if self._symalloc(dtype):
            a = np.empty(shape, dtype=object); a[...] = 1.0
            return a.view(SymArr)
        return np.ones(shape, dtype, **kw)

    @_ov
    def empty(self, shape, dtype=float, **kw):
        dtype = _dt(dtype)
        if self._symalloc(dtype):
            a = np.empty(shape, dtype=object); a[...] = None
            return a.view(SymArr)
        return np.empty(shape, dtype, **kw)

    @_ov
    def zeros_like(self, a, dtype=None, **kw):
        if is_sym(a):
            out = np.empty(np.shape(a), dtype=object); out[...] = 0
            return out.view(SymArr)
        return np.zeros_like(a, dtype=_dt(dtype), **kw)

    @_ov
    def ones_like(self, a, dtype=None, **kw):
        if is_sym(a):
            out = np.empty(np.shape(a), dtype=object); out[...] = 1
            return out.view(SymArr)
        return np.ones_like(a, dtype=_dt(dtype), **kw)

    @_ov
    def full(self, shape, fill_value, **kw):
        if is_sym(fill_value):
            out = np.empty(shape, dtype=object)
            fv = asobj(fill_value)
            out[...] = fv if fv.shape != () else fv[()]
            return out.view(SymArr)
        return np.full(shape, fill_value, **kw)

    @_ov
    def array(self, a, dtype=None, **kw):
        if is_sym(a):
            return _cast(SymArr(a).copy(), dtype)
        return np.array(a, dtype=_dt(dtype), **kw)

    @_ov
    def asarray(self, a, dtype=None, **kw):
        if is_sym(a):
            return _cast(a if isinstance(a, SymArr) else SymArr(a), dtype)
        return np.asarray(a, dtype=_dt(dtype), **kw)

    @_ov
    def asanyarray(self, a, dtype=None, **kw):
        if is_sym(a):
            return _cast(a if isinstance(a, SymArr) else SymArr(a), dtype)
        return np.asanyarray(a, dtype=_dt(dtype), **kw)

    @_ov
    def atleast_1d(self, *a):
        out = [wrap(np.atleast_1d(asobj(v))) if is_sym(v) else np.atleast_1d(v) for v in a]
        return out if len(out) > 1 else out[0]

    @_ov
    def atleast_2d(self, *a):
        out = [wrap(np.atleast_2d(asobj(v))) if is_sym(v) else np.atleast_2d(v) for v in a]
        return out if len(out) > 1 else out[0]

    @_ov
    def broadcast_arrays(self, *a, **kw):
        if any(is_sym(v) for v in a):
            return [wrap(x) for x in np.broadcast_arrays(*[asobj(v) if is_sym(v) else v for v in a], subok=False)]
        return np.broadcast_arrays(*a, **kw)

    @_ov
    def vstack(self, seq, **kw):
        seq = list(seq)
        if any(is_sym(v) for v in seq):
            return wrap(np.vstack([asobj(v) for v in seq]))
        return np.vstack(seq, **kw)

    @_ov
    def hstack(self, seq, **kw):
        seq = list(seq)
        if any(is_sym(v) for v in seq):
            return wrap(np.hstack([asobj(v) for v in seq]))
        return np.hstack(seq, **kw)

    @_ov
    def ravel(self, a, **kw):
        if is_sym(a):
            return wrap(np.ravel(asobj(a), **kw))
        return np.ravel(a, **kw)

    @_ov
    def reshape(self, a, shape, **kw):
        if is_sym(a):
            return wrap(np.reshape(asobj(a), shape, **kw))
        return np.reshape(a, shape, **kw)

    @_ov
    def shape(self, a):
        if isinstance(a, SYM):
            return ()
        return np.shape(a)

    @_ov
    def size(self, a, axis=None):
        if isinstance(a, SYM):
            return 1
        return np.size(a, axis)

    @_ov
    def ndim(self, a):
        if isinstance(a, SYM):
            return 0
        return np.ndim(a)

    @_ov
    def result_type(self, *a):
        a = tuple(_dt(v) for v in a)
        if any(is_sym(v) for v in a) or any(v is object for v in a):
            return object
        return np.result_type(*a)

    # ---- predicates
    @_ov
    def iscomplexobj(self, a):
        if is_sym(a):
            return builtins.any(isinstance(v, C) for v in asobj(a).ravel())
        return np.iscomplexobj(a)

    @_ov
    def iscomplex(self, a):
        if is_sym(a):
            # numpy: iscomplex == (imag != 0), element-wise
            return emap(lambda v: (C.lift(v).im != 0) if isinstance(lift(v), C) else False, a)
        return np.iscomplex(a)

    @_ov
    def real_if_close(self, a, tol=100):
        if is_sym(a):
            # numpy: an array of complex type whose imaginary parts are ALL within tol machine epsilons of zero is returned as its
            # real part, otherwise unchanged -- the outcome is a data-dependent condition: decided by the path driver
            vals = [lift(v) for v in asobj(a).ravel()]
            ims = [v.im for v in vals if isinstance(v, C)]
            if not ims:
                return a
            bound = lift(Fraction(float(tol) * float(np.finfo(float).eps) if tol > 1 else float(tol)))
            cond = None
            for im in ims:
                c = builtins.abs(im) < bound
                cond = c if cond is None else B(z3.And(cond.t, c.t))
            if builtins.bool(cond):
                return emap(lambda v: lift(v).re if isinstance(lift(v), C) else v, a)
            return a
        return np.real_if_close(a, tol=tol)

    @_ov
    def isrealobj(self, a):
        return not self.iscomplexobj(a)

    @_ov
    def isnan(self, a):
        if is_sym(a):
            # A1: symbolic reals are never NaN; concrete float NaNs stored in an object array are
            ao = asobj(a)
            out = np.array([isinstance(v, (float, np.floating)) and v != v for v in ao.ravel()], dtype=bool).reshape(ao.shape)
            return out if ao.shape else bool(out)
        return np.isnan(a)

    @_ov
    def isfinite(self, a):
        if is_sym(a):
            return np.ones(np.shape(asobj(a)), dtype=bool) if np.shape(asobj(a)) else True
        return np.isfinite(a)

    @_ov
    def any(self, a, axis=None, **kw):
        if is_sym(a):
            return SymArr(a).any(axis=axis)
        return np.any(a, axis=axis, **kw)

    @_ov
    def all(self, a, axis=None, **kw):
        if is_sym(a):
            return SymArr(a).all(axis=axis)
        return np.all(a, axis=axis, **kw)

    # ---- element-wise numerics
    @_ov
    def abs(self, a, **kw):
        if is_sym(a):
            return emap(lambda v: builtins.abs(lift(v)), a)
        return np.abs(a, **kw)
    absolute = abs

    @_ov
    def maximum(self, a, b, **kw):
        if is_sym(a) or is_sym(b):
            return emap(lambda u, v: ite(lift(u) >= lift(v), u, v), a, b)
        return np.maximum(a, b, **kw)

    def _fold(self, a, axis, keepdims, pick):
        """max / min of symbolic entries as an If-chain (no path split): python's own comparisons would fork 2^n paths"""
        arr = asobj(a)
        if axis is None:
            flat = list(arr.ravel())
            r = flat[0]
            for v in flat[1:]:
                r = pick(r, v)
            return r if not keepdims else wrap(np.array(r, dtype=object).reshape((1,) * arr.ndim))
        moved = np.moveaxis(arr, axis, 0)
        out = np.empty(moved.shape[1:], dtype=object)
        for idx in np.ndindex(moved.shape[1:]):
            r = moved[(0,) + idx]
            for k in range(1, moved.shape[0]):
                r = pick(r, moved[(k,) + idx])
            out[idx] = r
        res = wrap(out) if out.shape else out[()]
        return wrap(np.expand_dims(asobj(res), axis)) if keepdims else res

    @_ov
    def max(self, a, axis=None, out=None, keepdims=False, **kw):
        if is_sym(a):
            return self._fold(a, axis, keepdims, lambda u, v: ite(lift(v) > lift(u), v, u))
        return np.max(a, axis=axis, keepdims=keepdims, **kw)
    amax = max

    @_ov
    def min(self, a, axis=None, out=None, keepdims=False, **kw):
        if is_sym(a):
            return self._fold(a, axis, keepdims, lambda u, v: ite(lift(v) < lift(u), v, u))
        return np.min(a, axis=axis, keepdims=keepdims, **kw)
    amin = min

    @_ov
    def sign(self, a, **kw):
        if is_sym(a):
            def one(v):
                v = lift(v)
                if isinstance(v, C):
                    raise NeedsConcrete('np.sign of a symbolic complex value')
                return ite(v > 0, R(1), ite(v < 0, R(-1), R(0)))
            return emap(one, a)
        return np.sign(a, **kw)

    @_ov
    def copysign(self, a, b, **kw):
        if is_sym(a) or is_sym(b):
            def one(u, v):
                u, v = lift(u), lift(v)
                if isinstance(u, C) or isinstance(v, C):
                    raise NeedsConcrete('np.copysign of a symbolic complex value')
                return ite(v >= 0, builtins.abs(u), -builtins.abs(u))     # A1: -0.0 is 0
            return emap(one, a, b)
        return np.copysign(a, b, **kw)

    @_ov
    def minimum(self, a, b, **kw):
        if is_sym(a) or is_sym(b):
            return emap(lambda u, v: ite(lift(u) <= lift(v), u, v), a, b)
        return np.minimum(a, b, **kw)

    @_ov
    def where(self, c, *ab):
        if not ab:
            if is_sym(c):
                raise NeedsConcrete('np.where(cond) with a symbolic condition')
            return np.where(c)
        a, b = ab
        if is_sym(c):
            return emap(lambda cc, u, v: ite(cc, u, v), c, a, b)
        if is_sym(a) or is_sym(b):
            c = np.asarray(c)
            return emap(lambda cc, u, v: u if cc else v, c, a, b)
        return np.where(c, a, b)

    @_ov
    def sqrt(self, a, **kw):
        if is_sym(a):
            return emap(lambda v: SQRT(lift(v)), a)
        if getattr(self, 'algebraic_sqrt', False) and isinstance(a, (int, float)) and not isinstance(a, bool):
            return SQRT(R(a))
        return np.sqrt(a, **kw)

    def _uf(name):
        def f(self, a, **kw):
            if is_sym(a):
                return emap(lambda v: UF1(name, lift(v)), a)
            return getattr(np, name)(a, **kw)
        f.__name__ = name
        OVERRIDES.append(name)
        return f
    for _n in ['log', 'exp', 'sin', 'cos', 'tan', 'sinh', 'cosh', 'tanh', 'expm1', 'log1p', 'arctan', 'arcsin',
               'log2', 'log10', 'exp2']:
        locals()[_n] = _uf(_n)
    del _n, _uf

    @_ov
    def power(self, a, b, **kw):
        if is_sym(a) or is_sym(b):
            return emap(lambda u, v: u ** v, a, b)
        return np.power(a, b, **kw)

    @_ov
    def real(self, a):
        if is_sym(a):
            return emap(lambda v: lift(v).real, a)
        return np.real(a)

    @_ov
    def imag(self, a):
        if is_sym(a):
            return emap(lambda v: lift(v).imag, a)
        return np.imag(a)

    @_ov
    def sum(self, a, axis=None, **kw):
        if is_sym(a):
            return SymArr(a).sum(axis=axis)
        return np.sum(a, axis=axis, **kw)

    @_ov
    def dot(self, a, b, **kw):
        if is_sym(a) or is_sym(b):
            r = np.dot(asobj(a), asobj(b))
            return wrap(r)
        return np.dot(a, b, **kw)

    @_ov
    def outer(self, a, b, out=None):
        if is_sym(a) or is_sym(b) or is_sym(out):
            r = np.multiply.outer(np.ravel(asobj(a)), np.ravel(asobj(b)))
            if out is not None:
                out[...] = r
                return out
            return wrap(r)
        return np.outer(a, b, out=out)

    @_ov
    def diag(self, a, k=0):
        if is_sym(a):
            a = asobj(a)
            if a.ndim == 1:
                n = a.shape[0]
                out = np.empty((n, n), dtype=object); out[...] = 0
                for i in range(n):
                    out[i, i] = a[i]
                return out.view(SymArr)
            return wrap(np.diag(a, k))
        return np.diag(a, k)

    @_ov
    def diff(self, a, n=1, axis=-1, **kw):
        if is_sym(a):
            a = asobj(a)
            assert n == 1
            sl1 = [slice(None)] * a.ndim; sl2 = [slice(None)] * a.ndim
            sl1[axis] = slice(1, None); sl2[axis] = slice(None, -1)
            return wrap(a[tuple(sl1)] - a[tuple(sl2)])
        return np.diff(a, n=n, axis=axis, **kw)

    @_ov
    def round(self, a, *k, **kw):
        if is_sym(a):
            # rounding to a number of decimals is an uninterpreted function of the value: nothing is known about it except
            # congruence, so an identity that needs round(v) == v is refuted (and decided by the native replay)
            d = k[0] if k else kw.get('decimals', 0)
            def one(v):
                v = lift(v)
                if isinstance(v, C):
                    return C(UF1('round%s' % d, v.re), UF1('round%s' % d, v.im))
                return UF1('round%s' % d, v)
            return emap(one, a)
        return np.round(a, *k, **kw)

    # ---- dependency contracts for reductions over the estimate table (exact index semantics; percentiles uninterpreted)
    @_ov
    def percentile(self, a, q, axis=None, **kw):
        if is_sym(a):
            return _percentile_contract(a, q, axis, 'pctl')
        return np.percentile(a, q, axis=axis, **kw)

    @_ov
    def nanpercentile(self, a, q, axis=None, **kw):
        if is_sym(a):
            return _percentile_contract(a, q, axis, 'pctl')   # NaN-free column => nanpercentile == percentile
        return np.nanpercentile(a, q, axis=axis, **kw)

    @_ov
    def nanargmin(self, a, axis=None):
        if is_sym(a):
            a = asobj(a); assert axis == 0 and a.ndim == 2
            K, N = a.shape
            res = np.empty(N, dtype=object)
            for c in range(N):
                col = [lift(a[k, c]) for k in range(K)]
                idx = z3.IntVal(K - 1)
                for k in range(K - 2, -1, -1):        # first index attaining the minimum
                    idx = z3.If(z3.And(*[col[k].t <= col[j].t for j in range(K)]), z3.IntVal(k), idx)
                res[c] = Z(idx)
            return res.view(SymArr)
        return np.nanargmin(a, axis=axis)

    @_ov
    def nanmin(self, a, axis=None, **kw):
        if is_sym(a):
            a = asobj(a); assert axis == 0 and a.ndim == 2
            K, N = a.shape
            out = np.empty(N, dtype=object)
            for c in range(N):
                m = lift(a[0, c])
                for k in range(1, K):
                    m = ite(lift(a[k, c]) < m, a[k, c], m)
                out[c] = m
            return out.view(SymArr)
        return np.nanmin(a, axis=axis, **kw)

    @_ov
    def flatnonzero(self, mask):
        if is_sym(mask):
            return IdxSet(list(asobj(mask).ravel()))
        return np.flatnonzero(mask)

    @_ov
    def ravel_multi_index(self, multi, shape, **kw):
        if any(is_sym(m) for m in multi):
            rows, cols = multi
            assert len(shape) == 2
            out = np.empty(len(cols), dtype=object)
            for k, (r, c) in enumerate(zip(asobj(rows).ravel(), np.asarray(cols).ravel())):
                out[k] = (r if isinstance(r, Z) else Z(int(r))) * int(shape[1]) + int(c)
            return out.view(SymArr)
        return np.ravel_multi_index(multi, shape, **kw)

    errstate = _NoCtx

    class _Linalg(object):
        def __getattr__(self, k):
            return getattr(np.linalg, k)

        def norm(self, a, *k, **kw):
            if is_sym(a):
                a = asobj(a)
                ord_ = k[0] if k else kw.get('ord')
                if a.ndim <= 1 and ord_ in (None, 2) or a.ndim == 2 and ord_ in (None, 'fro'):
                    # Euclidean / Frobenius norm: sqrt of the sum of squares (M6)
                    return SQRT(builtins.sum((lift(v) * lift(v) for v in a.ravel()), R(0)))
                # any other matrix / vector norm is NOT the Euclidean length: an uninterpreted value of the entries
                f = uf('norm[%s,%dd]' % (ord_, a.ndim), a.size)
                return R(f(*[lift(v).t for v in a.ravel()]))
            return np.linalg.norm(a, *k, **kw)

        def pinv(self, m, *k, **kw):
            return pinv_contract(m, np.linalg.pinv, k, kw)

        def inv(self, m, *k, **kw):
            # for the square non-singular matrices of the contract the inverse IS the pseudo-inverse (P.M == I)
            if is_sym(m) and (np.ndim(m) != 2 or np.shape(m)[0] != np.shape(m)[1]):
                raise NeedsConcrete('inv of a non-square symbolic matrix')
            return pinv_contract(m, np.linalg.inv, k, kw)
    linalg = _Linalg()


def _percentile_contract(a, q, axis, tag):
    """np.percentile(a, q, axis): precondition a real.  axis=0: per column c an uninterpreted function of that column
    only, with min <= p25 <= p50 <= p75 <= max.  axis=None: one uninterpreted function of ALL entries (the flattened
    array) -- so a reduction that lost its axis makes every column depend on every other one."""
    a = asobj(a)
    if builtins.any(isinstance(lift(v), C) for v in a.ravel()):
        # numpy raises TypeError("a must be an array of real numbers") for complex input
        raise TypeError('a must be an array of real numbers')
    if axis is None:
        allv = [lift(v).t for v in a.ravel()]
        outs = []
        prev = None
        for qq in q:
            f = uf('%s%d_flat%d' % (tag, int(qq), len(allv)), len(allv))
            p = f(*allv)
            CTX.facts.append(z3.And(z3.Or(*[p >= t for t in allv]), z3.Or(*[p <= t for t in allv])))
            if prev is not None:
                CTX.facts.append(prev <= p)
            prev = p
            outs.append(R(p))
        return outs
    if axis != 0 or a.ndim != 2:
        raise NeedsConcrete('percentile contract covers axis=0 on 2-d tables and axis=None')
    K, N = a.shape
    outs = []
    prev = [None] * N
    for qq in q:
        f = uf('%s%d_%d' % (tag, int(qq), K), K)
        row = np.empty(N, dtype=object)
        for c in range(N):
            col = [lift(a[k, c]).t for k in range(K)]
            p = f(*col)
            CTX.facts.append(z3.And(z3.Or(*[p >= t for t in col]), z3.Or(*[p <= t for t in col])))
            if prev[c] is not None:
                CTX.facts.append(prev[c] <= p)
            prev[c] = p
            row[c] = R(p)
        outs.append(row.view(SymArr))
    return outs


# ---------------------------------------------------------------- dependency contracts (scipy / numpy.linalg)
PINV_LOG = []
PINV_ARGS = []     # (args, kwargs) of every pinv call: the contract only covers the default cut-off


def pinv_contract(m, real_impl, args=(), kwargs=None):
    PINV_ARGS.append((tuple(args), dict(kwargs or {})))
    if PINV_EXACT[0] and isinstance(m, np.ndarray):
        ex = _exact_inverse(np.asarray(m, dtype=object)) if m.ndim == 2 and m.shape[0] == m.shape[1] else None
        if ex is not None:
            PINV_LOG.append((np.asarray(m, dtype=object), ex))
            return ex
    if isinstance(m, np.ndarray) and m.dtype == object and not builtins.any(isinstance(v, SYM) for v in m.ravel()):
        # an object array that only holds concrete numbers (allocated symbolically, filled concretely)
        m = np.asarray(m.tolist(), dtype=complex if builtins.any(isinstance(v, complex) for v in m.ravel()) else float)
    if not is_sym(m):
        return real_impl(m, *args, **(kwargs or {}))
    return _pinv_contract(m, real_impl)


PINV_EXACT = [False]     # when set: closed rational matrices are inverted exactly (an exact instance of the contract)


def _closed_fraction(v):
    """exact value of a closed entry: Fraction, or (Fraction, Fraction) for a complex one; None if not closed"""
    from fractions import Fraction
    if isinstance(v, C):
        a, b = _closed_fraction(v.re), _closed_fraction(v.im)
        return None if a is None or b is None else (a, b)
    if isinstance(v, R):
        t = z3.simplify(v.t)
        return t.as_fraction() if z3.is_rational_value(t) else None
    if isinstance(v, (int, np.integer)):
        return Fraction(int(v))
    if isinstance(v, (float, np.floating)):
        return Fraction(float(v))
    if isinstance(v, (complex, np.complexfloating)):
        return (Fraction(float(v.real)), Fraction(float(v.imag)))
    return None


def _exact_inverse(m):
    """exact inverse of a closed rational (real or complex) matrix (sympy, exact arithmetic): an exact instance of the
    pinv contract for non-singular M"""
    import sympy
    n = m.shape[0]
    vals = [[_closed_fraction(m[i, j]) for j in range(n)] for i in range(n)]
    if any(v is None for row in vals for v in row):
        return None
    cplx = any(isinstance(v, tuple) for row in vals for v in row)

    def sy(v):
        if isinstance(v, tuple):
            return sympy.Rational(v[0].numerator, v[0].denominator) + sympy.I * sympy.Rational(v[1].numerator, v[1].denominator)
        return sympy.Rational(v.numerator, v.denominator)
    M = sympy.Matrix(n, n, lambda i, j: sy(vals[i][j]))
    if M.det() == 0:
        return None
    Mi = M.inv()
    from fractions import Fraction
    out = np.empty((n, n), dtype=object)
    for i in range(n):
        for j in range(n):
            e = sympy.nsimplify(Mi[i, j]) if False else sympy.simplify(Mi[i, j])
            re_, im_ = sympy.re(e), sympy.im(e)
            fr = lambda q: Fraction(int(sympy.Rational(q).p), int(sympy.Rational(q).q))
            out[i, j] = C(R(fr(re_)), R(fr(im_))) if cplx else R(fr(re_))
    return out.view(SymArr)


def _pinv_contract(m, real_impl):
    """pinv of a square, non-singular matrix: fresh P with M.P = I and P.M = I (assumed; non-singularity becomes an
    explicit assumption of the caller's obligations).  Logged so the harness can use the hypotheses."""
    if not is_sym(m):
        return real_impl(m)
    m = asobj(m)
    n0, n1 = m.shape
    if n0 != n1:
        raise NeedsConcrete('pinv contract only covers square systems')
    if PINV_EXACT[0]:
        ex = _exact_inverse(m)
        if ex is not None:
            PINV_LOG.append((m, ex))
            return ex
    cplx = builtins.any(isinstance(lift(v), C) for v in m.ravel())
    k = len(PINV_LOG)
    P = np.empty((n0, n0), dtype=object)
    for i in range(n0):
        for j in range(n0):
            P[i, j] = C(z3.Real('P%d_%d_%d.re' % (k, i, j)), z3.Real('P%d_%d_%d.im' % (k, i, j))) if cplx \
                else R(z3.Real('P%d_%d_%d' % (k, i, j)))
    PINV_LOG.append((m, P))
    return P.view(SymArr)


class LinalgProxy(object):
    def __init__(self, real_mod):
        self._m = real_mod

    def __getattr__(self, k):
        return getattr(self._m, k)

    def pinv(self, m, *a, **k):
        return pinv_contract(m, self._m.pinv, a, k)

    def inv(self, m, *a, **k):
        if is_sym(m) and (np.ndim(m) != 2 or np.shape(m)[0] != np.shape(m)[1]):
            raise NeedsConcrete('inv of a non-square symbolic matrix')
        return pinv_contract(m, self._m.inv, a, k)

    def norm(self, a, *k, **kw):
        return NpProxy.linalg.norm(a, *k, **kw)


class SpecialProxy(object):
    def __init__(self, real_mod):
        self._m = real_mod

    def __getattr__(self, k):
        return getattr(self._m, k)

    def factorial(self, arr, **kw):
        """exact k! (dependency contract; scipy returns the float64 rounding of it)"""
        if getattr(self, 'exact', False) or is_sym(arr):
            a = np.asarray(arr)
            out = np.empty(a.shape, dtype=object)
            for idx in np.ndindex(a.shape):
                out[idx] = R(math.factorial(int(a[idx])))
            return out.view(SymArr) if a.shape else out[()]
        return self._m.factorial(arr, **kw)


def sym_convolve1d(inp, w, axis=-1, origin=0, real_impl=None, **kw):
    """assumed contract of scipy.ndimage.convolve1d (mode='reflect') as an explicit index formula, generic over
    the element type; conformance-tested against scipy on random data on every run.  Default axis -1, as in scipy."""
    if not (is_sym(inp) or is_sym(w)):
        return real_impl(inp, w, axis=axis, origin=origin, **kw)
    if kw.get('mode', 'reflect') != 'reflect':
        raise NeedsConcrete('convolve1d contract covers mode=reflect only')
    inp = asobj(inp)
    if axis not in (0, -inp.ndim):
        # any other axis: the same formula along that axis
        moved = np.moveaxis(inp, axis, 0)
        res = sym_convolve1d(moved.view(SymArr), w, axis=0, origin=origin, real_impl=real_impl, **kw)
        return np.moveaxis(asobj(res), 0, axis).view(SymArr)
    w = list(asobj(w).ravel())
    n = inp.shape[0]
    L = len(w)
    if not (-(L // 2) <= origin <= (L - 1) // 2):
        raise ValueError('invalid origin')
    out = np.empty(inp.shape, dtype=object)

    def refl(k):
        if n == 1:
            return 0
        p = 2 * n
        k = k % p
        return k if k < n else p - 1 - k
    wr = w[::-1]
    org = -origin
    if L % 2 == 0:
        org -= 1
    for i in range(n):
        acc = 0
        for j in range(L):
            acc = acc + wr[j] * inp[refl(i + j - L // 2 - org)]
        out[i] = acc
    return out.view(SymArr)


def sym_correlate1d(inp, w, axis=-1, origin=0, real_impl=None, **kw):
    """assumed contract of scipy.ndimage.correlate1d (mode='reflect'): out[i] = sum_j conj(w[j]) * in[i+j-L//2-origin]
    (scipy conjugates complex weights in correlate); conformance-tested against scipy.  Default axis -1, as in scipy."""
    if not (is_sym(inp) or is_sym(w)):
        return real_impl(inp, w, axis=axis, origin=origin, **kw)
    if kw.get('mode', 'reflect') != 'reflect':
        raise NeedsConcrete('correlate1d contract covers mode=reflect only')
    inp = asobj(inp)
    if axis not in (0, -inp.ndim):
        moved = np.moveaxis(inp, axis, 0)
        res = sym_correlate1d(moved.view(SymArr), w, axis=0, origin=origin, real_impl=real_impl, **kw)
        return np.moveaxis(asobj(res), 0, axis).view(SymArr)
    w = [lift(v).conjugate() if isinstance(lift(v), C) else v for v in asobj(w).ravel()]
    n = inp.shape[0]
    L = len(w)
    if not (-(L // 2) <= origin <= (L - 1) // 2):
        raise ValueError('invalid origin')
    out = np.empty(inp.shape, dtype=object)

    def refl(k):
        if n == 1:
            return 0
        p = 2 * n
        k = k % p
        return k if k < n else p - 1 - k
    for i in range(n):
        acc = 0
        for j in range(L):
            acc = acc + w[j] * inp[refl(i + j - L // 2 - origin)]
        out[i] = acc
    return out.view(SymArr)


# ---------------------------------------------------------------- builtins
def vc_abs(a):
    if isinstance(a, np.ndarray) and a.dtype == object:
        return NpProxy().abs(a)
    return builtins.abs(a)


def _vc_int(v=0, *a):
    if isinstance(v, Z):
        return v
    if isinstance(v, B):
        return Z(z3.If(v.t, z3.IntVal(1), z3.IntVal(0)), v.dfn)
    if isinstance(v, (R, C)):
        raise NeedsConcrete('int() of a symbolic real')
    return builtins.int(v, *a)


def _vc_float(v=0.0):
    if isinstance(v, (R, Z)):
        return lift(v)
    if isinstance(v, C):
        raise TypeError("can't convert complex to float")
    return builtins.float(v)


class _BuiltinTypeOverlay(type):
    """the overlays of `int` / `float` stay usable where the repository uses them as TYPES (isinstance, issubclass, dtype
    arguments are normalised by the numpy proxy): calling converts like the built-in, with symbolic values passed through"""

    def __call__(cls, *a, **k):
        return cls._convert(*a, **k)

    def __instancecheck__(cls, obj):
        return isinstance(obj, cls._real)

    def __subclasscheck__(cls, sub):
        return issubclass(sub, cls._real)


class vc_int(metaclass=_BuiltinTypeOverlay):
    _real = builtins.int
    _convert = staticmethod(_vc_int)


class vc_float(metaclass=_BuiltinTypeOverlay):
    _real = builtins.float
    _convert = staticmethod(_vc_float)


def vc_max(*a, **kw):
    if len(a) == 1 and not kw:
        a = tuple(a[0])
    if builtins.any(isinstance(v, SYM) for v in a):
        r = a[0]
        for v in a[1:]:
            r = ite(lift_cmp(v) > lift_cmp(r), v, r)     # python max keeps the first maximal element
        return r
    return builtins.max(*a, **kw)


def vc_min(*a, **kw):
    if len(a) == 1 and not kw:
        a = tuple(a[0])
    if builtins.any(isinstance(v, SYM) for v in a):
        r = a[0]
        for v in a[1:]:
            r = ite(lift_cmp(v) < lift_cmp(r), v, r)
        return r
    return builtins.min(*a, **kw)


def lift_cmp(v):
    return v if isinstance(v, (Z, R)) else (Z(v) if isinstance(v, (int, np.integer)) and not isinstance(v, bool) else lift(v))


def vc_len(a):
    return builtins.len(a)


def vc_round(v, ndigits=None):
    """builtin round of a symbolic real: an uninterpreted function of the value (congruence only), like np.round above"""
    if isinstance(v, (R, C)):
        v = lift(v)
        if isinstance(v, C):
            raise NeedsConcrete('round() of a symbolic complex value')
        return UF1('round%s' % (ndigits if ndigits is not None else 0), v)
    return builtins.round(v) if ndigits is None else builtins.round(v, ndigits)


BUILTINS = {'abs': vc_abs, 'int': vc_int, 'float': vc_float, 'max': vc_max, 'min': vc_min, 'round': vc_round}


@contextlib.contextmanager
def installed(*mods, **bindings):
    """install overlays into the given imported module objects; restore afterwards.
    bindings: extra name -> value applied to every module that has (or should get) that name."""
    saved = []
    missing = object()

    def setg(m, k, v):
        saved.append((m, k, m.__dict__.get(k, missing)))
        setattr(m, k, v)
    proxy = bindings.pop('np', None) or NpProxy()
    try:
        for m in mods:
            if hasattr(m, 'np'):
                setg(m, 'np', proxy)
            for k, v in BUILTINS.items():
                setg(m, k, v)
            if 'linalg' in m.__dict__:
                setg(m, 'linalg', LinalgProxy(m.__dict__['linalg']))
            if 'special' in m.__dict__:
                setg(m, 'special', SpecialProxy(m.__dict__['special']))
            if 'convolve1d' in m.__dict__:
                real = m.__dict__['convolve1d']
                setg(m, 'convolve1d', (lambda real: lambda inp, w, **kw: sym_convolve1d(inp, w, real_impl=real, **kw))(real))
            if 'correlate1d' in m.__dict__:
                real = m.__dict__['correlate1d']
                setg(m, 'correlate1d', (lambda real: lambda inp, w, **kw: sym_correlate1d(inp, w, real_impl=real, **kw))(real))
            if 'factorial' in m.__dict__ and not isinstance(m.__dict__['factorial'], type):
                sp = SpecialProxy(type('M', (), {'factorial': staticmethod(m.__dict__['factorial'])}))
                setg(m, 'factorial', sp.factorial)
            if 'warnings' in m.__dict__:
                pass
            for k, v in bindings.items():
                if v is not None:
                    setg(m, k, v)
        yield proxy
    finally:
        for m, k, v in reversed(saved):
            if v is missing:
                try:
                    delattr(m, k)
                except AttributeError:
                    pass
            else:
                setattr(m, k, v)
