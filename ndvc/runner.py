"""ndvc.runner -- orchestrates one check: obligation groups in worker processes, ledger comparison,
known findings, replay of refutations against the real code, evidence file, exit code.

exit 0  every obligation discharged (or a recorded known finding)
exit 1  an obligation refuted            -> VIOLATION property=<id> replay=<path>
exit 2  undecided (unknown / cut not found / NeedsConcrete)
exit 3  engine problem (traceback, a must-fail twin proved, ledger group missing, cross-check mismatch)
"""
import concurrent.futures as cf
import fnmatch
import importlib
import glob
import json
import multiprocessing
import os
import re
import subprocess
import sys
import time
import traceback

ROOT = os.path.dirname(os.path.dirname(os.path.abspath(__file__)))
REPO = os.environ.get('NDVC_REPO', '/repo')
NATIVE_PY = os.environ.get('NDVC_NATIVE_PY', '/venv/bin/python')


def _work(job):
    prop_id, gname, args, tier = job
    from . import solve
    from .sym import NeedsConcrete, Undecided, CTX
    from .cut import CutError
    solve.set_budget(tier)
    solve.take()
    solve.GROUP[0] = gname + '/'
    try:
        solve.SPILL[0] = open(_spill_path(os.getpid()), 'w')
    except OSError:
        solve.SPILL[0] = None
    t0 = time.time()
    info = {}
    try:
        mod = importlib.import_module('props.' + prop_id)
        if args == ('__frame__',):
            # frame condition every per-call proof relies on: no mutable object is shared between derivative objects, calls
            # or threads except the listed caches (the live scan of C09), so single-call contracts compose
            info = importlib.import_module('props.C09').run_scan() or {}
        else:
            info = mod.run_group(args) or {}
    except (NeedsConcrete, Undecided, CutError) as e:
        solve.record('<group>', 'unknown', type(e).__name__, 0.0, None, 'engine', reason=str(e)[:500])
    except Exception as e:
        site = _explicit_raise_in_code_under_contract(e)
        if site:
            # the code under contract refused (explicit `raise`) an input of this group that the unchanged tree accepts -- every
            # group runs to its end there, which the ledger enforces.  Reported as a refuted obligation, not as an engine problem;
            # anything else (an exception out of numpy, the engine or an ordinary statement) stays an engine problem (exit 3).
            solve.record('H:the-code-under-contract-refuses-an-input-of-this-group-that-it-accepted-before[%s]' % site, 'refuted',
                         'exception-from-the-code-under-contract', 0.0, None, 'exec', note=traceback.format_exc()[-1500:])
        else:
            solve.record('<group>', 'error', 'traceback', 0.0, None, 'engine', reason=traceback.format_exc()[-3000:])
    obs = solve.take()
    solve.GROUP[0] = ''
    return gname, obs, info, time.time() - t0


def _explicit_raise_in_code_under_contract(exc):
    """'<file>:<function>: <ExceptionType>' when the innermost frame of the traceback is an explicit `raise` statement in a source
    file of the repository under test, else None"""
    import linecache
    tb = exc.__traceback__
    last = None
    while tb is not None:
        last = tb
        tb = tb.tb_next
    if last is None:
        return None
    code = last.tb_frame.f_code
    fn = os.path.realpath(code.co_filename)
    if not fn.startswith(os.path.realpath(os.path.join(REPO, 'src')) + os.sep):
        return None
    line = linecache.getline(code.co_filename, last.tb_lineno).strip()
    if not line.startswith('raise '):
        return None
    return '%s:%s:%s' % (os.path.basename(fn), code.co_name, type(exc).__name__)


def _spill_path(pid):
    import tempfile
    return os.path.join(tempfile.gettempdir(), 'ndvc_spill_%d_%d.jsonl' % (os.getppid() if pid == os.getpid() else os.getpid(), pid))


def _read_spill(pid):
    """obligations a killed group had already recorded"""
    path = _spill_path(pid)
    out = []
    try:
        for ln in open(path):
            try:
                out.append(json.loads(ln))
            except ValueError:
                pass
    except OSError:
        pass
    try:
        os.unlink(path)
    except OSError:
        pass
    return out


def _child(job, conn):
    try:
        res = _work(job)
    except BaseException:
        res = (job[1], [dict(name=job[1] + '/<group>', status='error', backend='traceback', secs=0, kind='engine',
                             reason=traceback.format_exc()[-2000:])], {}, 0.0)
    try:
        conn.send(res)
    finally:
        conn.close()
        os._exit(0)


def _run_jobs(jobs, procs, group_timeout):
    """one forked process per obligation group, at most `procs` at a time, each under a wall-clock limit;
    a group that exceeds it is killed and reported undecided (never a violation)"""
    ctx = multiprocessing.get_context('fork')
    pending = list(jobs)
    running = {}
    while pending or running:
        while pending and len(running) < max(1, procs):
            job = pending.pop(0)
            rc, wc = ctx.Pipe(duplex=False)
            p = ctx.Process(target=_child, args=(job, wc))
            p.start()
            wc.close()
            running[p.pid] = (p, job, time.time(), rc)
        progressed = False
        for pid, (p, job, t0, rc) in list(running.items()):
            res = None
            try:
                if rc.poll(0):
                    res = rc.recv()
            except (EOFError, OSError):
                res = (job[1], [dict(name=job[1] + '/<group>', status='error', backend='worker-died', secs=0,
                                     kind='engine', reason='worker process died')], {}, time.time() - t0)
            if res is None and not p.is_alive():
                res = (job[1], [dict(name=job[1] + '/<group>', status='error', backend='worker-died', secs=0,
                                     kind='engine', reason='worker process exited with %r' % p.exitcode)], {}, time.time() - t0)
            if res is None and time.time() - t0 > group_timeout:
                p.kill()
                p.join(5)
                res = (job[1], _read_spill(pid) + [dict(name=job[1] + '/<group>', status='unknown', backend='group-timeout', secs=0,
                                                         kind='engine', reason='group exceeded %.0f s wall-clock' % group_timeout)], {},
                       time.time() - t0)
            if res is not None:
                p.join(5)
                rc.close()
                try:
                    os.unlink(_spill_path(pid))
                except OSError:
                    pass
                del running[pid]
                progressed = True
                yield res
        if not progressed:
            time.sleep(0.02)


def load_known():
    p = os.path.join(ROOT, 'known_findings.json')
    if not os.path.exists(p):
        return []
    return json.load(open(p))


def _matches(entry, name):
    pats = entry.get('obligations') or [entry.get('obligation')]
    return any(p and re.fullmatch('.*'.join(re.escape(x) for x in p.split('*')), name) for p in pats)


def _safe(name):
    return re.sub(r'[^A-Za-z0-9_.=,\[\]-]+', '_', name)[:150]


def run_check(prop_id, tier, seed, procs=None, only=None):
    t_start = time.time()
    sys.path.insert(0, ROOT)
    mod = importlib.import_module('props.' + prop_id)
    groups = list(mod.groups(tier))
    if prop_id != 'C09' and getattr(mod, 'FRAME_SCAN', True):
        groups.append(('frame:shared-state', ('__frame__',)))
    if only:
        groups = [g for g in groups if only in g[0]]
    procs = procs or int(os.environ.get('NDVC_PROCS', '12'))
    jobs = [(prop_id, g, a, tier) for g, a in groups]
    results = {}
    infos = {}
    secs = {}
    gto = float(os.environ.get('NDVC_GROUP_TIMEOUT_S', '300' if tier == 'quick' else '2400'))
    for g, obs, info, dt in _run_jobs(jobs, procs, gto):
        results[g] = obs; infos[g] = info; secs[g] = dt

    import shutil
    if not only:
        # replay files live in a directory per (property, tier): a quick and a thorough run of the same property may be in flight
        # at the same time and must not delete each other's files
        shutil.rmtree(os.path.join(ROOT, 'replays', prop_id, tier), ignore_errors=True)
        for fn in glob.glob(os.path.join(ROOT, 'replays', prop_id, '*.json')):      # files of the older flat layout
            try:
                os.unlink(fn)
            except OSError:
                pass
    allobs = [o for g, _ in groups for o in results.get(g, [])]
    twins = [o for o in allobs if o['kind'] == 'twin']
    xchecks = [o for o in allobs if o['kind'] == 'xcheck']
    engine = [o for o in allobs if o['kind'] == 'engine']
    obs = [o for o in allobs if o['kind'] not in ('twin', 'xcheck', 'engine')]

    known = [k for k in load_known() if k['property'] == prop_id]
    recorded = [k for k in known if k.get('status', 'recorded') == 'recorded']

    refuted = [o for o in obs if o['status'] == 'refuted']
    known_hits = {}
    new_viol = []
    for o in refuted:
        hit = None
        for k in recorded:
            if _matches(k, o['name']):
                hit = k
                break
        if hit is None:
            new_viol.append(o)
        else:
            known_hits.setdefault(hit['id'], []).append(o)
    unknown = [o for o in obs if o['status'] == 'unknown'] + [o for o in engine if o['status'] == 'unknown']
    errors = [o for o in allobs if o['status'] == 'error']
    twin_bad = [o for o in twins if o['status'] == 'proved']
    twin_ok = [o for o in twins if o['status'] == 'refuted']
    twin_und = [o for o in twins if o['status'] == 'unknown']
    xbad = [o for o in xchecks if o['status'] != 'proved']

    # ledger: every listed group must be present with at least one obligation
    ledger_missing = []
    lp = os.path.join(ROOT, 'ledger', prop_id + '.json')
    if os.path.exists(lp) and not only:
        led = json.load(open(lp)).get(tier, {})
        for g, cnt in led.items():
            have = len([o for o in results.get(g, []) if o['kind'] not in ('twin', 'engine')])
            if have < 1:
                ledger_missing.append(g)
    elif not only and os.environ.get('NDVC_WRITE_LEDGER') != '1':
        ledger_missing.append('<no ledger file>')

    if os.environ.get('NDVC_WRITE_LEDGER') == '1' and not only:
        os.makedirs(os.path.join(ROOT, 'ledger'), exist_ok=True)
        led = json.load(open(lp)) if os.path.exists(lp) else {}
        led[tier] = {g: len([o for o in results.get(g, []) if o['kind'] not in ('twin', 'engine')]) for g, _ in groups}
        with open(lp + '.%d.tmp' % os.getpid(), 'w') as fh:
            json.dump(led, fh, indent=0, sort_keys=True)
        os.replace(lp + '.%d.tmp' % os.getpid(), lp)
        ledger_missing = []

    # ---------------- replay refutations against the real code
    lines = []
    nviol = 0
    if new_viol:
        rdir = os.path.join(ROOT, 'replays', prop_id, tier)
        os.makedirs(rdir, exist_ok=True)

        def _dump(doc_, path_):
            for attempt in (0, 1):
                try:
                    os.makedirs(os.path.dirname(path_), exist_ok=True)
                    with open(path_, 'w') as fh:
                        json.dump(doc_, fh, indent=1, default=str)
                    return
                except OSError:
                    if attempt:
                        print('WARNING could not write replay file %s' % path_)
        # one VIOLATION line per distinct obligation family, at most 8 replays
        fams = {}
        for o in new_viol:
            fams.setdefault(re.sub(r'\d+', '#', o['name']), []).append(o)
        order = []
        depth = 0
        while len(order) < 8 and any(len(v) > depth for v in fams.values()):
            for v in fams.values():
                if len(v) > depth and len(order) < 8:
                    order.append(v[depth])
            depth += 1
        for o in order:
            nviol += 1
            path = os.path.join(rdir, _safe(o['name']) + '.json')
            case = None
            try:
                if o['name'].startswith('frame:shared-state/'):
                    case = importlib.import_module('props.C09').replay_case(o)
                elif 'documented-default-arguments:' in o['name']:
                    case = dict(kind='common.defaults', keys=[o['name'].split('documented-default-arguments:', 1)[1]])
                else:
                    case = mod.replay_case(o) if hasattr(mod, 'replay_case') else None
            except Exception:
                case = dict(error='replay_case failed: ' + traceback.format_exc()[-800:])
            doc = dict(property=prop_id, obligation=o['name'], verdict='refuted', backend=o.get('backend'),
                       solver_model=o.get('model'), detail={k: v for k, v in o.items() if k not in ('model', 'smt2')},
                       smt2=o.get('smt2'), case=case, tier=tier)
            reproduced = False
            if case and 'error' not in case:
                _dump(doc, path)
                try:
                    outcome = run_native(path)
                except Exception as e:
                    outcome = dict(reproduced=False, error=repr(e))
                doc['native_replay'] = outcome
                reproduced = bool(outcome.get('reproduced'))
            _dump(doc, path)
            lines.append('VIOLATION property=%s replay=%s obligation=%s%s' % (
                prop_id, path, o['name'], '' if reproduced else ' no-failing-input-found'))
    total_viol = len(new_viol)

    for k in recorded:
        hits = known_hits.get(k['id'], [])
        if hits:
            print('KNOWN-FINDING: property=%s %s [%s; %d obligation(s), e.g. %s]' % (
                prop_id, k['what'], k['id'], len(hits), hits[0]['name']))
    for ln in lines:
        print(ln)

    # ---------------- evidence
    bounded_obs = [o for o in obs if o['kind'] == 'bounded']
    counted = [o for o in obs if o['kind'] != 'bounded' and not any(o in v for v in known_hits.values())]
    discharged = [o for o in counted if o['status'] == 'proved']
    by_backend = {}
    for o in counted:
        if o['status'] == 'proved':
            b = by_backend.setdefault(o['backend'], dict(n=0, secs=0.0))
            b['n'] += 1; b['secs'] = round(b['secs'] + o['secs'], 3)
    slow = sorted([dict(name=o['name'], secs=o['secs'], backend=o['backend']) for o in counted if o['secs'] > 10],
                  key=lambda d: -d['secs'])[:20]
    samples = []
    for o in counted:
        if 'smt2' in o and len(samples) < 3:
            samples.append(dict(obligation=o['name'], status=o['status'], backend=o['backend'], smt2=o['smt2']))
    for o in counted[:: max(1, len(counted) // 6)][:6]:
        samples.append(dict(obligation=o['name'], status=o['status'], backend=o['backend'], kind=o['kind'],
                            note=o.get('note')))
    fuc = []
    try:
        from .cut import source_info
        for f in mod.functions_under_contract():
            fuc.append(source_info(f))
    except Exception as e:
        fuc.append(dict(error=repr(e)))
    merged_info = {}
    for g, _ in groups:
        for k, v in (infos.get(g) or {}).items():
            if isinstance(v, list) and isinstance(merged_info.get(k, []), list):
                merged_info.setdefault(k, [])
                for x in v:
                    if x not in merged_info[k]:
                        merged_info[k].append(x)
            else:
                merged_info.setdefault(k, v)
    kinds = {}
    for o in counted:
        kinds[o['kind']] = kinds.get(o['kind'], 0) + 1
    cov = dict(
        obligations=len(counted), discharged=len(discharged),
        checker_cmd='./vcheck %s --tier %s' % (prop_id, tier),
        trusted_base=list(getattr(mod, 'TRUSTED', [])),
        samples=samples,
        obligations_by_kind=kinds,
        discharged_by_backend=by_backend,
        solver_seconds=round(sum(o['secs'] for o in allobs), 2),
        slow_obligations=slow,
        groups=len(groups),
        group_wall_s={g: round(secs.get(g, 0), 2) for g, _ in groups} if len(groups) <= 60 else
        dict(max=round(max(secs.values() or [0]), 2), total=round(sum(secs.values()), 2)),
        functions_under_contract=fuc,
        must_fail_twins=dict(refuted=len(twin_ok), undecided=len(twin_und), wrongly_proved=len(twin_bad)),
        concrete_crosscheck=dict(samples=len(xchecks), mismatches=len(xbad)),
        known_finding_obligations={k: len(v) for k, v in known_hits.items()},
        undecided=[o['name'] + ': ' + str(o.get('reason', o.get('backend')))[:200] for o in unknown][:20],
        engine_errors=[o['name'] + ': ' + str(o.get('reason', ''))[-400:] for o in errors][:10],
        ledger_missing_groups=ledger_missing[:20],
        bounded=list(getattr(mod, 'BOUNDED', [])),
        bounded_standins=[dict(name=o['name'], status=o['status'], note='bounded stand-in: not counted among obligations/discharged') for o in bounded_obs],
        not_decided=list(getattr(mod, 'NOT_DECIDED', [])),
        quantified=getattr(mod, 'QUANTIFIED', ''),
        enumerated=(mod.enumerated(tier) if hasattr(mod, 'enumerated') else ''),
        extra=merged_info,
        exhaustive=False,
    )
    ev = dict(property_id=prop_id, tier=tier, seed=int(seed), level='proof', coverage=cov,
              assumptions=list(getattr(mod, 'ASSUMPTIONS', [])), wall_s=round(time.time() - t_start, 2),
              violations=total_viol)
    evdir = os.environ.get('NDVC_EVIDENCE_DIR') or os.path.join(ROOT, 'evidence')     # tools/run_seeds.py redirects it
    os.makedirs(evdir, exist_ok=True)
    if not only:
        # written to a temporary name and renamed: a reader (or a second run of the same property) never sees half a file
        tmp_ev = os.path.join(evdir, '.%s.%d.tmp' % (prop_id, os.getpid()))
        with open(tmp_ev, 'w') as fh:
            json.dump(ev, fh, indent=1, default=str)
        os.replace(tmp_ev, os.path.join(evdir, prop_id + '.json'))

    print('[%s %s] groups=%d obligations=%d discharged=%d refuted(new)=%d known=%d unknown=%d errors=%d twins=%d/%d '
          'xcheck=%d/%d wall=%.1fs' % (prop_id, tier, len(groups), len(counted), len(discharged), total_viol,
                                       sum(len(v) for v in known_hits.values()), len(unknown), len(errors),
                                       len(twin_ok), len(twins), len(xchecks) - len(xbad), len(xchecks),
                                       time.time() - t_start))
    if total_viol:
        return 1
    if errors or twin_bad or xbad or ledger_missing:
        for o in (errors + twin_bad + xbad)[:5]:
            print('ENGINE-PROBLEM %s: %s %s' % (o['name'], o['status'], str(o.get('reason') or o.get('note') or '')[-1500:]))
        for g in ledger_missing[:5]:
            print('ENGINE-PROBLEM ledger group missing: %s' % g)
        return 3
    if unknown or len(counted) == 0:
        for o in unknown[:5]:
            print('UNDECIDED %s: %s' % (o['name'], str(o.get('reason', o.get('backend')))[:300]))
        return 2
    return 0


def run_native(path):
    """run the native replay of a case file under the test-suite interpreter against the real code"""
    env = dict(os.environ)
    env['PYTHONPATH'] = os.path.join(REPO, 'src') + os.pathsep + ROOT
    py = NATIVE_PY if os.path.exists(NATIVE_PY) else sys.executable
    p = subprocess.run([py, '-m', 'ndvc.native', path], capture_output=True, text=True, env=env, cwd=ROOT, timeout=600)
    out = p.stdout.strip().splitlines()
    for ln in reversed(out):
        if ln.startswith('{'):
            try:
                return json.loads(ln)
            except ValueError:
                pass
    return dict(reproduced=False, error='native replay produced no result', stdout=p.stdout[-1500:],
                stderr=p.stderr[-1500:])


def main(argv=None):
    import argparse
    ap = argparse.ArgumentParser()
    ap.add_argument('prop', nargs='?')
    ap.add_argument('--tier', default=os.environ.get('VERIF_TIER', 'quick'))
    ap.add_argument('--replay')
    ap.add_argument('--only')
    ap.add_argument('--procs', type=int)
    a = ap.parse_args(argv)
    if a.replay:
        out = run_native(a.replay)
        print(json.dumps(out, indent=1))
        return 1 if out.get('reproduced') else 0
    seed = int(os.environ.get('VERIF_SEED', '0') or 0)
    tier = a.tier if a.tier in ('quick', 'thorough') else 'quick'
    return run_check(a.prop, tier, seed, a.procs, a.only)


if __name__ == '__main__':
    sys.exit(main())
