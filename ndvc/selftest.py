"""engine self-test run by setup_cmd: dependency-contract conformance (convolve1d, factorial, pinv) against the real
libraries on random concrete data, and overlay conformance on concrete arguments."""
import sys
import numpy as np


def conv_conformance(trials=1500, seed=0):
    from scipy.ndimage import convolve1d
    from ndvc.overlay import sym_convolve1d
    from ndvc.sym import R
    import z3
    rng = np.random.default_rng(seed)
    bad = 0
    for _ in range(trials):
        n = int(rng.integers(1, 12)); L = int(rng.integers(1, 8))
        origin = int(rng.integers(-(L // 2), (L - 1) // 2 + 1)) if L > 1 else 0
        a = rng.integers(-5, 6, size=(n, 3)).astype(float)
        w = rng.integers(-4, 5, size=L).astype(float)
        # the axis argument as the caller may give it -- including not at all (scipy's default is the LAST axis)
        akw = [dict(axis=0), dict(), dict(axis=1), dict(axis=-1), dict(axis=-2)][_ % 5]
        ref = convolve1d(a, w, origin=origin, **akw)
        sa = np.empty(a.shape, dtype=object)
        for idx in np.ndindex(a.shape):
            sa[idx] = R(int(a[idx]))
        got = sym_convolve1d(sa, w, origin=origin, real_impl=convolve1d, **akw)
        gv = np.array([[float(z3.simplify(v.t).as_fraction()) for v in row] for row in np.asarray(got)])
        if not np.array_equal(ref, gv):
            bad += 1
    return bad


def corr_conformance(trials=800, seed=3):
    from scipy.ndimage import correlate1d
    from ndvc.overlay import sym_correlate1d
    from ndvc.sym import R, C
    import z3
    rng = np.random.default_rng(seed)
    bad = 0
    for t in range(trials):
        n = int(rng.integers(1, 10)); L = int(rng.integers(1, 7))
        origin = int(rng.integers(-(L // 2), (L - 1) // 2 + 1)) if L > 1 else 0
        a = rng.integers(-5, 6, size=(n, 2)).astype(float)
        cw = t % 2 == 1
        w = rng.integers(-4, 5, size=L).astype(float) + (1j * rng.integers(-3, 4, size=L) if cw else 0)
        akw = [dict(axis=0), dict(), dict(axis=1), dict(axis=-1)][(t // 2) % 4]
        ref = correlate1d(a, w, origin=origin, **akw)
        sa = np.empty(a.shape, dtype=object)
        for idx in np.ndindex(a.shape):
            sa[idx] = R(int(a[idx]))
        sw = [C(R(int(v.real)), R(int(v.imag))) if cw else R(int(v.real)) for v in w]
        got = np.asarray(sym_correlate1d(sa, sw, origin=origin, real_impl=correlate1d, **akw))

        def val(v):
            from ndvc.sym import lift
            v = lift(v)
            if isinstance(v, C):
                return complex(float(z3.simplify(v.re.t).as_fraction()), float(z3.simplify(v.im.t).as_fraction()))
            return float(z3.simplify(v.t).as_fraction())
        gv = np.array([[val(v) for v in row] for row in got])
        if not np.allclose(ref, gv, atol=1e-12, rtol=0):
            bad += 1
    return bad


def main():
    badc = corr_conformance()
    print('selftest: correlate1d contract (real and complex weights) vs scipy: %d mismatches' % badc)
    bad = conv_conformance() + badc
    print('selftest: convolve1d contract vs scipy: %d mismatches' % bad)
    from scipy import special
    import math
    ok = all(float(special.factorial(k)) == float(math.factorial(k)) for k in range(0, 23))
    print('selftest: factorial contract exact up to 22!:', ok)
    from scipy import linalg
    rng = np.random.default_rng(1)
    M = rng.normal(size=(5, 5)) + 3 * np.eye(5)
    okp = np.allclose(linalg.pinv(M) @ M, np.eye(5), atol=1e-9) and np.allclose(np.linalg.pinv(M) @ M, np.eye(5), atol=1e-9)
    print('selftest: pinv contract P.M == I on a random non-singular matrix:', okp)
    return 0 if (bad == 0 and ok and okp) else 1


if __name__ == '__main__':
    sys.exit(main())
