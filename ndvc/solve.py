"""ndvc.solve -- discharge verification conditions: z3 (python API) first, cvc5 (binary, SMT-LIB2 text) on
whatever z3 leaves unknown.  Verdicts: proved / refuted / unknown.  `unknown` is never mapped to a violation."""
import os
import subprocess
import tempfile
import time
from fractions import Fraction
import z3

Z3_TIMEOUT_MS = int(os.environ.get('NDVC_Z3_TIMEOUT_MS', '20000'))
CVC5_TIMEOUT_MS = int(os.environ.get('NDVC_CVC5_TIMEOUT_MS', '20000'))
CVC5 = '/usr/bin/cvc5'

OBS = []          # obligations produced in this process (list of dict)
GROUP = ['']      # current group name prefix


def set_budget(tier):
    global Z3_TIMEOUT_MS, CVC5_TIMEOUT_MS
    if 'NDVC_Z3_TIMEOUT_MS' not in os.environ:
        Z3_TIMEOUT_MS = 20000 if tier == 'quick' else 120000
    if 'NDVC_CVC5_TIMEOUT_MS' not in os.environ:
        CVC5_TIMEOUT_MS = 20000 if tier == 'quick' else 120000


def _val(v):
    try:
        if z3.is_rational_value(v):
            return str(v.as_fraction())
        if z3.is_algebraic_value(v):
            return str(v.approx(20).as_fraction())
        if z3.is_int_value(v):
            return str(v.as_long())
        if z3.is_true(v):
            return 'true'
        if z3.is_false(v):
            return 'false'
    except Exception:
        pass
    return str(v)


def model_dict(m):
    out = {}
    for d in m.decls():
        if d.arity() == 0:
            out[d.name()] = _val(m[d])
        else:
            out[d.name()] = str(m[d])[:400]
    return out


def _cvc5(smt2, timeout_ms):
    """returns 'unsat' | 'sat' | 'unknown'"""
    try:
        with tempfile.NamedTemporaryFile('w', suffix='.smt2', delete=False, dir=os.environ.get('NDVC_TMP')) as f:
            f.write('(set-logic ALL)\n' + smt2)
            fn = f.name
        try:
            p = subprocess.run([CVC5, '--lang=smt2', '--tlimit=%d' % timeout_ms, fn], capture_output=True, text=True,
                               timeout=timeout_ms / 1000.0 + 10)
            out = (p.stdout or '').strip().splitlines()
            r = out[0].strip() if out else 'unknown'
        finally:
            os.unlink(fn)
        return r if r in ('sat', 'unsat') else 'unknown'
    except Exception:
        return 'unknown'


def check(goal, hyps=(), timeout_ms=None, want_model=True, use_cvc5=True):
    """decide validity of (hyps => goal).  returns (status, backend, secs, model|None, smt2|None)"""
    t0 = time.time()
    s = z3.Solver()
    s.set('timeout', timeout_ms or Z3_TIMEOUT_MS)
    for h in hyps:
        s.add(h)
    s.add(z3.Not(goal))
    r = s.check()
    if r == z3.unsat:
        return 'proved', 'z3', time.time() - t0, None
    if r == z3.sat:
        return 'refuted', 'z3', time.time() - t0, (model_dict(s.model()) if want_model else None)
    if use_cvc5:
        smt2 = s.to_smt2()
        c = _cvc5(smt2, CVC5_TIMEOUT_MS)
        if c == 'unsat':
            return 'proved', 'cvc5', time.time() - t0, None
        if c == 'sat':
            return 'refuted', 'cvc5', time.time() - t0, {'note': 'cvc5 sat; model not extracted'}
    # both solvers gave up on  hyps /\ not goal  (typically two large different nonlinear terms).  A model of the hypotheses
    # alone is much easier to find; if the goal evaluates to false in it, that model is a genuine counterexample.
    try:
        w = _refute_in_a_model_of_the_hypotheses(goal, hyps)
    except z3.Z3Exception:
        w = None
    if w is not None:
        return 'refuted', 'z3:model-of-hypotheses', time.time() - t0, (w if want_model else None)
    return 'unknown', 'z3+cvc5', time.time() - t0, None


def _refute_in_a_model_of_the_hypotheses(goal, hyps, tries=3, timeout_ms=8000):
    for k in range(tries):
        s = z3.Solver()
        s.set('timeout', timeout_ms)
        s.set('random_seed', 11 + 7 * k)
        for h in hyps:
            s.add(h)
        if k:
            # steer away from the degenerate all-zero model: ask for a model in which some free symbol is not 0 / 1
            fv = _free_consts(goal)
            if fv:
                s.add(z3.Or(*[z3.And(v != 0, v != 1, v != -1) for v in fv[:6]]))
        if s.check() != z3.sat:
            continue
        m = s.model()
        v = m.eval(goal, model_completion=True)
        if z3.is_false(v):
            return model_dict(m)
    return None


def _free_consts(e):
    out, seen = [], set()

    def go(t):
        if t.get_id() in seen:
            return
        seen.add(t.get_id())
        if z3.is_const(t) and t.decl().kind() == z3.Z3_OP_UNINTERPRETED and t.sort() == z3.RealSort():
            out.append(t)
        for c in t.children():
            go(c)
    go(e)
    return out


def record(name, status, backend='', secs=0.0, model=None, kind='vc', **extra):
    ob = dict(name=GROUP[0] + name, status=status, backend=backend, secs=round(secs, 4), kind=kind)
    if model is not None:
        ob['model'] = model
    ob.update(extra)
    OBS.append(ob)
    if SPILL[0] is not None:
        # written through as it is recorded: a group killed at its wall-clock limit keeps what it had decided
        try:
            import json
            SPILL[0].write(json.dumps(ob, default=str) + '\n')
            SPILL[0].flush()
        except Exception:
            pass
    return status == 'proved'


SPILL = [None]


def prove(name, goal, hyps=(), timeout_ms=None, kind='vc', **extra):
    """one obligation: hyps => goal"""
    if isinstance(goal, bool):
        goal = z3.BoolVal(goal)
    try:
        status, backend, secs, model = check(goal, hyps, timeout_ms)
    except z3.Z3Exception as e:
        status, backend, secs, model = 'unknown', 'z3-exception:%s' % e, 0.0, None
    if 'smt2' not in extra and len(OBS) % 97 == 0:
        # keep a sample of the queries in SMT-LIB form for the evidence
        try:
            s = z3.Solver()
            for h in hyps:
                s.add(h)
            s.add(z3.Not(goal))
            txt = s.to_smt2()
            if len(txt) < 4000:
                extra['smt2'] = txt
        except Exception:
            pass
    return record(name, status, backend, secs, model, kind, **extra)


def fact(name, ok, kind='exec', **extra):
    """a discrete obligation decided by executing the real code (shape, exception type, index set, frame):
    no solver involved; ok must be a python bool"""
    return record(name, 'proved' if ok else 'refuted', 'exec', 0.0, None, kind, **extra)


def ident(name, lhs, rhs, dens=(), hyps=(), timeout_ms=None, **extra):
    """polynomial identity with cleared denominators: (lhs - rhs) * prod(dens) == 0, with dens != 0 as hypotheses"""
    e = lhs - rhs
    for d in dens:
        e = e * d
    hs = list(hyps) + [d != 0 for d in dens]
    g = z3.simplify(e, som=True, som_blowup=10000000) == 0
    return prove(name, g, hs, timeout_ms, **extra)


def closed_value(t):
    """evaluate a closed term to an exact rational (closed-term evaluation); None if not closed/rational"""
    v = z3.simplify(t)
    if z3.is_rational_value(v):
        return v.as_fraction()
    if z3.is_int_value(v):
        return Fraction(v.as_long())
    return None


def take():
    out = list(OBS)
    del OBS[:]
    return out


def twin(name, goal, hyps=(), timeout_ms=None):
    """must-fail twin: a deliberately wrong clause; it must be refuted (status 'refuted' is the good outcome)"""
    try:
        status, backend, secs, model = check(goal, hyps, timeout_ms or 10000, want_model=False, use_cvc5=False)
    except z3.Z3Exception as e:
        status, backend, secs = 'unknown', 'z3-exception', 0.0
    OBS.append(dict(name=GROUP[0] + 'TWIN:' + name, status=status, backend=backend, secs=round(secs, 4), kind='twin'))
    return status == 'refuted'


def twin_fact(name, wrong_clause_holds):
    OBS.append(dict(name=GROUP[0] + 'TWIN:' + name, status='proved' if wrong_clause_holds else 'refuted',
                    backend='exec', secs=0.0, kind='twin'))


def xcheck(name, ok, **extra):
    """concrete cross-check of the symbolic execution against the real function on floats (A2/A3);
    a mismatch means the engine is unsound here (exit 3), never a violation"""
    ob = dict(name=GROUP[0] + 'XCHECK:' + name, status='proved' if ok else 'refuted', backend='concrete', secs=0.0,
              kind='xcheck')
    ob.update(extra)
    OBS.append(ob)
    return ok


def linearize(term, table=None):
    """sound generalisation: every maximal non-linear arithmetic subterm (product of two non-constant factors,
    division by a non-constant, power) is replaced by a fresh real variable (same subterm -> same variable).
    If the linearised formula is valid, so is the original."""
    table = {} if table is None else table
    cache = {}

    def isnum(e):
        return z3.is_rational_value(e) or z3.is_int_value(e) or z3.is_algebraic_value(e)

    def fresh(e):
        k = e.get_id()
        if k not in table:
            table[k] = z3.Real('nl!%d' % len(table)) if e.sort() == z3.RealSort() else z3.Int('nli!%d' % len(table))
        return table[k]

    def go(e):
        k = e.get_id()
        if k in cache:
            return cache[k]
        r = e
        if z3.is_app(e) and e.num_args() > 0:
            kind = e.decl().kind()
            if kind == z3.Z3_OP_MUL:
                non = [a for a in e.children() if not isnum(a)]
                if len(non) >= 2:
                    r = fresh(e)
                else:
                    r = e.decl()(*[go(a) for a in e.children()])
            elif kind in (z3.Z3_OP_DIV, z3.Z3_OP_IDIV, z3.Z3_OP_MOD) and not isnum(e.arg(1)):
                r = fresh(e)
            elif kind == z3.Z3_OP_POWER:
                r = fresh(e)
            else:
                r = e.decl()(*[go(a) for a in e.children()])
        cache[k] = r
        return r
    return go(term)


def prove_lin(name, goal, hyps=(), timeout_ms=None, **extra):
    """try the linearised generalisation first (QF_LRA, instant) -- without, then with the hypotheses; fall back to the
    full non-linear query"""
    table = {}
    try:
        g0 = linearize(goal, table)
        status, backend, secs, model = check(g0, [], 10000, want_model=False, use_cvc5=False)
        if status == 'proved':
            return record(name, 'proved', 'z3(linearised generalisation, no hypotheses)', secs, None, 'vc', **extra)
    except z3.Z3Exception:
        pass
    try:
        g2 = linearize(goal, table)
        h2 = [linearize(h, table) for h in hyps]
        status, backend, secs, model = check(g2, h2, 10000, want_model=False, use_cvc5=False)
        if status == 'proved':
            return record(name, 'proved', 'z3(linearised generalisation)', secs, None, 'vc', **extra)
    except z3.Z3Exception:
        pass
    return prove(name, goal, hyps, timeout_ms, **extra)


# ------------------------------------------------------------------------------------------------ refutation by evaluation
class EvalError(Exception):
    pass


def evaluate(term, assign, interp):
    """exact evaluation of a z3 term under an assignment of its variables (name -> Fraction/int/bool) and an
    interpretation of its uninterpreted functions (name -> python function on Fractions).  Used only to REFUTE a
    universally quantified equality: two terms that differ under some interpretation are not equal."""
    from fractions import Fraction
    memo = {}

    def ev(e):
        k = e.get_id()
        if k in memo:
            return memo[k]
        r = _ev(e)
        memo[k] = r
        return r

    def _ev(e):
        if z3.is_rational_value(e):
            return e.as_fraction()
        if z3.is_int_value(e):
            return e.as_long()
        if z3.is_true(e):
            return True
        if z3.is_false(e):
            return False
        if not z3.is_app(e):
            raise EvalError('not an application: %s' % e)
        d = e.decl()
        kind = d.kind()
        if kind == z3.Z3_OP_UNINTERPRETED:
            nm = d.name()
            if e.num_args() == 0:
                if nm in assign:
                    return assign[nm]
                raise EvalError('unassigned ' + nm)
            f = interp.get(nm) or interp.get('*')
            if f is None:
                raise EvalError('no interpretation for ' + nm)
            return f(nm, *[ev(c) for c in e.children()]) if f is interp.get('*') else f(*[ev(c) for c in e.children()])
        ch = e.children()
        if kind == z3.Z3_OP_ITE:
            return ev(ch[1]) if ev(ch[0]) else ev(ch[2])
        if kind == z3.Z3_OP_AND:
            return all(ev(c) for c in ch)
        if kind == z3.Z3_OP_OR:
            return any(ev(c) for c in ch)
        if kind == z3.Z3_OP_NOT:
            return not ev(ch[0])
        if kind == z3.Z3_OP_IMPLIES:
            return (not ev(ch[0])) or ev(ch[1])
        vs = [ev(c) for c in ch]
        if kind == z3.Z3_OP_ADD:
            return sum(vs[1:], vs[0])
        if kind == z3.Z3_OP_SUB:
            r = vs[0]
            for v in vs[1:]:
                r = r - v
            return r
        if kind == z3.Z3_OP_UMINUS:
            return -vs[0]
        if kind == z3.Z3_OP_MUL:
            r = vs[0]
            for v in vs[1:]:
                r = r * v
            return r
        if kind == z3.Z3_OP_DIV:
            if vs[1] == 0:
                raise EvalError('division by zero')
            return Fraction(vs[0]) / Fraction(vs[1])
        if kind == z3.Z3_OP_IDIV:
            if vs[1] == 0:
                raise EvalError('division by zero')
            return vs[0] // vs[1] if vs[1] > 0 else -(vs[0] // -vs[1])
        if kind == z3.Z3_OP_MOD:
            if vs[1] == 0:
                raise EvalError('division by zero')
            return vs[0] % abs(vs[1])
        if kind == z3.Z3_OP_POWER:
            return Fraction(vs[0]) ** int(vs[1])
        if kind == z3.Z3_OP_TO_REAL:
            return Fraction(vs[0])
        if kind == z3.Z3_OP_TO_INT:
            import math
            return math.floor(vs[0])
        if kind == z3.Z3_OP_LE:
            return vs[0] <= vs[1]
        if kind == z3.Z3_OP_LT:
            return vs[0] < vs[1]
        if kind == z3.Z3_OP_GE:
            return vs[0] >= vs[1]
        if kind == z3.Z3_OP_GT:
            return vs[0] > vs[1]
        if kind == z3.Z3_OP_EQ:
            return vs[0] == vs[1]
        if kind == z3.Z3_OP_DISTINCT:
            return len(set(vs)) == len(vs)
        raise EvalError('unsupported operator %s' % d.name())
    import sys
    old = sys.getrecursionlimit()
    sys.setrecursionlimit(max(old, 20000))
    try:
        return ev(term)
    finally:
        sys.setrecursionlimit(old)


def default_interp():
    """a concrete interpretation of the uninterpreted functions the overlays introduce (any interpretation is legitimate
    for refuting an equality)"""
    from fractions import Fraction

    def generic(nm, *a):
        # percentile contracts: an actual order statistic of the arguments; everything else: a fixed rational function
        if nm.startswith('pctl'):
            q = int(''.join(ch for ch in nm[4:6] if ch.isdigit()) or 50)
            s = sorted(a)
            return s[min(len(s) - 1, (len(s) * q) // 100)]
        h = sum((i + 2) * Fraction(v) for i, v in enumerate(a))
        salt = sum(ord(c) for c in nm) % 7 + 1
        return h * h / (salt + 3) + h / salt + Fraction(salt, 5)
    return {'*': generic, 'nom': lambda t: 1 + Fraction(t) * Fraction(t) / 7, 'log_r': lambda t: Fraction(t) / 3 + 1}


def refute_equal(name, lhs_terms, rhs_terms, varnames, seeds=(1, 2, 3), hyps=None, **extra):
    """try to refute And(lhs_i == rhs_i) by exact evaluation at a few rational points; returns True if refuted
    (an obligation with status 'refuted' and the witness is recorded)"""
    import random
    from fractions import Fraction
    interp = default_interp()
    for sd in seeds:
        rnd = random.Random(sd)
        assign = {v: Fraction(rnd.randint(-40, 40), rnd.randint(7, 23)) for v in varnames}
        for v in varnames:
            # the harnesses name step sizes h* (positive by the generator contract) and reciprocal step ratios q (in (0, 1))
            if v[:1] == 'h' and v[1:2] in ('', '_') + tuple('0123456789'):
                assign[v] = abs(assign[v]) / 8 + Fraction(1, 16)
            elif v == 'q':
                assign[v] = Fraction(rnd.randint(2, 7), 8)
        try:
            if hyps is not None:
                # the equality is claimed under hypotheses: only a point that satisfies every one of them is a witness
                # (hypotheses over symbols that are not assigned make the point unusable, not the claim false)
                if not all(evaluate(h, assign, interp) is True for h in hyps):
                    continue
            for a, b in zip(lhs_terms, rhs_terms):
                va, vb = evaluate(a, assign, interp), evaluate(b, assign, interp)
                if va != vb:
                    record(name, 'refuted', 'closed-term evaluation under a concrete interpretation', 0.0,
                           {k: str(v) for k, v in assign.items()}, 'vc', note='lhs=%s rhs=%s' % (float(va), float(vb)), **extra)
                    return True
        except (EvalError, ZeroDivisionError, OverflowError, RecursionError):
            continue
    return False
