"""ndvc.sym -- symbolic scalars for shadow execution of the real numdifftools code.

R  real term over z3 Real (float == mathematical real, assumption A1)
C  complex = pair of R
Z  integer term over z3 Int
B  boolean term; bool(B) is the only place control flow meets symbols (path driver)

Every value carries a *definedness* predicate `dfn` (None == True): the conjunction of
"denominator != 0" for all divisions that produced it (If-merged values select the
predicate of the chosen branch).
"""
import builtins
from fractions import Fraction
import z3
import numpy as np


class NeedsConcrete(Exception):
    """a symbolic value was used where only a concrete one is sound (hash, index, range bound)"""


class Undecided(Exception):
    """a feasibility query came back unknown"""


# --------------------------------------------------------------------------- context
class _Ctx(object):
    def __init__(self):
        self.const_facts = {}   # persistent: facts about algebraic constants (sqrt of rational literals)
        self.reset()

    def reset(self):
        self.path = []        # branch decisions taken (z3 Bool)
        self.facts = []       # definitional facts about introduced symbols (sqrt, |z|, ...)
        self.assumed = []     # named assumptions recorded by overlays (for evidence)
        self.script = []
        self.pos = 0
        self.pending = []
        self.sqrt_cache = {}
        self.uf_uses = {}     # name -> list of argument tuples (for axiom instantiation)
        self.fresh_n = 0
        self.decide_timeout = 10000
        self.forced = None    # optional callback cond -> True/False/None to force a branch (assumption)

    def fresh(self, tag, sort='real'):
        self.fresh_n += 1
        nm = '%s!%d' % (tag, self.fresh_n)
        return z3.Real(nm) if sort == 'real' else z3.Int(nm)


CTX = _Ctx()


def _note_hash():
    # a symbolic value used as a dict key: python compares candidates of equal hash with ==, which goes through
    # the path driver; keys are therefore equal iff their terms are structurally identical or provably equal with
    # a colliding hash.  Recorded as an assumption of the run.
    msg = 'symbolic value used as dict key (equality of keys decided structurally)'
    if msg not in CTX.assumed:
        CTX.assumed.append(msg)


def hyps():
    return list(CTX.path) + list(CTX.facts) + list(CTX.const_facts.values())


def decide(cond):
    """path driver: complete DFS by re-execution"""
    cond = z3.simplify(cond)
    if z3.is_true(cond):
        return True
    if z3.is_false(cond):
        return False
    if CTX.pos < len(CTX.script):
        d = CTX.script[CTX.pos]
    else:
        d = None
        if CTX.forced is not None:
            d = CTX.forced(cond)
        if d is None:
            # fast path: the condition may be decided by itself (no hypotheses: cheap even when the accumulated
            # facts are large)
            s0 = z3.Solver()
            s0.set('timeout', 2000)
            s0.push(); s0.add(z3.Not(cond)); r0 = s0.check(); s0.pop()
            if r0 == z3.unsat:
                d = True
            else:
                s0.push(); s0.add(cond); r1 = s0.check(); s0.pop()
                if r1 == z3.unsat:
                    d = False
        if d is None:
            s = z3.Solver()
            s.set('timeout', CTX.decide_timeout)
            s.add(*hyps())
            s.push(); s.add(cond); t = s.check(); s.pop()
            s.push(); s.add(z3.Not(cond)); f = s.check(); s.pop()
            if z3.unknown in (t, f):
                # an undecided feasibility query is treated as feasible on both sides (sound: explores a superset of paths)
                t = z3.sat if t == z3.unknown else t
                f = z3.sat if f == z3.unknown else f
            if t == z3.sat and f == z3.sat:
                CTX.pending.append(CTX.script[:CTX.pos] + [False])
                d = True
            elif t == z3.sat:
                d = True
            elif f == z3.sat:
                d = False
            else:
                raise Undecided('infeasible path reached')
        CTX.script.append(d)
    CTX.pos += 1
    CTX.path.append(cond if d else z3.Not(cond))
    return d


class PathResult(object):
    def __init__(self, path, facts, value=None, exc=None, assumed=()):
        self.path, self.facts, self.value, self.exc, self.assumed = path, facts, value, exc, list(assumed)

    @property
    def hyps(self):
        return list(self.path) + list(self.facts) + list(CTX.const_facts.values())


def explore(fn, pre=(), catch=(Exception,), max_paths=4096, forced=None):
    """run fn() on every feasible path; returns list of PathResult"""
    out = []
    todo = [[]]
    while todo:
        script = todo.pop()
        CTX.reset()
        CTX.forced = forced
        CTX.script = list(script)
        CTX.path.extend(pre)
        try:
            v = fn()
            out.append(PathResult(list(CTX.path), list(CTX.facts), value=v, assumed=CTX.assumed))
        except (NeedsConcrete, Undecided):
            raise
        except catch as e:          # the real code raised on this path
            out.append(PathResult(list(CTX.path), list(CTX.facts), exc=e, assumed=CTX.assumed))
        todo.extend(CTX.pending)
        if len(out) > max_paths:
            raise Undecided('more than %d paths' % max_paths)
    CTX.forced = None
    return out


# --------------------------------------------------------------------------- helpers
def _frac(v):
    if isinstance(v, bool):
        raise TypeError('bool')
    if isinstance(v, (int, np.integer)):
        return z3.RealVal(int(v))
    if isinstance(v, Fraction):
        return z3.RealVal(str(v))
    if isinstance(v, (float, np.floating)):
        f = float(v)
        if f != f or f in (float('inf'), float('-inf')):
            raise NeedsConcrete('non-finite float constant %r in symbolic arithmetic' % f)
        return z3.RealVal(str(Fraction(f)))
    raise TypeError(type(v))


def _and(a, b):
    if a is None:
        return b
    if b is None:
        return a
    return z3.And(a, b)


def dfn_of(*vals):
    d = None
    for v in vals:
        if isinstance(v, (R, Z, B)):
            d = _and(d, v.dfn)
        elif isinstance(v, C):
            d = _and(d, _and(v.re.dfn, v.im.dfn))
    return d


# --------------------------------------------------------------------------- B
class B(object):
    __slots__ = ('t', 'dfn')

    def __init__(self, t, dfn=None):
        self.t = t if isinstance(t, z3.ExprRef) else z3.BoolVal(builtins.bool(t))
        self.dfn = dfn

    def __repr__(self):
        return 'B(%s)' % z3.simplify(self.t)

    def __bool__(self):
        return decide(self.t)

    def _o(self, o):
        if isinstance(o, np.ndarray):
            return None
        return lb(o)

    def __or__(self, o):
        o = self._o(o)
        return NotImplemented if o is None else B(z3.Or(self.t, o.t), _and(self.dfn, o.dfn))
    __ror__ = __or__

    def __and__(self, o):
        o = self._o(o)
        return NotImplemented if o is None else B(z3.And(self.t, o.t), _and(self.dfn, o.dfn))
    __rand__ = __and__

    def __invert__(self):
        return B(z3.Not(self.t), self.dfn)

    def __add__(self, o):      # numpy bool + bool == logical or
        if isinstance(o, np.ndarray):
            return NotImplemented
        if isinstance(o, (B, bool, np.bool_)):
            return self.__or__(o)
        return lift(o) + R(z3.If(self.t, z3.RealVal(1), z3.RealVal(0)), self.dfn)
    __radd__ = __add__

    def __mul__(self, o):
        if isinstance(o, np.ndarray):
            return NotImplemented
        if isinstance(o, (B, bool, np.bool_)):
            return self.__and__(o)
        if isinstance(o, Z):
            return Z(z3.If(self.t, o.t, z3.IntVal(0)), _and(self.dfn, o.dfn))
        if isinstance(o, C):
            return C(self * o.re, self * o.im)
        o = lift(o)
        return R(z3.If(self.t, o.t, z3.RealVal(0)), _and(self.dfn, o.dfn))
    __rmul__ = __mul__

    def __eq__(self, o):
        o = self._o(o)
        return NotImplemented if o is None else B(self.t == o.t)

    def __hash__(self):
        raise NeedsConcrete('symbolic bool hashed')

    # numpy bool scalars have these
    def all(self, *a, **k):
        return self

    def any(self, *a, **k):
        return self


def lb(v):
    if isinstance(v, B):
        return v
    if isinstance(v, (bool, np.bool_)):
        return B(z3.BoolVal(builtins.bool(v)))
    if isinstance(v, (int, np.integer)) and v in (0, 1):
        return B(z3.BoolVal(builtins.bool(v)))
    raise TypeError('not a boolean: %r' % (v,))


# --------------------------------------------------------------------------- Z
class Z(object):
    """symbolic integer"""
    __slots__ = ('t', 'dfn')

    def __init__(self, t, dfn=None):
        self.t = t if isinstance(t, z3.ExprRef) else z3.IntVal(builtins.int(t))
        self.dfn = dfn

    def __repr__(self):
        return 'Z(%s)' % z3.simplify(self.t)

    @staticmethod
    def _o(o):
        if isinstance(o, Z):
            return o.t
        if isinstance(o, B):
            return z3.If(o.t, z3.IntVal(1), z3.IntVal(0))
        if isinstance(o, (bool, np.bool_)):
            return z3.IntVal(builtins.int(o))
        if isinstance(o, (int, np.integer)):
            return z3.IntVal(builtins.int(o))
        return None

    def _bin(self, o, f, swap=False):
        if isinstance(o, np.ndarray):
            return NotImplemented
        ot = Z._o(o)
        if ot is None:
            # mixed int/real arithmetic -> real
            if isinstance(o, (R, C, float, np.floating, Fraction, complex)):
                me = R(z3.ToReal(self.t), self.dfn)
                return f_real(f, lift(o), me) if swap else f_real(f, me, lift(o))
            return NotImplemented
        return Z(f(ot, self.t) if swap else f(self.t, ot), _and(self.dfn, dfn_of(o)))

    def __add__(self, o): return self._bin(o, lambda a, b: a + b)
    def __radd__(self, o): return self._bin(o, lambda a, b: a + b, True)
    def __sub__(self, o): return self._bin(o, lambda a, b: a - b)
    def __rsub__(self, o): return self._bin(o, lambda a, b: a - b, True)
    def __mul__(self, o): return self._bin(o, lambda a, b: a * b)
    def __rmul__(self, o): return self._bin(o, lambda a, b: a * b, True)
    def __neg__(self): return Z(-self.t, self.dfn)
    def __pos__(self): return self

    def __floordiv__(self, o):
        d = Z._o(o)
        if d is None or not z3.is_int_value(d) or d.as_long() <= 0:
            raise NeedsConcrete('// by a non-literal or non-positive divisor')
        return Z(self.t / d, self.dfn)      # python // == SMT-LIB div for positive divisors

    def __mod__(self, o):
        d = Z._o(o)
        if d is None or not z3.is_int_value(d) or d.as_long() <= 0:
            raise NeedsConcrete('% by a non-literal or non-positive divisor')
        return Z(self.t % d, self.dfn)

    def __truediv__(self, o):
        return R(z3.ToReal(self.t), self.dfn) / o

    def __rtruediv__(self, o):
        return o / R(z3.ToReal(self.t), self.dfn)

    def _cmp(self, o, f):
        if isinstance(o, np.ndarray):
            return NotImplemented
        ot = Z._o(o)
        if ot is None:
            if isinstance(o, (R, float, np.floating, Fraction)):
                return B(f(z3.ToReal(self.t), lift(o).t))
            return NotImplemented
        return B(f(self.t, ot))

    def __lt__(self, o): return self._cmp(o, lambda a, b: a < b)
    def __le__(self, o): return self._cmp(o, lambda a, b: a <= b)
    def __gt__(self, o): return self._cmp(o, lambda a, b: a > b)
    def __ge__(self, o): return self._cmp(o, lambda a, b: a >= b)
    def __eq__(self, o): return self._cmp(o, lambda a, b: a == b)
    def __ne__(self, o): return self._cmp(o, lambda a, b: a != b)

    def __abs__(self):
        return Z(z3.If(self.t >= 0, self.t, -self.t), self.dfn)

    def __hash__(self):
        _note_hash()
        return hash(('Z', z3.simplify(self.t).hash()))

    def __index__(self):
        raise NeedsConcrete('symbolic int used as index / range bound')

    def __int__(self):
        raise NeedsConcrete('symbolic int forced to int')

    def __float__(self):
        raise NeedsConcrete('symbolic int forced to float')

    def __bool__(self):
        return decide(self.t != 0)


def f_real(f, a, b):
    """apply a z3-level binary op lambda to two R/C values through their python operators"""
    # used only for mixed Z/R arithmetic: map the lambda by probing
    probe = f(z3.Real('p!a'), z3.Real('p!b'))
    k = probe.decl().kind()
    if k == z3.Z3_OP_ADD:
        return a + b
    if k == z3.Z3_OP_SUB:
        return a - b
    if k == z3.Z3_OP_MUL:
        return a * b
    raise NeedsConcrete('unsupported mixed int/real operation')


# --------------------------------------------------------------------------- R
class R(object):
    """symbolic real"""
    __slots__ = ('t', 'dfn')

    def __init__(self, t, dfn=None):
        self.t = t if isinstance(t, z3.ExprRef) else _frac(t)
        self.dfn = dfn

    def __repr__(self):
        return 'R(%s)' % z3.simplify(self.t)

    @property
    def real(self): return self
    @property
    def imag(self): return R(0)
    def conjugate(self): return self
    conj = conjugate

    def _bin(self, o, f, swap=False, div=False, cop=None):
        if isinstance(o, np.ndarray):
            return NotImplemented
        if isinstance(o, (C, complex, np.complexfloating)):
            a, b = C(self, R(0)), C.lift(o)
            return cop(b, a) if swap else cop(a, b)
        if isinstance(o, Z):
            o = R(z3.ToReal(o.t), o.dfn)
        if isinstance(o, B):
            o = R(z3.If(o.t, z3.RealVal(1), z3.RealVal(0)), o.dfn)
        if isinstance(o, R):
            ot, od = o.t, o.dfn
        else:
            try:
                ot, od = _frac(o), None
            except TypeError:
                return NotImplemented
        a, b = (ot, self.t) if swap else (self.t, ot)
        d = _and(self.dfn, od)
        if div:
            if not (z3.is_rational_value(b) and b.as_fraction() != 0):
                d = _and(d, b != 0)
        return R(f(a, b), d)

    def __add__(s, o): return s._bin(o, lambda a, b: a + b, cop=C._add)
    def __radd__(s, o): return s._bin(o, lambda a, b: a + b, True, cop=C._add)
    def __sub__(s, o): return s._bin(o, lambda a, b: a - b, cop=C._sub)
    def __rsub__(s, o): return s._bin(o, lambda a, b: a - b, True, cop=C._sub)
    def __mul__(s, o): return s._bin(o, lambda a, b: a * b, cop=C._mul)
    def __rmul__(s, o): return s._bin(o, lambda a, b: a * b, True, cop=C._mul)
    def __truediv__(s, o): return s._bin(o, lambda a, b: a / b, div=True, cop=C._div)
    def __rtruediv__(s, o): return s._bin(o, lambda a, b: a / b, True, div=True, cop=C._div)
    def __neg__(s): return R(-s.t, s.dfn)
    def __pos__(s): return s

    def __pow__(s, k):
        if isinstance(k, np.ndarray):
            return NotImplemented
        if isinstance(k, (R, C, Z)):
            return POW(s, k)
        if isinstance(k, (float, np.floating)) and float(k) != int(k):
            return POW(s, k)
        k = int(k)
        if k < 0:
            return R(1) / (s ** (-k))
        r = R(1)
        for _ in range(k):
            r = r * s
        if k == 0:
            return R(1, s.dfn)
        return r

    def __rpow__(s, base):
        if isinstance(base, np.ndarray):
            return NotImplemented
        return POW(base, s)

    def __abs__(s):
        return R(z3.If(s.t >= 0, s.t, -s.t), s.dfn)

    def _cmp(s, o, f):
        if isinstance(o, np.ndarray):
            return NotImplemented
        if isinstance(o, Z):
            o = R(z3.ToReal(o.t), o.dfn)
        if isinstance(o, C):
            return NotImplemented
        if isinstance(o, R):
            return B(f(s.t, o.t), _and(s.dfn, o.dfn))
        try:
            return B(f(s.t, _frac(o)), s.dfn)
        except TypeError:
            return NotImplemented

    def __lt__(s, o): return s._cmp(o, lambda a, b: a < b)
    def __le__(s, o): return s._cmp(o, lambda a, b: a <= b)
    def __gt__(s, o): return s._cmp(o, lambda a, b: a > b)
    def __ge__(s, o): return s._cmp(o, lambda a, b: a >= b)
    def __eq__(s, o): return s._cmp(o, lambda a, b: a == b)
    def __ne__(s, o): return s._cmp(o, lambda a, b: a != b)

    def __hash__(s):
        _note_hash()
        return hash(('R', z3.simplify(s.t).hash()))

    def __float__(s):
        raise NeedsConcrete('symbolic real forced to float')

    def __int__(s):
        raise NeedsConcrete('symbolic real forced to int')

    def __complex__(s):
        raise NeedsConcrete('symbolic real forced to complex')

    def __bool__(s):
        return decide(s.t != 0)

    def __round__(s, n=None):
        raise NeedsConcrete('round() of a symbolic real')

    def clip(s, min=None, max=None):
        v = s
        if min is not None:
            v = ite(v < min, lift(min), v)
        if max is not None:
            v = ite(v > max, lift(max), v)
        return v

    # numpy's object loops call these methods for the corresponding ufuncs
    def sqrt(s): return SQRT(s)
    def log(s): return UF1('log', s)
    def exp(s): return UF1('exp', s)
    def sin(s): return UF1('sin', s)
    def cos(s): return UF1('cos', s)
    def tan(s): return UF1('tan', s)
    def sinh(s): return UF1('sinh', s)
    def cosh(s): return UF1('cosh', s)
    def tanh(s): return UF1('tanh', s)
    def expm1(s): return UF1('expm1', s)
    def log1p(s): return UF1('log1p', s)
    def arctan(s): return UF1('arctan', s)
    def arcsin(s): return UF1('arcsin', s)
    def log2(s): return UF1('log2', s)
    def log10(s): return UF1('log10', s)
    def exp2(s): return UF1('exp2', s)


RS = z3.RealSort()
_UF = {}


def uf(name, arity=1, rng=None):
    key = (name, arity)
    if key not in _UF:
        _UF[key] = z3.Function(name, *([RS] * arity + [rng or RS]))
    return _UF[key]


def UF1(name, v):
    """uninterpreted elementary function (trusted mathematics supplies axiom instances)"""
    if isinstance(v, C):
        fre, fim = uf(name + '_re', 2), uf(name + '_im', 2)
        CTX.uf_uses.setdefault(name, []).append(v)
        d = dfn_of(v)
        return C(R(fre(v.re.t, v.im.t), d), R(fim(v.re.t, v.im.t), d))
    v = lift(v)
    CTX.uf_uses.setdefault(name, []).append(v)
    return R(uf(name + '_r')(v.t), v.dfn)


def SQRT(v):
    if isinstance(v, C):
        return UF1('sqrt', v)
    v = lift(v)
    tt = z3.simplify(v.t)
    key = tt.get_id()
    hit = CTX.sqrt_cache.get(key)
    if hit is None:
        if z3.is_rational_value(tt):
            fr = tt.as_fraction()
            import math
            num, den = math.isqrt(fr.numerator) if fr.numerator >= 0 else -1, math.isqrt(fr.denominator)
            if fr >= 0 and num * num == fr.numerator and den * den == fr.denominator:
                hit = (tt, z3.RealVal(str(Fraction(num, den))))
                CTX.sqrt_cache[key] = hit
                return R(hit[1], v.dfn)
            s = z3.Real('sqrt[%s]' % fr)
            CTX.const_facts[str(fr)] = z3.And(s > 0, s * s == tt)
            return R(s, v.dfn)
        else:
            s = CTX.fresh('sqrt')
        # M6: sqrt(v) >= 0 and sqrt(v)**2 == v   (for v >= 0; the real sqrt of a negative number is NaN: outside A1)
        CTX.facts.append(z3.And(s >= 0, s * s == tt))
        hit = (tt, s)
        CTX.sqrt_cache[key] = hit
    return R(hit[1], v.dfn)


def POW(base, e):
    """general power with a symbolic or non-integer exponent: uninterpreted pow(base, e) (M4 axioms by the harness)"""
    if isinstance(base, C) or isinstance(e, C) or isinstance(base, (complex, np.complexfloating)):
        b, ee = C.lift(base), C.lift(e)
        fre, fim = uf('cpow_re', 4), uf('cpow_im', 4)
        args = (b.re.t, b.im.t, ee.re.t, ee.im.t)
        d = dfn_of(b, ee)
        return C(R(fre(*args), d), R(fim(*args), d))
    b, ee = lift(base), lift(e)
    CTX.uf_uses.setdefault('pow', []).append((b, ee))
    return R(uf('pow', 2)(b.t, ee.t), _and(b.dfn, ee.dfn))


def lift(v):
    if isinstance(v, (R, C)):
        return v
    if isinstance(v, Z):
        return R(z3.ToReal(v.t), v.dfn)
    if isinstance(v, B):
        return R(z3.If(v.t, z3.RealVal(1), z3.RealVal(0)), v.dfn)
    if isinstance(v, (complex, np.complexfloating)):
        return C.lift(v)
    if isinstance(v, np.ndarray) and v.shape == ():
        return lift(v.item())
    return R(v)


# --------------------------------------------------------------------------- C
class C(object):
    """symbolic complex = pair of symbolic reals"""
    __slots__ = ('re', 'im')

    def __init__(self, re, im):
        self.re = re if isinstance(re, R) else lift(re)
        self.im = im if isinstance(im, R) else lift(im)

    @staticmethod
    def lift(o):
        if isinstance(o, C):
            return o
        if isinstance(o, R):
            return C(o, R(0))
        if isinstance(o, (complex, np.complexfloating)):
            return C(R(o.real), R(o.imag))
        if isinstance(o, np.ndarray) and o.shape == ():
            return C.lift(o.item())
        return C(lift(o), R(0))

    def __repr__(self):
        return 'C(%r,%r)' % (self.re, self.im)

    @property
    def real(self): return self.re
    @property
    def imag(self): return self.im
    def conjugate(self): return C(self.re, -self.im)
    conj = conjugate

    def _b(self, o, f, swap=False):
        if isinstance(o, np.ndarray):
            return NotImplemented
        try:
            o = C.lift(o)
        except TypeError:
            return NotImplemented
        return f(o, self) if swap else f(self, o)

    @staticmethod
    def _add(a, b): return C(a.re + b.re, a.im + b.im)
    @staticmethod
    def _sub(a, b): return C(a.re - b.re, a.im - b.im)
    @staticmethod
    def _mul(a, b): return C(a.re * b.re - a.im * b.im, a.re * b.im + a.im * b.re)
    @staticmethod
    def _div(a, b):
        if z3.is_rational_value(z3.simplify(b.im.t)) and z3.simplify(b.im.t).as_fraction() == 0:
            return C(a.re / b.re, a.im / b.re)
        d = b.re * b.re + b.im * b.im
        return C((a.re * b.re + a.im * b.im) / d, (a.im * b.re - a.re * b.im) / d)

    def __add__(s, o): return s._b(o, C._add)
    def __radd__(s, o): return s._b(o, C._add, True)
    def __sub__(s, o): return s._b(o, C._sub)
    def __rsub__(s, o): return s._b(o, C._sub, True)
    def __mul__(s, o): return s._b(o, C._mul)
    def __rmul__(s, o): return s._b(o, C._mul, True)
    def __truediv__(s, o): return s._b(o, C._div)
    def __rtruediv__(s, o): return s._b(o, C._div, True)
    def __neg__(s): return C(-s.re, -s.im)
    def __pos__(s): return s

    def __pow__(s, k):
        if isinstance(k, np.ndarray):
            return NotImplemented
        if isinstance(k, (R, C, Z)):
            return POW(s, k)
        if isinstance(k, (float, np.floating)) and float(k) != int(k):
            return POW(s, k)
        if isinstance(k, (complex, np.complexfloating)):
            return POW(s, k)
        k = int(k)
        if k < 0:
            return 1 / (s ** (-k))
        r = C(R(1), R(0))
        for _ in range(k):
            r = r * s
        return r

    def __rpow__(s, base):
        if isinstance(base, np.ndarray):
            return NotImplemented
        return POW(base, s)

    def __abs__(s):
        return SQRT(s.re * s.re + s.im * s.im)

    def __eq__(s, o):
        if isinstance(o, np.ndarray):
            return NotImplemented
        o = C.lift(o)
        return B(z3.And(s.re.t == o.re.t, s.im.t == o.im.t), dfn_of(s, o))

    def __ne__(s, o):
        r = s.__eq__(o)
        return r if r is NotImplemented else ~r

    def __hash__(s):
        _note_hash()
        return hash(('C', z3.simplify(s.re.t).hash(), z3.simplify(s.im.t).hash()))

    def __float__(s):
        raise NeedsConcrete('symbolic complex forced to float')

    def __complex__(s):
        raise NeedsConcrete('symbolic complex forced to complex')

    def __bool__(s):
        return decide(z3.Or(s.re.t != 0, s.im.t != 0))

    def sqrt(s): return UF1('sqrt', s)
    def log(s): return UF1('log', s)
    def exp(s): return UF1('exp', s)
    def sin(s): return UF1('sin', s)
    def cos(s): return UF1('cos', s)
    def tan(s): return UF1('tan', s)
    def sinh(s): return UF1('sinh', s)
    def cosh(s): return UF1('cosh', s)
    def tanh(s): return UF1('tanh', s)
    def expm1(s): return UF1('expm1', s)
    def log1p(s): return UF1('log1p', s)
    def arctan(s): return UF1('arctan', s)
    def arcsin(s): return UF1('arcsin', s)
    def log2(s): return UF1('log2', s)
    def log10(s): return UF1('log10', s)
    def exp2(s): return UF1('exp2', s)


SYM = (R, C, Z, B)


def real(name):
    return R(z3.Real(name))


def cplx(name):
    return C(z3.Real(name + '.re'), z3.Real(name + '.im'))


def integer(name):
    return Z(z3.Int(name))


def is_sym(a):
    if isinstance(a, SYM):
        return True
    if isinstance(a, np.ndarray):
        return a.dtype == object
    if isinstance(a, (list, tuple)):
        return any(is_sym(v) for v in a)
    return False


def ceq(a, b):
    """z3 formula: a == b for R / C / numbers"""
    a, b = lift(a), lift(b)
    if isinstance(a, C) or isinstance(b, C):
        a, b = C.lift(a), C.lift(b)
        return z3.And(a.re.t == b.re.t, a.im.t == b.im.t)
    return a.t == b.t


def parts(v):
    """list of z3 real terms making up v (1 for R, 2 for C)"""
    v = lift(v)
    return [v.re.t, v.im.t] if isinstance(v, C) else [v.t]


def ite(c, a, b):
    """merge two values under a symbolic condition"""
    c = lb(c)
    if isinstance(a, B) or isinstance(b, B) or isinstance(a, (bool, np.bool_)) and isinstance(b, (bool, np.bool_)):
        a, b = lb(a), lb(b)
        return B(z3.If(c.t, a.t, b.t), _ite_dfn(c, a.dfn, b.dfn))
    if isinstance(a, Z) and isinstance(b, (Z, int, np.integer)) or isinstance(b, Z) and isinstance(a, (int, np.integer)):
        at, bt = Z._o(a), Z._o(b)
        return Z(z3.If(c.t, at, bt), _ite_dfn(c, dfn_of(a), dfn_of(b)))
    a, b = lift(a), lift(b)
    if isinstance(a, C) or isinstance(b, C):
        a, b = C.lift(a), C.lift(b)
        return C(ite(c, a.re, b.re), ite(c, a.im, b.im))
    return R(z3.If(c.t, a.t, b.t), _ite_dfn(c, a.dfn, b.dfn))


def _ite_dfn(c, da, db):
    if da is None and db is None:
        return c.dfn
    d = z3.If(c.t, da if da is not None else z3.BoolVal(True), db if db is not None else z3.BoolVal(True))
    return _and(c.dfn, d)
