"""ndvc.vec -- SymVec: a 1-D array of SYMBOLIC length backed by an uninterpreted function Int -> Real.
Every read / write / slice records an in-bounds obligation (numpy would clip a slice silently or wrap a negative
index); slices with a symbolic start and a concrete length return SymArr of element terms."""
import builtins
import numpy as np
import z3
from .sym import R, Z, B, lift, NeedsConcrete, CTX, hyps
from .arr import SymArr


class SymVec(object):
    def __init__(self, name, n, log=None):
        self.name = name
        self.f = z3.Function(name, z3.IntSort(), z3.RealSort())
        self.n = n if isinstance(n, Z) else Z(n)
        self.log = log if log is not None else []     # (kind, index term, path hyps snapshot[, value])
        self.writes = []

    # -- helpers
    def _idx(self, k):
        """normalise an index (python int, negative int, Z) to a simplified z3 Int term"""
        if isinstance(k, Z):
            t = k.t
        elif isinstance(k, (int, np.integer)):
            t = z3.IntVal(int(k)) if k >= 0 else self.n.t + int(k)
        else:
            raise NeedsConcrete('unsupported index %r' % (k,))
        return z3.simplify(t)

    def elem(self, t):
        t = z3.simplify(t)
        self.log.append(('read', t, hyps()))
        return R(self.f(t))

    def __getitem__(self, k):
        if isinstance(k, slice):
            if k.step not in (None, 1):
                raise NeedsConcrete('strided slice of a symbolic-length vector')
            start = z3.IntVal(0) if k.start is None else self._idx(k.start)
            stop = self.n.t if k.stop is None else self._idx(k.stop)
            ln = z3.simplify(stop - start)
            if not z3.is_int_value(ln):
                raise NeedsConcrete('slice of symbolic length: %s' % ln)
            L = ln.as_long()
            # numpy clips silently: the window must be inside the vector
            self.log.append(('slice', (start, stop), hyps()))
            return SymArr([R(self.f(z3.simplify(start + j))) for j in range(builtins.max(L, 0))])
        return self.elem(self._idx(k))

    def __setitem__(self, k, v):
        t = self._idx(k)
        self.log.append(('write', t, hyps()))
        self.writes.append((t, v, hyps()))

    def __iter__(self):
        raise NeedsConcrete('iteration over a symbolic-length vector')

    def __array__(self, *a, **k):
        # a numpy function that is not overlaid was applied to the vector: not a verdict about the code
        raise NeedsConcrete('numpy function applied to a symbolic-length vector (not modelled)')

    def __len__(self):
        raise NeedsConcrete('len() of a symbolic-length vector must go through the builtins overlay')

    @property
    def shape(self):
        raise NeedsConcrete('shape of a symbolic-length vector')


class SymRange(object):
    def __init__(self, lo, hi):
        self.lo = lo if isinstance(lo, Z) else Z(lo)
        self.hi = hi if isinstance(hi, Z) else Z(hi)

    def __iter__(self):
        raise NeedsConcrete('loop over a symbolic range must be cut')


def vc_len(a):
    if isinstance(a, SymVec):
        return a.n
    return builtins.len(a)


def vc_range(*a):
    if builtins.any(isinstance(v, Z) for v in a):
        if len(a) == 1:
            return SymRange(0, a[0])
        if len(a) == 2:
            return SymRange(a[0], a[1])
        raise NeedsConcrete('symbolic range with a step')
    return builtins.range(*a)


def in_bounds_obligations(vec):
    """list of (description, goal, hyps) for every recorded access"""
    out = []
    for ent in vec.log:
        kind, t, hy = ent[0], ent[1], ent[2]
        if kind == 'slice':
            start, stop = t
            out.append(('%s[%s:%s] inside the vector (no silent clipping)' % (vec.name, start, stop),
                        z3.And(start >= 0, stop <= vec.n.t, start <= stop), hy))
        else:
            out.append(('%s %s[%s] in bounds' % (kind, vec.name, t), z3.And(t >= 0, t < vec.n.t), hy))
    return out
