"""concrete cross-check of the symbolic engine against CPython + the real numpy (assumptions A2/A3 of DESIGN.md).

The engine executes the repository's functions on z3 terms held in object arrays, with numpy replaced by an overlay.  That
is only as good as the overlay: an overlay function that does not behave like numpy (wrong axis, dropped keyword, wrong
memory order) makes every proof about the wrong program.  A cross-check takes the value the symbolic run produced on
some path, evaluates it exactly at a concrete rational point (taking the path whose conditions hold there), runs the SAME
repository function natively -- no overlay, real numpy, floats -- at that point, and compares.  A mismatch is reported
as kind 'xcheck' (exit 3, engine problem), never as a violation of the property.
"""
import cmath
import math
from fractions import Fraction
import numpy as np
import z3
from . import solve
from .sym import R, C, Z, B, CTX, lift

ELEMENTARY = {'exp': cmath.exp, 'log': cmath.log, 'sin': cmath.sin, 'cos': cmath.cos, 'tan': cmath.tan, 'sinh': cmath.sinh,
              'cosh': cmath.cosh, 'tanh': cmath.tanh, 'sqrt': cmath.sqrt, 'arctan': cmath.atan, 'arcsin': cmath.asin,
              'arccos': cmath.acos, 'expm1': lambda z: cmath.exp(z) - 1, 'log1p': lambda z: cmath.log(1 + z)}


def numeric_interp():
    """floating-point interpretation of the uninterpreted elementary functions (values converted back to Fractions)"""
    interp = dict(solve.default_interp())

    def mk(fn, part, arity):
        def f(*a):
            if arity == 1:
                v = fn(complex(float(a[0])))
                return Fraction(v.real)
            v = fn(complex(float(a[0]), float(a[1])))
            return Fraction(v.real if part == 're' else v.imag)
        return f
    for nm, fn in ELEMENTARY.items():
        interp[nm + '_r'] = mk(fn, 're', 1)
        interp[nm + '_re'] = mk(fn, 're', 2)
        interp[nm + '_im'] = mk(fn, 'im', 2)
    generic0 = interp.get('*')

    def generic(nm, *a):
        # percentile contracts  pctl<q>_<K>(column) / pctl<q>_flat<N>(all entries): numpy's own percentile
        if nm.startswith('pctl'):
            q = int(''.join(ch for ch in nm[4:].split('_')[0] if ch.isdigit()))
            return Fraction(float(np.percentile(np.array([float(v) for v in a]), q)))
        return generic0(nm, *a)
    interp['*'] = generic
    interp['pow'] = lambda b, e: Fraction(float(b) ** float(e))
    interp['cpow_re'] = lambda a, b, c, d: Fraction((complex(float(a), float(b)) ** complex(float(c), float(d))).real)
    interp['cpow_im'] = lambda a, b, c, d: Fraction((complex(float(a), float(b)) ** complex(float(c), float(d))).imag)
    return interp


def _sqrt_definitions(facts):
    """facts of the form And(s >= 0, s*s == t) (M6, added by sym.SQRT): {id: (t, s)}"""
    out = {}
    for f in facts:
        if z3.is_and(f) and f.num_args() == 2:
            a, b = f.children()
            if z3.is_eq(b) and z3.is_app(b.arg(0)) and b.arg(0).decl().kind() == z3.Z3_OP_MUL and b.arg(0).num_args() == 2 \
                    and b.arg(0).arg(0).eq(b.arg(0).arg(1)) and z3.is_const(b.arg(0).arg(0)):
                out[b.arg(0).arg(0).get_id()] = (b.arg(1), b.arg(0).arg(0))
    return out


def complete_assignment(assign, facts=(), interp_extra=None):
    """add the values of the algebraic helper symbols (square roots introduced by SQRT) to an assignment of the inputs"""
    assign = dict(assign)
    interp = numeric_interp()
    interp.update(interp_extra or INTERP_EXTRA[0] or {})
    pending = dict(CTX.sqrt_cache)
    pending.update(_sqrt_definitions(facts))
    for _ in range(len(pending) + 2):
        for key, (tt, s) in list(pending.items()):
            if z3.is_rational_value(s):
                pending.pop(key); continue
            try:
                v = solve.evaluate(tt, assign, interp)
            except solve.EvalError:
                continue
            assign[str(s)] = Fraction(math.sqrt(float(v))) if v >= 0 else Fraction(0)
            pending.pop(key)
    for nm in list(CTX.const_facts):
        # algebraic constants sqrt[p/q]
        try:
            fr = Fraction(nm)
            assign.setdefault('sqrt[%s]' % fr, Fraction(math.sqrt(float(fr))))
        except (ValueError, ZeroDivisionError):
            pass
    return assign, interp


def concretize(v, assign, interp):
    """symbolic value -> python / numpy value"""
    if isinstance(v, C):
        return complex(float(solve.evaluate(v.re.t, assign, interp)), float(solve.evaluate(v.im.t, assign, interp)))
    if isinstance(v, R):
        return float(solve.evaluate(v.t, assign, interp))
    if isinstance(v, Z):
        return int(solve.evaluate(v.t, assign, interp))
    if isinstance(v, B):
        return bool(solve.evaluate(v.t, assign, interp))
    if isinstance(v, np.ndarray):
        if v.dtype != object:
            return np.asarray(v)
        flat = [concretize(e, assign, interp) for e in np.asarray(v).ravel()]
        out = np.array(flat, dtype=complex if any(isinstance(e, complex) for e in flat) else float) if flat else np.zeros(0)
        return out.reshape(v.shape)
    if isinstance(v, tuple) and hasattr(v, '_fields'):
        return type(v)(*[concretize(e, assign, interp) for e in v])
    if isinstance(v, (tuple, list)):
        return type(v)(concretize(e, assign, interp) for e in v)
    if isinstance(v, dict):
        return {k: concretize(e, assign, interp) for k, e in v.items()}
    if hasattr(v, 'z1') and hasattr(v, 'z2'):          # Bicomplex
        return (concretize(v.z1, assign, interp), concretize(v.z2, assign, interp))
    return v


def holds(conds, assign, interp):
    for c in conds:
        try:
            if not solve.evaluate(c, assign, interp):
                return False
        except solve.EvalError:
            return None
    return True


def pick_path(paths, assign, interp):
    """the explored path whose branch conditions hold at the concrete point"""
    hits = [p for p in paths if holds(p.path, assign, interp)]
    return hits[0] if len(hits) == 1 else None


def same(a, b, rtol, atol):
    if isinstance(a, (tuple, list)) and isinstance(b, (tuple, list)):
        return len(a) == len(b) and all(same(x, y, rtol, atol) for x, y in zip(a, b))
    if hasattr(b, 'z1') and hasattr(b, 'z2') and isinstance(a, tuple):
        return same(a[0], b.z1, rtol, atol) and same(a[1], b.z2, rtol, atol)
    if a is None or b is None or isinstance(a, (str, bytes)) or isinstance(b, (str, bytes)):
        return a == b
    try:
        a_, b_ = np.asarray(a), np.asarray(b)
        if a_.dtype == object or b_.dtype == object:
            return a_.shape == b_.shape and all(same(x, y, rtol, atol) for x, y in zip(a_.ravel(), b_.ravel()))
        # entries that cancel to (almost) nothing are compared on the scale of the array they belong to
        scale = float(np.max(np.abs(b_[np.isfinite(b_)]))) if b_.size and np.any(np.isfinite(b_)) else 0.0
        return a_.shape == b_.shape and bool(np.allclose(a_, b_, rtol=rtol, atol=atol + rtol * scale, equal_nan=True))
    except Exception:
        return a == b


def check(name, paths_or_value, assign, native, rtol=1e-9, atol=1e-12):
    """record one cross-check.  `paths_or_value`: list of PathResult (the path valid at the point is selected) or a
    symbolic value; `assign`: {symbol name: Fraction} for the inputs; `native`: zero-argument callable running the real
    code on the same numbers (floats) without any overlay."""
    try:
        base_assign = assign
        assign, interp = complete_assignment(base_assign)
        if isinstance(paths_or_value, list) and paths_or_value and hasattr(paths_or_value[0], 'path'):
            hits = []
            for cand in paths_or_value:
                a_, i_ = complete_assignment(base_assign, cand.facts)
                if holds(cand.path, a_, i_):
                    hits.append((cand, a_, i_))
            if len(hits) != 1:
                return solve.xcheck(name, False, note='%d explored paths are valid at the concrete point (expected exactly one)' % len(hits))
            p, assign, interp = hits[0]
            if p.exc is not None:
                try:
                    native()
                except type(p.exc):
                    return solve.xcheck(name, True, note='both raise %s' % type(p.exc).__name__)
                return solve.xcheck(name, False, note='symbolic run raises %r, native run does not' % (p.exc,))
            sym = concretize(p.value, assign, interp)
        else:
            sym = concretize(paths_or_value, assign, interp)
        nat = native()
        ok = same(sym, nat, rtol, atol)
        return solve.xcheck(name, ok, note='' if ok else ('symbolic=%s native=%s' % (str(sym)[:200], str(nat)[:200])))
    except Exception as e:       # an evaluation problem is an engine problem, not a verdict
        return solve.xcheck(name, False, note='cross-check failed to run: %r' % (e,))


def fractions_for(names, seed=1, lo=-3.0, hi=3.0, positive=()):
    """a reproducible rational assignment; names in `positive` get values in (0.2, 0.9)"""
    import random
    rnd = random.Random(seed)
    out = {}
    for nm in names:
        if nm in positive:
            out[nm] = Fraction(rnd.randint(20, 90), 100)
        else:
            out[nm] = Fraction(rnd.randint(int(lo * 64), int(hi * 64)), 64) + Fraction(1, 128)
    return out


def assign_pinv(assign, interp, pinv_log):
    """values for the symbols of the pinv contract (fresh P with P.M == I): the numerical inverse of M at the point"""
    for M, P in pinv_log:
        Mv = np.asarray(concretize(np.asarray(M, dtype=object), assign, interp), dtype=complex)
        Pv = np.linalg.inv(Mv)
        for idx in np.ndindex(Pv.shape):
            e = lift(np.asarray(P, dtype=object)[idx])
            if isinstance(e, C):
                if z3.is_const(e.re.t) and not z3.is_rational_value(e.re.t):
                    assign[str(e.re.t)] = Fraction(float(Pv[idx].real))
                if z3.is_const(e.im.t) and not z3.is_rational_value(e.im.t):
                    assign[str(e.im.t)] = Fraction(float(Pv[idx].imag))
            elif z3.is_const(e.t) and not z3.is_rational_value(e.t):
                assign[str(e.t)] = Fraction(float(Pv[idx].real))
    return assign


DEFERRED = []
INTERP_EXTRA = [None]


def defer(name, paths_or_value, assign, native, pinv_log=(), rtol=1e-9, atol=1e-12, interp_extra=None, project=None):
    """two-phase cross-check for harnesses that run inside an overlay: the symbolic value is evaluated now (the symbol
    tables of this run are still alive), the native run happens at flush(), outside the overlay"""
    INTERP_EXTRA[0] = interp_extra
    try:
        base = dict(assign)
        facts = ()
        p = None
        if isinstance(paths_or_value, list) and paths_or_value and hasattr(paths_or_value[0], 'path'):
            hits = []
            for cand in paths_or_value:
                a_, i_ = complete_assignment(base, cand.facts)
                if pinv_log:
                    assign_pinv(a_, i_, pinv_log)
                    a_, i_ = complete_assignment(a_, cand.facts)       # square roots of terms that contain the inverse
                if holds(cand.path, a_, i_):
                    hits.append((cand, a_, i_))
            if len(hits) != 1:
                DEFERRED.append((solve.GROUP[0], name, ('error', '%d explored paths are valid at the concrete point' % len(hits)), native, rtol, atol))
                return
            p, a_, i_ = hits[0]
            val = ('raises', type(p.exc)) if p.exc is not None else ('value', concretize((project or (lambda v: v))(p.value), a_, i_))
        else:
            a_, i_ = complete_assignment(base, list(CTX.facts))
            if pinv_log:
                assign_pinv(a_, i_, pinv_log)
                a_, i_ = complete_assignment(a_, list(CTX.facts))
            val = ('value', concretize((project or (lambda v: v))(paths_or_value), a_, i_))
        DEFERRED.append((solve.GROUP[0], name, val, native, rtol, atol))
    except Exception as e:
        DEFERRED.append((solve.GROUP[0], name, ('error', 'symbolic side could not be evaluated: %r' % (e,)), native, rtol, atol))
    finally:
        INTERP_EXTRA[0] = None


def flush():
    """run the native sides (call this outside every overlay) and record the cross-checks"""
    keep = solve.GROUP[0]
    try:
        for grp, name, val, native, rtol, atol in DEFERRED:
            solve.GROUP[0] = grp
            if val[0] == 'error':
                solve.xcheck(name, False, note=val[1]); continue
            try:
                nat = native()
            except Exception as e:
                ok = val[0] == 'raises' and isinstance(e, val[1])
                solve.xcheck(name, ok, note='native run raises %r' % (e,)); continue
            if val[0] == 'raises':
                solve.xcheck(name, False, note='symbolic run raises %s, native run returns' % val[1].__name__); continue
            ok = same(val[1], nat, rtol, atol)
            solve.xcheck(name, ok, note='' if ok else ('symbolic=%s native=%s' % (str(val[1])[:300], str(nat)[:300])))
    finally:
        del DEFERRED[:]
        solve.GROUP[0] = keep
