"""C01 -- Derivative returns the n-th derivative (decided core: composition of the contracts of C06, C07, C13, C08, C10, C12
through the real glue of Derivative).

Input model: the generic polynomial of degree D = n + method_order + richardson_step*richardson_terms - 1 with symbolic
Taylor coefficients b_k (real, and complex for the real-step methods), symbolic x and base step, geometric steps from the
generator contract (C10) with ratio 2, 4 or 1.6.
  W   wiring at LogRule.apply (checked against its contract, C06): the sequence handed to the rule is, row by row, the
      difference quotient rule.diff(f, f(x), x, step_k) of the caller's function at the generator's steps, the same step
      list and the generator's ratio are passed on, the Richardson stage built in the same call has (order, step, num_terms,
      step_ratio) == (method_order, richardson_step, richardson_terms, generator ratio)
  V   value: with the table returned by the rule of the form b_n + sum_{j<terms} a_j h_k^(method_order+step*j) (C06's
      postcondition; a_j arbitrary), the real Richardson (exact inverse instance of the pinv contract), dea3,
      _get_best_estimate and the reshaping return b_n exactly; the degree exceeds n+method_order-1, so a wrong pairing of rule
      and extrapolator fails here
  E   full_output record: error_estimate >= 0 and final_step one of the generated steps (also C02)
  Z   n == 0 returns f(x) itself
  M   multicomplex: the rule is the identity ([1]) and the same composition holds with the C12 consumer contract
"""
import itertools
import math
import warnings
from fractions import Fraction
import numpy as np
import z3
from ndvc import solve, overlay
from ndvc.sym import R, C, real, cplx, lift, CTX, explore, NeedsConcrete, parts
from ndvc.arr import SymArr, asobj, wrap
from .common import fd_env, ALL, mods, taylor_poly
from .pipeline import all_parts, free_syms

ID = 'C01'
TRUSTED = ['A1 float == real: the accuracy ENVELOPE for non-polynomial f under rounding is not decided (no contract within '
           'reach expresses it); what is proved is exactness on the polynomial class that the whole pipeline is designed to '
           'reproduce, for every configuration',
           'contracts composed: C06 (rule exact to its order, residual powers), C07 (Richardson), C13 (dea3), C08 (selection), '
           'C10 (generator), C12 (Bicomplex consumers); pinv instantiated by the exact rational inverse',
           'z3 / cvc5 as deciders']
ASSUMPTIONS = ['steps positive and geometric (generator contract: re-discharged on the real Min/Max generators in contract:generator[..]); f finite at the evaluation points']
NOT_DECIDED = ['the per-(method, n) relative accuracy envelope for general real-analytic f (a quantitative statement about IEEE '
               'arithmetic and adaptive step selection)']
BOUNDED = ['integer-x: integer-typed x (4 concrete x, n = 1..3, all methods) compared with float x -- executed with the real numpy, not proved']
QUANTIFIED = 'x, base step, all Taylor coefficients b_k (real / complex), the residual coefficients a_j: universally quantified; ' \
             '(method, n, order, richardson_terms, ratio) enumerated'

METHODS = ['central', 'forward', 'backward', 'complex', 'multicomplex']


def grid(tier):
    out = []
    if tier == 'quick':
        ns, orders, terms, ratios = [1, 2, 3, 4], [2, 4], [2], [2.0, 4.0]
    else:
        ns, orders, terms, ratios = [1, 2, 3, 4, 5, 6, 8], [1, 2, 3, 4, 6, 8], [1, 2, 3], [2.0, 4.0, 8.0]
    for m in METHODS:
        for n in ns:
            if m == 'multicomplex' and n > 2:
                continue
            out.append((m, n, tuple(orders), tuple(terms), tuple(ratios)))
    return out


def enumerated(tier):
    g = grid(tier)
    return 'methods x n x orders %s x richardson_terms %s x ratios %s; real and complex coefficients' % (g[0][2], g[0][3], g[0][4])


def groups(tier):
    out = [('value[%s,n=%d]' % (m, n), ('value', m, n, o, t, r)) for (m, n, o, t, r) in grid(tier)]
    out.append(('zero-order', ('zero',)))
    out.append(('integer-x', ('intx',)))
    out += contract_groups(tier)
    return out


def contract_groups(tier):
    """The value groups above are modular: they take the rule (C06), the per-column selection (C08), the element-wise
    array handling (C08) and the Bicomplex algebra (C12) by contract.  A change that breaks one of those contracts breaks
    this property too, so the obligations of those contracts are discharged here as well (same generators, own group
    names `contract:...`); Richardson and dea3 are executed for real in the value groups."""
    from . import C06, C12
    ns, orders = C06.grid(tier)
    out = []
    for m in C06.METHODS:
        for n in ns:
            out.append(('contract:rule[%s,n=%d]' % (m, n), ('dep', 'C06', 'run_cfg', (m, n, orders), dict(group_fmt='contract:rule[%s,n=%d]/order=%d/', requested_order=False))))
    for kn in [(4, 2), (3, 3), (6, 2), (1, 2), (2, 1)]:
        out.append(('contract:best-estimate[%d,%d]' % kn, ('dep', 'C08', 'run_best', kn, {})))
    for c in [('central', 1, 2), ('complex', 1, 2)] + ([] if tier == 'quick' else [('forward', 3, 3), ('multicomplex', 2, 2)]):
        out.append(('contract:elementwise[%s,n=%d,order=%d]' % c, ('dep', 'C08', 'run_deriv', c, {})))
    for g, a in C12.groups(tier):
        out.append(('contract:bicomplex[%s]' % g, ('dep', 'C12', 'run_group', (a,), {})))
    # the rule cache as shipped (run_cfg above starts from an empty cache) and the accepted range of n ("every derivative order the
    # library accepts": multicomplex stops at n = 2 -- beyond that it must refuse, not return numbers)
    out.append(('contract:rule-cache-at-import', ('dep', 'C06', 'run_cache0', (), {})))
    out.append(('contract:rule-cache', ('dep', 'C09', 'run_ci', (), {})))
    out.append(('contract:generator-defaults', ('dep', 'C10', 'run_scale', (tier,), {})))
    out.append(('contract:accepted-orders[multicomplex]', ('dep', 'C11', 'run_mcn', (), {})))
    # "every configuration the library accepts": a step sequence shorter than the rule must be refused, not turned into numbers
    out.append(('contract:accepted-step-counts', ('dep', 'C11', 'run_steps', (), {})))
    # the value groups run on a contract stub of the step generator (positive geometric steps with the reported ratio): the
    # real Min/Max generators are shown to produce exactly that here (generator shared with C10)
    for kind in ('Min', 'Max'):
        for part in range(4):
            out.append(('contract:generator[%s,%d]' % (kind, part), ('dep', 'C10', 'run_seq', (kind, part, tier), {})))
    return out


def functions_under_contract():
    m = mods(); core, lm = m['core'], m['lm']
    D = core.Derivative
    return [D.__init__, D._step_generator, D._get_steps, D._eval_first, D._derivative_nonzero_order, D._derivative_zero_order,
            D.set_richardson_rule, D._get_functions, D.__call__, lm._Limit._extrapolate, lm._Limit._wynn_extrapolate,
            lm._Limit._get_best_estimate, lm._Limit._add_error_to_outliers, lm._Limit._get_arg_min, lm._Limit._vstack]


class Gen(object):
    def __init__(self, K, ratio):
        self.K, self.step_ratio = K, ratio
        self.args = None

    def step_generator_function(self, x, method='forward', n=1, order=2):
        self.args = (method, n, order)
        return self

    def steps(self):
        q = Fraction(1) / Fraction(self.step_ratio)
        return [real('h0') * q ** k for k in range(self.K)]

    def __call__(self):
        return iter(self.steps())


def run_value(method, n, orders, terms, ratios):
    info = dict(configs=0)
    overlay.PINV_EXACT[0] = True
    try:
        with fd_env(names=ALL, symkey_cache=False) as m:
            core, fd, mc = m['core'], m['fd'], m['mc']
            S2 = list(CTX.const_facts.values())
            for order, rt, ratio, cplxf in itertools.product(orders, terms, ratios, (False, True)):
                if cplxf and method in ('complex', 'multicomplex'):
                    continue
                CTX.reset()
                fd.FD_RULES.clear()
                tag = 'order=%d,terms=%d,ratio=%s%s:' % (order, rt, ratio, ',complex-valued-f' if cplxf else '')
                rule = fd.LogRule(n=n, method=method, order=order)
                mo, rs = rule.method_order, rule.richardson_step
                T = len(rule.rule(ratio))
                Dg = n + mo + rs * rt - 1
                x = real('x')
                f, b = taylor_poly(x, Dg, complex_coef=cplxf)
                if method == 'multicomplex':
                    f_real = f

                    def f(z, f_real=f_real):
                        if isinstance(z, mc.Bicomplex):
                            d = z - x
                            acc = mc.Bicomplex(b[0], 0)
                            pw = None
                            for k in range(1, Dg + 1):
                                pw = d if pw is None else pw * d
                                acc = acc + pw * (b[k] / math.factorial(k))
                            return acc
                        return f_real(z)
                calls = []

                def frec(z, *a, **k):
                    calls.append(z)
                    return f(z)
                K = T + rt + 4
                gen = Gen(K, ratio)
                d = core.Derivative(frec, step=gen, method=method, n=n, order=order, richardson_terms=rt, full_output=True)
                cap = {}
                a_sym = [(cplx('a%d' % j) if cplxf else real('a%d' % j)) for j in range(rt)]
                Lb = b[n]

                def apply_stub(results, steps, step_ratio):
                    cap['results'] = list(results); cap['steps'] = list(steps); cap['ratio'] = step_ratio
                    cap['rich'] = getattr(d, 'richardson', None)
                    hs = [lift(s) for s in steps]
                    mrows = len(hs) - (T - 1)
                    tab = [[Lb + sum((a_sym[j] * hs[k] ** (mo + rs * j) for j in range(rt)), R(0))] for k in range(mrows)]
                    return SymArr(tab), SymArr([[hs[k]] for k in range(mrows)]), ()
                d.fd_rule.apply = apply_stub
                with warnings.catch_warnings():
                    warnings.simplefilter('ignore')
                    paths = explore(lambda: d(x), pre=[z3.Real('h0') > 0], max_paths=8, catch=(Exception,))
                ok = len(paths) == 1 and paths[0].exc is None
                solve.fact(tag + 'runs-on-a-single-path', ok, note=str([repr(p.exc)[:160] for p in paths if p.exc][:1]) + ' %d paths' % len(paths))
                if not ok:
                    continue
                info['configs'] += 1
                val, inf = paths[0].value
                H = paths[0].hyps + S2
                # ---- W: wiring at the rule
                hs = gen.steps()
                fx = f(x)
                okw = len(cap['results']) == K and len(cap['steps']) == K
                solve.fact(tag + 'W:one-quotient-per-generated-step', okw)
                if okw:
                    for k in sorted({0, 1, K - 1}):
                        want = rule.diff(f, fx, x, hs[k])
                        got = cap['results'][k]
                        pa, pb = all_parts(got), all_parts(want)
                        if len(pa) == len(pb) and all(u.eq(v) for u, v in zip(pa, pb)):
                            solve.fact(tag + 'W:row%d-is-the-difference-quotient-of-f-at-step%d' % (k, k), True)
                        else:
                            solve.prove(tag + 'W:row%d-is-the-difference-quotient-of-f-at-step%d' % (k, k),
                                        z3.And(*[u == v for u, v in zip(pa, pb)]) if len(pa) == len(pb) else z3.BoolVal(False), H)
                        solve.fact(tag + 'W:step%d-passed-on-unchanged' % k, lift(cap['steps'][k]).t.eq(hs[k].t))
                solve.fact(tag + 'W:generator-ratio-passed-to-the-rule', cap['ratio'] == ratio)
                solve.fact(tag + 'W:generator-called-with-(method,n,method_order)', gen.args == (method, n, mo), note=str(gen.args))
                rich = d.richardson
                solve.fact(tag + 'W:Richardson(order=%d,step=%d,terms=%d,ratio)' % (mo, rs, rt),
                           (rich.order, rich.step, rich.num_terms, rich.step_ratio) == (mo, rs, rt, ratio),
                           note=str((rich.order, rich.step, rich.num_terms, rich.step_ratio)))
                # ---- V: value
                v = asobj(val).ravel()[0]
                solve.fact(tag + 'V:scalar-result', np.shape(val) == ())
                pv, pl = all_parts(v), all_parts(Lb)
                if len(pv) != len(pl):
                    pv, pl = parts(C.lift(lift(v))), parts(C.lift(lift(Lb)))
                solve.prove(tag + 'V:value==f^(n)(x)', z3.And(*[u == w for u, w in zip(pv, pl)]), H)
                # ---- E: record
                e = lift(asobj(inf.error_estimate).ravel()[0])
                if isinstance(e, C):
                    solve.prove(tag + 'E:error_estimate-real', e.im.t == 0, H)
                    e = e.re
                solve.prove_lin(tag + 'E:error_estimate>=0', e.t >= 0, H)
                fs = lift(asobj(inf.final_step).ravel()[0])
                solve.prove(tag + 'E:final_step-is-a-generated-step', z3.Or(*[fs.t == h.t for h in hs]), H)
                fv = inf.f_value
                pa, pb = all_parts(fv), all_parts(fx)
                solve.fact(tag + 'E:f_value-is-f(x)', len(pa) == len(pb) and all(u.eq(w) for u, w in zip(pa, pb)))
                if order == orders[0] and rt == terms[0] and ratio == ratios[0] and not cplxf:
                    solve.twin(tag + 'value==f^(n+1)(x)', lift(v).t == b[n + 1].t if n + 1 <= Dg else z3.BoolVal(False), H)
                    # ---- history: the same object after it was used with n = 0 (and another order), then set to n through the
                    # public properties, gives what a fresh object gives
                    gen2 = Gen(K, ratio)
                    d2 = core.Derivative(frec, step=gen2, method=method, n=0, order=order, richardson_terms=rt, full_output=True)
                    with warnings.catch_warnings():
                        warnings.simplefilter('ignore')
                        p0 = explore(lambda: d2(x), pre=[z3.Real('h0') > 0], max_paths=8, catch=(Exception,))
                        d2.n = n
                        d2.fd_rule.apply = apply_stub
                        p2 = explore(lambda: d2(x), pre=[z3.Real('h0') > 0], max_paths=8, catch=(Exception,))
                    ok2 = len(p0) == 1 and p0[0].exc is None and len(p2) == 1 and p2[0].exc is None
                    solve.fact(tag + 'history[n=0-then-n=%d]:runs-on-a-single-path' % n, ok2, note=str([repr(p.exc)[:160] for p in p0 + p2 if p.exc][:1]))
                    if ok2:
                        v2 = asobj(p2[0].value[0]).ravel()[0]
                        pv2 = all_parts(v2)
                        if len(pv2) != len(pl):
                            pv2 = parts(C.lift(lift(v2)))
                        solve.prove(tag + 'history[n=0-then-n=%d]:value==f^(n)(x)' % n, z3.And(*[u == w for u, w in zip(pv2, pl)]), p2[0].hyps + S2)
    finally:
        overlay.PINV_EXACT[0] = False
    return info


def run_zero():
    from .common import defaults_facts
    defaults_facts(['core.Derivative.__init__'])
    with fd_env(names=ALL, symkey_cache=False) as m:
        core, mc = m['core'], m['mc']
        from .pipeline import ElementwiseF
        for method in METHODS:
            for xk in ('scalar', 'array'):
                CTX.reset()
                f = ElementwiseF(mc)
                x = real('x') if xk == 'scalar' else SymArr([real('x0'), real('x1')])
                d = core.Derivative(f, method=method, n=0, full_output=True)
                with warnings.catch_warnings():
                    warnings.simplefilter('ignore')
                    paths = explore(lambda: d(x), max_paths=8, catch=(Exception,))
                ok = len(paths) == 1 and paths[0].exc is None
                tag = 'Z:%s,%s:' % (method, xk)
                solve.fact(tag + 'single-path-no-exception', ok, note=str([repr(p.exc)[:120] for p in paths if p.exc][:1]))
                if not ok:
                    continue
                val, inf = paths[0].value
                want = f(x)
                va, wa = asobj(val).ravel(), asobj(want).ravel()
                solve.fact(tag + 'n=0-keeps-the-shape-of-x', np.shape(val) == np.shape(x))
                solve.prove(tag + 'n=0-returns-f(x)-itself', z3.And(*[lift(u).t == lift(w).t for u, w in zip(va, wa)]) if len(va) == len(wa) else z3.BoolVal(False), paths[0].hyps)
                # extra positional and keyword arguments reach f on the n == 0 path
                a_, b_ = real('a'), real('b')
                seen = []

                def g(z, a, b=None, flag=False):
                    seen.append((a, b, flag))
                    return f(z) * a + (b if b is not None else R(0))
                d3 = core.Derivative(g, method=method, n=0)
                with warnings.catch_warnings():
                    warnings.simplefilter('ignore')
                    p3 = explore(lambda: d3(x, a_, b=b_, flag='yes'), max_paths=8, catch=(Exception,))
                ok3 = len(p3) == 1 and p3[0].exc is None
                solve.fact(tag + 'n=0-with-args-and-kwds:single-path-no-exception', ok3, note=str([repr(p.exc)[:120] for p in p3 if p.exc][:1]))
                if ok3:
                    solve.fact(tag + 'n=0-forwards-args-and-kwds-unchanged', len(seen) >= 1 and all(s_[0] is a_ and s_[1] is b_ and s_[2] == 'yes' for s_ in seen),
                               note=str(seen[:1])[:120])
                    w3 = asobj(f(x) * a_ + b_).ravel()
                    solve.prove(tag + 'n=0-returns-f(x,*args,**kwds)', z3.And(*[lift(u).t == lift(w).t for u, w in zip(asobj(p3[0].value).ravel(), w3)]), p3[0].hyps)
                # n set to 0 after construction
                d2 = core.Derivative(f, method=method, n=2 if method != 'multicomplex' else 1)
                d2.n = 0
                with warnings.catch_warnings():
                    warnings.simplefilter('ignore')
                    p2 = explore(lambda: d2(x), max_paths=8, catch=(Exception,))
                ok2 = len(p2) == 1 and p2[0].exc is None
                solve.fact(tag + 'n-set-to-0-afterwards:single-path', ok2)
                if ok2:
                    solve.prove(tag + 'n-set-to-0-afterwards-returns-f(x)', z3.And(*[lift(u).t == lift(w).t for u, w in zip(asobj(p2[0].value).ravel(), wa)]), p2[0].hyps)
    return {}


def _int_cubic(x):
    return x ** 3 - 2 * x ** 2 + 5 * x


def run_intx():
    from .common import integer_input_cases
    xs = [3, np.int64(-2), np.array([1, 2, 5]), np.array([[1, -3], [2, 4]], dtype=np.int32)]
    for n in (1, 2, 3):
        integer_input_cases([('Derivative', _int_cubic, xs, dict(n=n))],
                            lambda c: ['central', 'forward', 'backward', 'complex'] + (['multicomplex'] if n <= 2 else []),
                            name_fmt='%s' + ',n=%d' % n)
    return {}


def run_group(args):
    if args[0] == 'dep':
        import importlib
        return getattr(importlib.import_module('props.' + args[1]), args[2])(*args[3], **args[4])
    if args[0] == 'intx':
        return run_intx()
    if args[0] == 'value':
        return run_value(*args[1:])
    return run_zero()


CONTRACT_ORIGIN = [('contract:rule-cache/', 'C09', 'cache-invariant/'), ('contract:generator-defaults/', 'C10', 'scale/'), ('contract:rule-cache-at-import/', 'C06', 'cache-base-case/'), ('contract:accepted-orders[multicomplex]/', 'C11', 'multicomplex-n/'), ('contract:accepted-step-counts/', 'C11', 'steps/'), ('contract:generator[', 'C10', 'seq['), ('contract:rule[', 'C06', 'cfg['), ('contract:best-estimate[', 'C08', 'best-estimate['), ('contract:elementwise[', 'C08', 'deriv['),
                   ('contract:bicomplex[', 'C12', None)]


def replay_case(ob):
    import re
    nm = ob['name']
    for pre, modname, orig in CONTRACT_ORIGIN:
        if nm.startswith(pre):
            import importlib
            ob2 = dict(ob)
            ob2['name'] = (orig + nm[len(pre):]) if orig else nm.split(']/', 1)[0][len(pre):] + '/' + nm.split(']/', 1)[1]
            return importlib.import_module('props.' + modname).replay_case(ob2)
    mm = re.search(r'integer-x/(\w+),n=(\d+),(\w+):', nm)
    if mm:
        return dict(kind='common.intx', klass=mm.group(1), method=mm.group(3), n=int(mm.group(2)), f='cubic')
    mm = re.search(r'value\[(\w+),n=(\d+)\]/order=(\d+),terms=(\d+),ratio=([\d.]+)(,complex-valued-f)?', nm)
    if mm:
        return dict(kind='C01.poly', method=mm.group(1), n=int(mm.group(2)), order=int(mm.group(3)), terms=int(mm.group(4)),
                    ratio=float(mm.group(5)), complex_f=bool(mm.group(6)))
    return dict(kind='C01.poly', method='central', n=0, order=2, terms=2, ratio=2.0, complex_f=False)
