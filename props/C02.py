"""C02 -- reported error estimate and full_output record (decided core).

  R   record self-consistency on the real pipeline for Derivative, Gradient, Jacobian, Hessdiag, Hessian (symbolic points,
      uninterpreted / affine / quadratic f, generator by contract): f_value is f(x) (also when full_output is switched on
      after construction), error_estimate is real and >= 0 (its definedness is proved stage by stage: dea3 in C13, no division in
      Richardson, division by positive steps in the rule), final_step is one of the generated steps of its own
      coordinate, error_estimate and final_step have exactly one entry per result entry
  P   mechanism contracts behind the honesty of the estimate (each on havoc'd tables, semantic equality with the documented
      rule, so a re-formulation passes and a changed rule fails):
        outlier penalty: errors += |der - median| exactly for the estimates that are more than a factor 10 away from the
            median (when |median| > 1e-8) or outside the 1.5-IQR fences, 0 otherwise
        arg-min tie rule: among the rows attaining the minimal penalised error the middle one is taken
        Richardson estimate: |difference of neighbouring extrapolants| * fact + (10*tol if converged else |new - old| * fact),
            fact = max(12.7062047361747 * sqrt(sum |w|^2), 10*EPS)  (t-quantile, one spare degree of freedom)
        dea3 estimate: err1 + err2 + (10*tol2 if converged else |result - e_2|)          (proved under C13)
  Z   on the polynomial class of C01 the true error is 0 <= estimate (C01's V and E obligations); with one unmodelled
      geometric error term the Wynn stage returns the limit with a non-negative estimate (C13)
Not decided: honesty of the estimate for arbitrary analytic f -- an empirical property of a heuristic, false for adversarial
f, not a theorem.
"""
import itertools
import warnings
from fractions import Fraction
import numpy as np
import z3
from ndvc import solve
from ndvc.sym import R, C, Z, real, lift, CTX, explore, NeedsConcrete, _frac, SQRT
from ndvc.arr import SymArr, asobj, wrap
from .common import fd_env, ALL, mods
from .pipeline import ElementwiseF, ElementwiseGen, nom_positive_facts, all_parts, free_syms
from . import C03, C04

ID = 'C02'
TRUSTED = ['A1 float == real; A2 object arrays == float arrays; dependency contracts as C08',
           'C01 (value exact on the polynomial class) and C13 (dea3) for the Z clause']
ASSUMPTIONS = ['finite estimates (no NaN); steps positive']
NOT_DECIDED = ['"true error never exceeds a fixed multiple of the estimate" for arbitrary analytic f (heuristic, not a theorem); '
               'the rounding floor']
BOUNDED = ['record[..] (last obligation): calls carrying extra positional / keyword arguments, 9 concrete calls per class -- executed, not proved',
           'honesty-concrete: the inequality |result - exact| <= 100*error_estimate + 1e-5*scale*10**n executed on 432 concrete configurations (exp, sin, 1/x; n = 1..4; 4 methods; default and five user-supplied step settings; 3 points each) and on 18 configurations with the complex-valued exp(i w x) (real-step methods, n = 1, 2, default steps, 5 points each) in floating point -- a stand-in for the undecided honesty clause, never counted as proved; the configurations that fail on the unchanged tree are known finding F12',
           'tables of at most 6 x 3 entries in the mechanism contracts (the rules are column-wise and uniform in the size)']
QUANTIFIED = 'all table entries, points, steps and function values: universally quantified'


def enumerated(tier):
    return '5 classes x methods; table sizes K in {3,4,6}'


def groups(tier):
    out = [('record[%s]' % k, ('record', k, tier)) for k in ('Derivative', 'Gradient', 'Jacobian', 'Hessdiag', 'Hessian')]
    out += [('penalty[%d,%d]' % kn, ('penalty',) + kn) for kn in [(4, 2), (5, 1), (3, 3)]]
    out += [('argmin[%d]' % k, ('argmin', k)) for k in (2, 3, 4, 5)]
    out += [('richardson-estimate', ('rich',))]
    out.append(('honesty-concrete', ('honesty',)))
    # "a near-zero error estimate is never returned together with a wrong value": the value half of that sentence is the
    # table contract of the vector classes (C03, C04), which the record groups above take as given -- discharged here too
    from . import C03
    for method in C03.METHODS:
        out.append(('contract:jacobian-table[%s]' % method, ('dep', 'C03', 'run_jac', (method, C03.dims(tier), [2, 4] if method in ('central', 'forward', 'complex') else [2]), {})))
    for klass in ('Hessian', 'Hessdiag'):
        out.append(('contract:hessian-table[%s]' % klass, ('dep', 'C04', 'run_call', (klass, tier), {})))
    # the Wynn stage's estimate (dea3) is taken by contract in the record / richardson groups: discharged here as well
    # ... and so is the rule of the scalar Derivative (a wrong sign or weight gives self-consistent, confidently wrong estimates)
    from . import C06
    ns_, orders_ = C06.grid(tier)
    for m_ in C06.METHODS:
        for n_ in ns_:
            out.append(('contract:rule[%s,n=%d]' % (m_, n_), ('dep', 'C06', 'run_cfg', (m_, n_, orders_), dict(group_fmt='contract:rule[%s,n=%d]/order=%d/', requested_order=False))))
    out.append(('contract:dea3[geometric]', ('dep', 'C13', 'run_geometric', (), {})))
    out.append(('contract:dea3[total]', ('dep', 'C13', 'run_total', (), {})))
    return out


def functions_under_contract():
    m = mods(); core, lm, ex = m['core'], m['lm'], m['ex']
    return [core.Derivative.__call__, core.Derivative._eval_first, core.Gradient.__call__, core.Jacobian.__call__, core.Hessdiag.__call__,
            lm._Limit._add_error_to_outliers, lm._Limit._get_arg_min, lm._Limit._get_best_estimate, ex.Richardson._estimate_error]


def ab(v):
    return z3.If(v >= 0, v, -v)


class VecGen(object):
    def __init__(self, d, K):
        self.d, self.K, self.step_ratio = d, K, 2.0

    def step_generator_function(self, x, method='forward', n=1, order=2):
        return self

    def steps(self):
        return [SymArr([real('h%d' % j) * Fraction(1, 2 ** i) for j in range(self.d)]) for i in range(self.K)]

    def __call__(self):
        return iter(self.steps())


def run_record(klass, tier):
    info = dict(configs=0)
    with fd_env(names=ALL, symkey_cache=False, exact_factorial=False) as m:
        core, mc, fd = m['core'], m['mc'], m['fd']
        methods = ['central', 'forward', 'complex'] + (['backward', 'multicomplex'] if tier != 'quick' else [])
        for method in methods:
            for toggled in (False, True):
                CTX.reset()
                fd.FD_RULES.clear()
                d = 2
                tag = '%s%s:' % (method, ',full_output-set-after-construction' if toggled else '')
                if klass == 'Derivative':
                    f = ElementwiseF(mc)
                    x = SymArr([real('x0'), real('x1')])
                    gen = ElementwiseGen(8)
                    kw = dict(step=gen, method=method, n=1 if not toggled else 3 if method != 'multicomplex' else 1, order=2)
                    pre = nom_positive_facts(list(x))
                else:
                    x = SymArr([real('x%d' % j) for j in range(d)])
                    gen = VecGen(d, 8)
                    pre = [z3.Real('h%d' % j) > 0 for j in range(d)]
                    if klass in ('Jacobian', 'Gradient'):
                        A, b_, f = C03.affine(2 if klass == 'Jacobian' else 'scalar', d, None, mc)
                    else:
                        c0, g, Q, f = C04.quadratic(d, mc)
                    kw = dict(step=gen, method=method)
                with warnings.catch_warnings():
                    warnings.simplefilter('ignore')
                    try:
                        obj = getattr(core, klass)(f, full_output=not toggled, **kw)
                    except ValueError:
                        continue
                    if toggled:
                        obj.full_output = True
                    paths = explore(lambda: obj(x), pre=pre, max_paths=8, catch=(Exception,))
                ok = len(paths) == 1 and paths[0].exc is None
                solve.fact(tag + 'single-path-no-exception', ok, note=str([repr(p.exc)[:150] for p in paths if p.exc][:1]))
                if not ok:
                    continue
                info['configs'] += 1
                val, inf = paths[0].value
                H = paths[0].hyps
                fx = f(x)
                pa = [t for v in asobj(inf.f_value).ravel() for t in all_parts(v)]
                pb = [t for v in asobj(fx).ravel() for t in all_parts(v)]
                solve.fact(tag + 'R:f_value-is-f(x)', len(pa) == len(pb) and all(u.eq(w) or z3.simplify(u).eq(z3.simplify(w)) for u, w in zip(pa, pb)),
                           note='f_value=%s' % str(inf.f_value)[:60])
                def compat(a):
                    try:
                        return np.size(a) == np.size(val) and np.broadcast_shapes(np.shape(a), np.shape(val)) in (np.shape(a), np.shape(val))
                    except ValueError:
                        return False
                okshape = compat(inf.error_estimate) and compat(inf.final_step)
                solve.fact(tag + 'R:one-error_estimate-and-one-final_step-per-result-entry(broadcast-compatible)', okshape,
                           note=str((np.shape(val), np.shape(inf.error_estimate), np.shape(inf.final_step))))
                if not okshape:
                    continue
                steps = gen.steps()
                ee = asobj(inf.error_estimate).reshape(np.shape(val)); ff = asobj(inf.final_step).reshape(np.shape(val))
                for idx in np.ndindex(np.shape(val)):
                    e = lift(ee[idx])
                    if isinstance(e, C):
                        solve.prove(tag + 'R:error_estimate%s-real' % (idx,), e.im.t == 0, H)
                        e = e.re
                    solve.prove_lin(tag + 'R:error_estimate%s>=0' % (idx,), e.t >= 0, H)
                    fs = lift(ff[idx])
                    cands = []
                    for st in steps:
                        for v in asobj(st).ravel():
                            cands.append(fs.t == lift(v).t)
                    solve.prove_lin(tag + 'R:final_step%s-is-one-of-the-generated-steps' % (idx,), z3.Or(*cands), H)
    import numdifftools as nd
    from ndvc.concrete import record_extra_args_cases
    cnt, xbad = record_extra_args_cases(nd, klass)
    solve.fact('extra-arguments:f_value==f(x,*args,**kwds),value-and-estimate-belong-to-that-function[%d calls]' % cnt, not xbad, kind='bounded', note=str(xbad[:2])[:300])
    return info


def run_penalty(K, N):
    with fd_env(names=ALL, symkey_cache=False) as m:
        lm = m['lm']
        der = SymArr([[real('d_%d_c%d' % (k, c)) for c in range(N)] for k in range(K)])
        paths = explore(lambda: lm._Limit._add_error_to_outliers(der), max_paths=8, catch=(Exception,))
        ok = len(paths) == 1 and paths[0].exc is None
        solve.fact('P:outlier-penalty:single-path', ok, note=str([repr(p.exc)[:100] for p in paths if p.exc][:1]))
        if not ok:
            return {}
        out = asobj(paths[0].value)
        H = paths[0].hyps
        from ndvc.sym import uf
        for c in range(N):
            col = [der[k, c].t for k in range(K)]
            p25, med, p75 = [uf('pctl%d_%d' % (q, K), K)(*col) for q in (25, 50, 75)]
            iqr = ab(p75 - p25)
            amed = ab(med)
            for k in range(K):
                dk = col[k]
                outl = z3.Or(z3.And(z3.Or(ab(dk) < amed / 10, ab(dk) > amed * 10), amed > _frac(Fraction(1e-8))),
                             dk < p25 - _frac(Fraction(1.5)) * iqr, p75 + _frac(Fraction(1.5)) * iqr < dk)
                spec = z3.If(outl, ab(dk - med), z3.RealVal(0))
                solve.prove('P:outlier-penalty[%d,%d]==documented-rule' % (k, c), lift(out[k, c]).t == spec, H)
        solve.twin('P:outlier-penalty-is-always-zero', z3.And(*[lift(v).t == 0 for v in out.ravel()]), H)
        # complex-valued estimates (complex-valued f with the real-step methods): real and imaginary parts are screened separately,
        # each by the documented rule, and the two penalties add up
        from ndvc.sym import cplx, C
        zder = SymArr([[cplx('z_%d_c%d' % (k, c)) for c in range(N)] for k in range(K)])
        zpaths = explore(lambda: lm._Limit._add_error_to_outliers(zder), max_paths=8, catch=(Exception,))
        okz = len(zpaths) == 1 and zpaths[0].exc is None
        solve.fact('P:outlier-penalty(complex-estimates):single-path', okz, note=str([repr(p.exc)[:100] for p in zpaths if p.exc][:1]))
        if okz:
            zout = asobj(zpaths[0].value)

            def rule(col, k):
                p25, med, p75 = [uf('pctl%d_%d' % (q, K), K)(*col) for q in (25, 50, 75)]
                iqr = ab(p75 - p25); amed = ab(med); dk = col[k]
                outl = z3.Or(z3.And(z3.Or(ab(dk) < amed / 10, ab(dk) > amed * 10), amed > _frac(Fraction(1e-8))),
                             dk < p25 - _frac(Fraction(1.5)) * iqr, p75 + _frac(Fraction(1.5)) * iqr < dk)
                return z3.If(outl, ab(dk - med), z3.RealVal(0))
            for c in range(N):
                rcol = [zder[k, c].re.t for k in range(K)]; icol = [zder[k, c].im.t for k in range(K)]
                for k in range(K):
                    o = lift(zout[k, c])
                    goal = (o.t == rule(rcol, k) + rule(icol, k)) if not isinstance(o, C) else z3.And(o.re.t == rule(rcol, k) + rule(icol, k), o.im.t == 0)
                    solve.prove('P:outlier-penalty(complex-estimates)[%d,%d]==rule(real-parts)+rule(imaginary-parts)' % (k, c), goal, zpaths[0].hyps)
    return {}


def run_argmin(K):
    with fd_env(names=ALL, symkey_cache=False) as m:
        lm = m['lm']
        N = 2
        err = SymArr([[real('e_%d_c%d' % (k, c)) for c in range(N)] for k in range(K)])
        paths = explore(lambda: lm._Limit._get_arg_min(err), max_paths=8, catch=(Exception,))
        ok = len(paths) == 1 and paths[0].exc is None
        solve.fact('P:arg-min:single-path', ok, note=str([repr(p.exc)[:100] for p in paths if p.exc][:1]))
        if not ok:
            return {}
        idx = asobj(paths[0].value).ravel()
        for c in range(N):
            col = [err[k, c].t for k in range(K)]
            ismin = [z3.And(*[col[k] <= col[j] for j in range(K)]) for k in range(K)]
            cnt = z3.Sum([z3.If(b, 1, 0) for b in ismin])
            # the (cnt // 2)-th (0-based) row among those attaining the minimum
            want = z3.IntVal(-1)
            for k in range(K):
                before = z3.Sum([z3.If(ismin[j], 1, 0) for j in range(k)]) if k else z3.IntVal(0)
                want = z3.If(z3.And(ismin[k], before == cnt / 2), z3.IntVal(k), want)
            it = lift(idx[c])
            it = it.t if isinstance(it, Z) else z3.ToInt(it.t)
            solve.prove('P:arg-min:col%d:middle-of-the-tied-minima,flat-index=row*N+col' % c, it == want * N + c, paths[0].hyps)
        solve.twin('P:arg-min:always-row-0', z3.And(*[(lift(idx[c]).t if isinstance(lift(idx[c]), Z) else z3.ToInt(lift(idx[c]).t)) == c for c in range(N)]), paths[0].hyps)
    # NaN estimates (symbolic reals are never NaN: executed on concrete tables): a column that is NaN in SOME rows still selects its
    # smallest finite estimate; only a column that is NaN in every row falls back to row 0
    real_lm = mods()['lm']
    nan = float('nan')
    tab = np.array([[nan, 3.0, nan, 0.5], [nan, 1.0, nan, nan], [2.0, nan, nan, 0.25], [1.5, 2.0, nan, nan]][:max(K, 2)])
    with warnings.catch_warnings():
        warnings.simplefilter('ignore')
        got = np.asarray(real_lm._Limit._get_arg_min(tab.copy()))
    want_rows = [int(np.nanargmin(tab[:, c])) if not np.all(np.isnan(tab[:, c])) else 0 for c in range(tab.shape[1])]
    solve.fact('P:arg-min:partly-NaN-columns-select-their-smallest-finite-estimate,all-NaN-columns-row-0[%d rows]' % tab.shape[0],
               got.shape == (tab.shape[1],) and [int(v) for v in got] == [r_ * tab.shape[1] + c for c, r_ in enumerate(want_rows)], note=str(got.tolist()))
    return {}


def run_rich():
    with fd_env(names=ALL, symkey_cache=False) as mm:
        ex = mm['ex']
        EPS = _frac(Fraction(float(ex.EPS)))
        TQ = _frac(Fraction(12.7062047361747))
        for (m, m_old) in [(2, 3), (3, 4), (3, 5), (1, 2), (1, 3), (1, 1), (4, 6)]:
            CTX.reset()
            new = SymArr([[real('n%d' % k)] for k in range(m)])
            old = SymArr([[real('o%d' % k)] for k in range(m_old)])
            steps = SymArr([[real('h%d' % k)] for k in range(m_old)])
            nr = max(m_old - m + 1, 1)
            rule = SymArr([real('w%d' % i) for i in range(nr)])
            paths = explore(lambda: ex.Richardson._estimate_error(new, old, steps, rule), max_paths=8, catch=(Exception,))
            ok = len(paths) == 1 and paths[0].exc is None
            tag = 'P:richardson-estimate[m=%d,m_old=%d]:' % (m, m_old)
            solve.fact(tag + 'single-path', ok, note=str([repr(p.exc)[:100] for p in paths if p.exc][:1]))
            if not ok:
                continue
            out = asobj(paths[0].value)
            H = paths[0].hyps
            cov = z3.Sum([ab(rule[i].t) * ab(rule[i].t) for i in range(nr)])
            sq = SQRT(R(cov)).t
            H = H + list(CTX.facts)
            fact = z3.If(TQ * sq >= EPS * 10, TQ * sq, EPS * 10)
            nv = [new[k, 0].t for k in range(m)]; ov = [old[k, 0].t for k in range(m_old)]; hv = [steps[k, 0].t for k in range(m_old)]

            def mxabs(a, b):
                return z3.If(ab(a) >= ab(b), ab(a), ab(b))
            if m_old < 2:
                spec = [(ab(nv[0]) * EPS + ab(hv[0])) * fact]
            elif m < 2:
                delta = [ov[k + 1] - ov[k] for k in range(m_old - 1)]
                tol = [mxabs(ov[k], ov[k + 1]) * fact for k in range(m_old - 1)]
                k = m_old - 2
                spec = [ab(delta[k]) + z3.If(ab(delta[k]) <= tol[k], tol[k] * 10, ab(nv[0] - ov[m_old - 1]) * fact)]
            else:
                spec = []
                for k in range(m - 1):
                    err = ab(nv[k + 1] - nv[k]) * fact
                    tol = mxabs(nv[k + 1], nv[k]) * EPS * fact
                    spec.append(err + z3.If(err <= tol, tol * 10, ab(nv[k] - ov[m_old - m + 1 + k]) * fact))
            solve.fact(tag + 'one-estimate-per-row', out.shape[0] == len(spec), note=str(out.shape))
            for k in range(min(len(spec), out.shape[0])):
                solve.prove_lin(tag + 'row%d==documented-formula(t-factor-12.706,spread-of-neighbouring-extrapolants)' % k,
                                lift(out[k, 0]).t == spec[k], H)
    return {}


def run_honesty():
    """bounded stand-in for the (otherwise undecided) honesty clause: 432 concrete configurations executed with the real
    numpy; one obligation per (function, n, method, step options) so that the known finding F12 can name exactly the
    configurations that fail on the unchanged tree"""
    import numdifftools as nd
    from ndvc.concrete import honesty_cases
    res = honesty_cases(nd)
    for name, (ok, detail) in sorted(res.items()):
        solve.fact(name + ':true-error<=100*estimate+rounding-floor', ok, kind='bounded', note=str(detail)[:200] if detail else '')
    from ndvc.concrete import honesty_complex_cases
    res2 = honesty_complex_cases(nd)
    for name, (ok, detail) in sorted(res2.items()):
        solve.fact(name + ':true-error<=100*estimate+rounding-floor', ok, kind='bounded', note=str(detail)[:200] if detail else '')
    return dict(honesty_cases=len(res) + len(res2))


def run_group(args):
    if args[0] == 'honesty':
        return run_honesty()
    if args[0] == 'dep':
        import importlib
        return getattr(importlib.import_module('props.' + args[1]), args[2])(*args[3], **args[4])
    if args[0] == 'record':
        return run_record(args[1], args[2])
    if args[0] == 'penalty':
        return run_penalty(args[1], args[2])
    if args[0] == 'argmin':
        return run_argmin(args[1])
    return run_rich()


def replay_case(ob):
    import re
    nm = ob['name']
    for pre, modname, orig in [('contract:jacobian-table[', 'C03', 'jac['), ('contract:hessian-table[', 'C04', 'call['),
                               ('contract:rule[', 'C06', 'cfg['), ('contract:dea3[geometric]/', 'C13', 'geometric/'), ('contract:dea3[total]/', 'C13', 'total/')]:
        if nm.startswith(pre):
            import importlib
            return importlib.import_module('props.' + modname).replay_case(dict(ob, name=orig + nm[len(pre):]))
    if nm.startswith('honesty-concrete/'):
        return dict(kind='C02.honesty-concrete', name=nm.split('/', 1)[1].rsplit(':', 1)[0])
    mm = re.search(r'record\[(\w+)\]/(\w+)', nm)
    if mm:
        return dict(kind='C02.record', klass=mm.group(1), method=mm.group(2), toggled='set-after' in nm)
    return dict(kind='C02.honesty', part=nm.split('/')[0])
