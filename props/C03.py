"""C03 -- Jacobian, Gradient, directionaldiff: right entries and shapes for any R^n -> R^m.

Input model: the affine map f(x) = A.x + b with SYMBOLIC A (m x n, or m x k x n for matrix-valued f of shape (m, k)), b, x,
distinct symbolic per-coordinate steps h_j * q^i (symbolic step ratio 1/q) -- distinct steps make a swapped axis visible
where symmetric examples hide it.  The real Jacobian/Gradient.__call__ is executed.
  L   layout: every row of the table handed to _extrapolate, reshaped with the returned shape, satisfies
      [i, j(, l)] == A[i, (l,) j] (using P.M == I from the pinv contract), and the step table at that position is the
      step of coordinate j
  S   shapes: result (m, n) / (m, n, k); Gradient (n,) and 0-d for n == 1; with _extrapolate replaced by its contract
      (per column an entry of that column, reshaped: C08) the returned entries are A itself; full_output arrays have one
      entry per result entry
  D   directionaldiff(f, x0, v): differentiates exactly g(t) = f(x0 + t v/|v|_2) at t = 0 (|.| the Euclidean length of the
      flattened v, M6) with the caller's options, and returns that result unchanged; for affine f, g(t) - g(0) == t A.v/|v|
"""
import itertools
import warnings
import numpy as np
import z3
from ndvc import solve, xcheck
from fractions import Fraction
from ndvc.sym import R, C, real, lift, CTX, explore, NeedsConcrete, SQRT
from ndvc.arr import SymArr, asobj, wrap
from ndvc.overlay import PINV_LOG
from .common import fd_env, ALL, Recip, mods, SymKeyDict

ID = 'C03'
TRUSTED = ['A1 float == real; A2 object arrays == float arrays',
           'pinv / factorial / convolve1d dependency contracts (as C06)',
           '_Limit._extrapolate by contract in the S obligations: per column it returns an entry of that column (Richardson '
           'weights sum to one: C07; dea3(c,c,c) = c: C13; per-column selection: C08) reshaped to `shape`',
           'accuracy on non-affine maps follows from C06/C01 applied per column (not re-proved here)',
           'chain rule: d/dt f(x0 + t u) at 0 == grad f(x0).u (mathematics)']
ASSUMPTIONS = ['steps positive; step ratio 1/q with q in (0,1); moment matrix non-singular']
NOT_DECIDED = ['accuracy envelope for nonlinear maps (C01/C02)']
BOUNDED = ['shapes-concrete: the complete pipeline (no stub of _extrapolate) on affine maps for m in {scalar,1,2,6} x n in {1,2,8} x k in {-,1,2,4}, four methods -- executed, not proved (the symbolic jac groups stub the selection stage, so shape handling inside it is only seen here)',
           'view-returning-f: Jacobians of 7 affine functions that return (views of) their argument, all methods and orders, executed with the real numpy (aliasing between the value returned by f and internal work vectors is invisible to object arrays) -- not proved',
           'integer-x: integer-typed x (3 concrete x, 5 methods) compared with float x -- executed with the real numpy, not proved',
           'dimensions enumerated: quick n,m <= 3, k <= 2; thorough n in 1..8, m in 1..6, k in 1..4 (the property\'s range)']
QUANTIFIED = 'A, b, x, per-coordinate steps h_j, q: universally quantified reals'

METHODS = ['central', 'forward', 'backward', 'complex', 'multicomplex']


def dims(tier):
    if tier == 'quick':
        return [(1, 1, None), (2, 3, None), (3, 2, None), (1, 3, None), ('scalar', 3, None), ('scalar', 1, None), (2, 3, 2), (3, 2, 1), (2, 2, 3),
                (1, 1, 1), (1, 1, 2), (2, 1, 1), (1, 2, 1)]          # the corner of the range: every extent 1
    out = []
    for n in (1, 2, 3, 5, 8):
        for m in ('scalar', 1, 2, 4, 6):
            out.append((m, n, None))
    for n, m, k in [(2, 3, 2), (3, 2, 4), (1, 2, 3), (4, 1, 2), (8, 6, 1), (3, 3, 3), (2, 2, 2), (1, 1, 1), (1, 1, 4), (1, 6, 1), (8, 1, 1)]:
        out.append((m, n, k))
    return out


def enumerated(tier):
    return '(m, n, k) in %s x methods %s x orders {2, 4}' % (dims(tier), METHODS)


def groups(tier):
    out = []
    for method in METHODS:
        out.append(('jac[%s]' % method, ('jac', method, dims(tier), [2, 4] if method in ('central', 'forward', 'complex') else [2])))
    out.append(('directionaldiff', ('dd',)))
    out.append(('integer-x', ('intx',)))
    out.append(('view-returning-f', ('views',)))
    out.append(('shapes-concrete', ('shapes',)))
    out.append(('gradient-layout', ('layout',)))
    return out


def functions_under_contract():
    m = mods(); core, fd = m['core'], m['fd']
    J = fd.JacobianDifferenceFunctions
    return [J.increments, J._central, J._forward, J._backward, J._complex, J._complex_odd, J._multicomplex,
            core.Jacobian._expand_steps, core.Jacobian._derivative_nonzero_order, core.Jacobian.__call__, core.Gradient.__call__,
            fd.LogJacobianRule._vstack, fd.LogJacobianRule._atleast_2d, fd.LogRule.apply, fd.LogRule._apply, core.directionaldiff]


class StubGen(object):
    def __init__(self, n, K, r, q):
        self.n, self.K, self.step_ratio, self.q = n, K, r, q

    def step_generator_function(self, x, method='forward', n=1, order=2):
        return self

    def steps(self):
        return [SymArr([real('h%d' % j) * self.q ** i for j in range(self.n)]) for i in range(self.K)]

    def __call__(self):
        return iter(self.steps())


def native_jac(klass, method, order, An, bn, xn, hn, K):
    """the harness of run_jac on floats: affine f, geometric steps h_j * 2**-i, _extrapolate replaced by `row 0`"""
    def run():
        import numdifftools as nd
        from numdifftools.multicomplex import Bicomplex

        def f(x):
            if isinstance(x, Bicomplex):
                return Bicomplex(np.dot(An, x.z1) + bn, np.dot(An, x.z2))
            return np.dot(An, x) + bn

        class G(object):
            step_ratio = 2.0

            def step_generator_function(self, x, method='forward', n=1, order=2):
                return self

            def __call__(self):
                return iter([hn * 0.5 ** i for i in range(K)])
        obj = getattr(nd, klass)(f, step=G(), method=method, order=order, full_output=True)

        def spy(results, steps, shape):
            return results[0].reshape(shape), nd.limits._Limit.info(np.zeros(results[0].shape).reshape(shape), steps[0].reshape(shape), np.arange(results.shape[1]))
        obj._extrapolate = spy
        with warnings.catch_warnings():
            warnings.simplefilter('ignore')
            return obj(xn)[0]
    return run


def affine(m, n, k, mc):
    shapeA = (n,) if m == 'scalar' else ((m, n) if k is None else (m, k, n))
    A = np.empty(shapeA, dtype=object)
    for idx in np.ndindex(shapeA):
        A[idx] = real('A_' + '_'.join(map(str, idx)))
    bshape = shapeA[:-1]
    b = np.empty(bshape, dtype=object)
    for idx in np.ndindex(bshape):
        b[idx] = real('b_' + '_'.join(map(str, idx)))

    def f(x):
        if isinstance(x, mc.Bicomplex):
            z1 = np.dot(A, asobj(x.z1)) + b
            z2 = np.dot(A, asobj(x.z2))
            return mc.Bicomplex(wrap(z1) if bshape else z1, wrap(z2) if bshape else z2)
        r = np.dot(A, asobj(x)) + b
        return wrap(r) if bshape else r
    return A, b, f


def want_entry(A, m, k, idx):
    """expected value of result[idx]"""
    if m == 'scalar':
        return A[idx[-1]]
    if k is None:
        return A[idx[0], idx[1]]
    return A[idx[0], idx[2], idx[1]]        # result[i, j, l] = d f[i, l] / d x_j


def run_jac(method, dimlist, orders):
    info = dict(configs=0)
    with fd_env(names=ALL) as mm:
        core, mc = mm['core'], mm['mc']
        q = real('q'); r = Recip(q)
        for (m, n, k) in dimlist:
            for order in orders:
                for klass in (['Jacobian'] + (['Gradient'] if m == 'scalar' else [])):
                    CTX.reset()
                    del PINV_LOG[:]
                    mm['fd'].FD_RULES = SymKeyDict()      # cold rule cache: the inverse used is logged for this run
                    tag = '%s,m=%s,n=%d,k=%s,order=%d:' % (klass, m, n, k, order)
                    A, b, f = affine(m, n, k, mc)
                    x = SymArr([real('x%d' % j) for j in range(n)])
                    gen = StubGen(n, 6 if order == 2 else 8, r, q)
                    obj = getattr(core, klass)(f, step=gen, method=method, order=order, full_output=True)
                    cap = {}
                    orig = obj._extrapolate

                    def spy(results, steps, shape):
                        cap['t'] = (results, steps, shape)
                        # contract stub of _extrapolate: an entry of each column (row 0), reshaped
                        res = asobj(results)
                        stp = asobj(steps)
                        val = wrap(res[0].reshape(shape))
                        err = wrap(np.zeros(res[0].shape).reshape(shape))
                        return val, obj.info.__bases__[0] and core._Limit.info(err, wrap(stp[0].reshape(shape)), np.arange(res.shape[1]))
                    obj._extrapolate = spy
                    with warnings.catch_warnings():
                        warnings.simplefilter('ignore')
                        paths = explore(lambda: obj(x), pre=[q.t > 0, q.t < 1] + [z3.Real('h%d' % j) > 0 for j in range(n)], max_paths=16)
                    ok = len(paths) == 1 and paths[0].exc is None
                    solve.fact(tag + 'runs-on-a-single-path', ok, note=str([repr(p.exc)[:150] for p in paths if p.exc][:1]))
                    if not ok:
                        continue
                    info['configs'] += 1
                    out, inf = paths[0].value
                    res, steps, shape = cap['t']
                    H = paths[0].hyps
                    # engine cross-check: the same class, method and stubs on floats, without the overlay
                    asg = {'q': Fraction(1, 2)}
                    for j in range(n):
                        asg['x%d' % j] = Fraction(3 * j - 2, 7); asg['h%d' % j] = Fraction(j + 2, 16)
                    An = np.zeros(np.shape(A)); bn = np.zeros(np.shape(b))
                    for ii, idx in enumerate(np.ndindex(np.shape(A))):
                        An[idx] = ((7 * ii) % 11 - 5) / 4.0 + 0.125; asg[str(A[idx].t)] = Fraction(float(An[idx]))
                    for ii, idx in enumerate(np.ndindex(np.shape(b))):
                        bn[idx] = ((3 * ii) % 5 - 2) / 2.0; asg[str(b[idx].t)] = Fraction(float(bn[idx]))
                    xcheck.defer(tag + 'engine==CPython(%s)' % klass, out, asg,
                                 native_jac(klass, method, order, An, bn, np.array([float(asg['x%d' % j]) for j in range(n)]),
                                            np.array([float(asg['h%d' % j]) for j in range(n)]), 6 if order == 2 else 8),
                                 pinv_log=list(PINV_LOG), rtol=1e-7, atol=1e-9)
                    for (M, P) in PINV_LOG:
                        T = M.shape[0]
                        for i in range(T):
                            for j in range(T):
                                lhs = sum((lift(P[i, a]) * lift(M[a, j]) for a in range(T)), R(0))
                                H = H + [lhs.t == (1 if i == j else 0)]
                    # ---- shapes
                    if klass == 'Gradient':
                        wshape = () if n == 1 else (n,)
                    elif m == 'scalar':
                        wshape = (1, n)
                    else:
                        wshape = (m, n) if k is None else (m, n, k)
                    solve.fact(tag + 'S:result-shape==%s' % (wshape,), np.shape(out) == wshape, note=str(np.shape(out)))
                    solve.fact(tag + 'S:error_estimate-and-final_step-one-entry-per-result-entry',
                               np.size(inf.error_estimate) == np.size(out) and np.size(inf.final_step) == np.size(out))
                    tshape = tuple(shape)
                    solve.fact(tag + 'S:table-shape-consistent', int(np.prod(tshape)) == asobj(res).shape[1] == asobj(steps).shape[1])
                    if int(np.prod(tshape)) != asobj(res).shape[1]:
                        continue
                    tab = asobj(res).reshape((asobj(res).shape[0],) + tshape)
                    stp = asobj(steps).reshape((asobj(steps).shape[0],) + tshape)
                    hs = gen.steps()
                    # table index -> (i, j, l) in result coordinates
                    for ridx in np.ndindex(tshape):
                        if m == 'scalar':
                            idx = ridx[-1:] if len(ridx) >= 1 else ridx
                            j = ridx[-1]
                            want = A[j]
                        else:
                            want = want_entry(A, m, k, ridx)
                            j = ridx[1]
                        for rr in range(tab.shape[0]):
                            solve.prove(tag + 'L:table[%d]%s==A-entry' % (rr, ridx,), lift(tab[(rr,) + ridx]).t == want.t, H)
                            solve.prove(tag + 'L:steps[%d]%s==step-of-coordinate-%d' % (rr, ridx, j),
                                        lift(stp[(rr,) + ridx]).t == lift(hs[rr][j]).t, H)
                    # ---- entries of the returned array (with the _extrapolate contract)
                    outa = asobj(out)
                    if klass == 'Gradient':
                        for j, v in enumerate(outa.ravel()):
                            solve.prove(tag + 'S:gradient[%d]==A[%d]' % (j, j), lift(v).t == A[j].t, H)
                    elif np.shape(out) == wshape:
                        for idx in np.ndindex(wshape):
                            want = A[idx[-1]] if m == 'scalar' else want_entry(A, m, k, idx)
                            solve.prove(tag + 'S:result%s==A-entry' % (idx,), lift(outa[idx]).t == want.t, H)
                    if (m, n, k) == (2, 3, None) and order == 2:
                        solve.twin(tag + 'result[0,1]==A[1,0]', lift(outa[0, 1]).t == A[1, 0].t, H)
    xcheck.flush()
    return info


def run_dd():
    with fd_env(names=ALL) as mm:
        core = mm['core']
        rec = {}

        class FakeDerivative(object):
            def __init__(self, fun, **options):
                rec['fun'] = fun; rec['options'] = options

            def __call__(self, t):
                rec['at'] = t
                return rec['ret']
        old = core.Derivative
        core.Derivative = FakeDerivative
        try:
            for shape, vshape in [((3,), None), ((1,), None), ((2, 2), None), ((2, 3), None), ((2, 3), (6,)), ((3, 1), (3,)), ((4,), (2, 2))]:
                CTX.reset()
                n = int(np.prod(shape))
                x0 = np.empty(shape, dtype=object); v = np.empty(shape, dtype=object); A = np.empty(shape, dtype=object)
                for idx in np.ndindex(shape):
                    s = '_'.join(map(str, idx))
                    x0[idx] = real('x' + s); v[idx] = real('v' + s); A[idx] = real('a' + s)
                if vshape is not None:
                    # the direction may come in any shape of the same size (e.g. the flat output of Gradient for a matrix x)
                    v = v.reshape(vshape)
                x0, v = x0.view(SymArr), v.view(SymArr)
                b0 = real('b')

                def f(z):
                    return (asobj(z) * A).sum() + b0
                rec['ret'] = real('RET')
                opts = dict(method='forward', order=3, full_output=False)
                tag = 'D%s%s:' % (shape, '' if vshape is None else ',v%s' % (vshape,))
                paths = explore(lambda: core.directionaldiff(f, x0, v, **opts), max_paths=8)
                ok = len(paths) == 1 and paths[0].exc is None
                solve.fact(tag + 'single-path', ok, note=str([repr(p.exc)[:100] for p in paths if p.exc][:1]))
                if not ok:
                    continue
                out = paths[0].value
                solve.fact(tag + 'returns-Derivative(g)(0)-unchanged', out is rec['ret'] and rec['at'] == 0)
                solve.fact(tag + 'options-forwarded-unchanged', rec['options'] == opts)
                t = real('t')
                try:
                    g_t = lift(rec['fun'](t)); g_0 = lift(rec['fun'](0))
                except NeedsConcrete:
                    raise
                except Exception as e:
                    solve.fact(tag + 'g(t)==f(x0+t*v/|v|)-is-defined-for-a-direction-of-this-shape', False, note=repr(e)[:200])
                    continue
                solve.fact(tag + 'g(t)==f(x0+t*v/|v|)-is-defined-for-a-direction-of-this-shape', True)
                nrm = SQRT(sum((lift(e) * lift(e) for e in asobj(v).ravel()), R(0)))
                H = paths[0].hyps + list(CTX.facts) + [nrm.t > 0]
                vflat = list(asobj(v).ravel())
                want = t * sum((lift(a_) * lift(v_) for a_, v_ in zip(A.ravel(), vflat)), R(0)) / nrm
                solve.prove(tag + 'g(t)-g(0)==t*A.v/|v|_2', (g_t - g_0).t == want.t, H)
                solve.prove(tag + 'g(0)==f(x0)', g_0.t == lift(f(x0)).t, H)
            solve.twin('D:g(t)-g(0)==t*A.v(unnormalised)', (g_t - g_0).t == (t * sum((lift(a_) * lift(v_) for a_, v_ in zip(A.ravel(), list(asobj(v).ravel()))), R(0))).t, H)
        finally:
            core.Derivative = old
    return {}


def _int_vec(x):
    return np.array([x[0] * x[1], x[1] ** 2 + x[0], 2 * x[0] - x[1]])


def _int_scalar(x):
    return x[0] ** 2 * x[1] + 3 * x[1]


INT_XS = [[1, 2], np.array([3, 1]), np.array([-2, 5], dtype=np.int32)]


def run_intx():
    from .common import integer_input_cases
    integer_input_cases([('Jacobian', _int_vec, INT_XS, {}), ('Gradient', _int_scalar, INT_XS, {}), ('Jacobian', _int_scalar, INT_XS, {})],
                        lambda c: ['central', 'forward', 'backward', 'complex', 'multicomplex'])
    return {}


def run_layout():
    """Gradient / Jacobian given an x with more than one axis: the variables are the elements of x in C (row-major) order
    whatever the memory layout of x is -- every evaluation point differs from x.ravel() in at most one coordinate"""
    with fd_env(names=ALL) as mm:
        core, mc = mm['core'], mm['mc']
        q = real('q'); r = Recip(q)
        for method in ('central', 'forward', 'complex'):
            for shape, layout in [((2, 2), 'C'), ((2, 2), 'transposed-view'), ((2, 3), 'transposed-view'), ((2, 2), 'F'), ((3,), 'reversed-view')]:
                CTX.reset()
                mm['fd'].FD_RULES = SymKeyDict()
                n = int(np.prod(shape))
                if layout == 'C':
                    base = np.empty(shape, dtype=object); base.ravel()[:] = [real('x%d' % j) for j in range(n)]; x = base.view(SymArr)
                elif layout == 'transposed-view':
                    base = np.empty(shape[::-1], dtype=object); base.ravel()[:] = [real('x%d' % j) for j in range(n)]; x = base.T.view(SymArr)
                elif layout == 'F':
                    base = np.empty(shape, dtype=object, order='F'); base.ravel(order='K')[:] = 0
                    for j, idx in enumerate(np.ndindex(shape)):
                        base[idx] = real('x%d' % j)
                    x = base.view(SymArr)
                else:
                    base = np.empty(shape, dtype=object); base[:] = [real('x%d' % j) for j in range(n)]; x = base[::-1].view(SymArr)
                xC = [lift(x[idx]) for idx in np.ndindex(shape)]      # row-major order of the elements of x
                A = [real('a%d' % j) for j in range(n)]
                calls = []

                def f(z):
                    calls.append(z)
                    if isinstance(z, mc.Bicomplex):
                        return mc.Bicomplex(sum((A[j] * asobj(z.z1)[j] for j in range(n)), R(0)), sum((A[j] * asobj(z.z2)[j] for j in range(n)), R(0)))
                    return sum((A[j] * asobj(z)[j] for j in range(n)), R(0))
                gen = StubGen(n, 6, r, q)
                for klass in ('Gradient',):
                    del calls[:]
                    obj = getattr(core, klass)(f, step=gen, method=method)
                    tag = '%s,%s,shape%s,%s:' % (klass, method, shape, layout)
                    with warnings.catch_warnings():
                        warnings.simplefilter('ignore')
                        paths = explore(lambda: obj(x), pre=[q.t > 0, q.t < 1] + [z3.Real('h%d' % j) > 0 for j in range(n)], max_paths=16)
                    ok = len(paths) == 1 and paths[0].exc is None
                    solve.fact(tag + 'runs-on-a-single-path', ok, note=str([repr(p.exc)[:150] for p in paths if p.exc][:1]))
                    if not ok:
                        continue
                    solve.fact(tag + 'f-evaluated', len(calls) > 0)
                    for ci, z in enumerate(calls):
                        zz = [C.lift(lift(e)) for e in asobj(z).ravel()]
                        if len(zz) != n:
                            solve.fact(tag + 'call%d:argument-has-%d-coordinates' % (ci, n), False, note=str(len(zz))); continue
                        nm = tag + 'call%d:differs-from-x.ravel()-in-at-most-one-coordinate' % ci
                        ident = [z3.is_rational_value(z3.simplify(zz[j].re.t - xC[j].t)) and z3.simplify(zz[j].re.t - xC[j].t).as_fraction() == 0 and
                                 z3.is_rational_value(z3.simplify(zz[j].im.t)) and z3.simplify(zz[j].im.t).as_fraction() == 0 for j in range(n)]
                        if sum(1 for v in ident if not v) <= 1:
                            solve.fact(nm, True, note='the other coordinates are the terms of x.ravel() themselves')
                            continue
                        # more than one coordinate is a different term: evaluate at an admissible rational point
                        from fractions import Fraction
                        from .pipeline import free_syms
                        assign = {}
                        for k_, v_ in enumerate(sorted(free_syms(*([t.re.t for t in zz] + [t.im.t for t in zz] + [t.t for t in xC])))):
                            assign[v_] = Fraction(1, 2) if v_ == 'q' else Fraction(3 + 2 * k_, 7 + k_)
                        try:
                            interp = solve.default_interp()
                            diff = [j for j in range(n) if solve.evaluate(zz[j].re.t - xC[j].t, assign, interp) != 0 or solve.evaluate(zz[j].im.t, assign, interp) != 0]
                        except Exception:
                            diff = None
                        if diff is not None and len(diff) >= 2:
                            solve.record(nm, 'refuted', 'closed-term evaluation under a concrete interpretation', 0.0,
                                         {k_: str(v_) for k_, v_ in assign.items()}, 'vc', note='coordinates %s differ from x.ravel()' % diff)
                            continue
                        same = [z3.And(zz[j].re.t == xC[j].t, zz[j].im.t == 0) for j in range(n)]
                        solve.prove(nm, z3.Or(*[z3.And(*[same[j] for j in range(n) if j != i]) for i in range(n)]), paths[0].hyps, 20000)
    return {}


def run_views():
    import numdifftools as nd
    from ndvc.concrete import jacobian_view_cases
    cnt, bad = jacobian_view_cases(nd)
    solve.fact('Jacobian-of-functions-returning-views-of-their-argument(identity,slices,reshape)[%d cases]' % cnt, not bad, kind='bounded', note=str(bad[:2])[:400])
    return {}

def run_shapes():
    import numdifftools as nd
    from ndvc.concrete import jacobian_shape_cases
    cnt, bad = jacobian_shape_cases(nd)
    solve.fact('un-stubbed-Jacobian/Gradient-of-affine-maps:shape,value,record-over-the-corners-of-the-range[%d cases]' % cnt, not bad, kind='bounded', note=str(bad[:2])[:400])
    return {}


def run_group(args):
    if args[0] == 'shapes':
        return run_shapes()
    if args[0] == 'views':
        return run_views()
    if args[0] == 'layout':
        return run_layout()
    if args[0] == 'intx':
        return run_intx()
    if args[0] == 'jac':
        return run_jac(args[1], args[2], args[3])
    return run_dd()


def replay_case(ob):
    if ob['name'].startswith('shapes-concrete/'):
        return dict(kind='C03.shapes')
    if ob['name'].startswith('view-returning-f/'):
        return dict(kind='C03.views')
    import re
    nm = ob['name']
    if nm.startswith('gradient-layout/'):
        return dict(kind='C03.layout')
    mm = re.search(r'integer-x/(\w+),(\w+):', nm)
    if mm:
        return dict(kind='common.intx', klass=mm.group(1), method=mm.group(2), f='vec2')
    mm = re.search(r'jac\[(\w+)\]/(\w+),m=(\w+),n=(\d+),k=(\w+),order=(\d+)', nm)
    if mm:
        return dict(kind='C03.affine', method=mm.group(1), klass=mm.group(2), m=mm.group(3), n=int(mm.group(4)),
                    k=None if mm.group(5) == 'None' else int(mm.group(5)), order=int(mm.group(6)))
    return dict(kind='C03.directional')
