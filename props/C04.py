"""C04 -- Hessian is symmetric and correct; Hessdiag is its diagonal.

  Q   each of the six real HessianDifferenceFunctions quotients on the generic quadratic c + g.x + x'Qx/2 (symbolic c, g, Q,
      x, distinct symbolic per-coordinate steps h_j > 0) equals Q entry-wise; each HessdiagDifferenceFunctions quotient
      equals h_j^2 * diag(Q) (the part the rule divides by h^2) for the quotients whose rule has a single term
  Y   exact symmetry: for an UNINTERPRETED f, out[i, j] and out[j, i] are the same term (so the matrix is symmetric bit
      for bit whatever f is)
  R   Hessdiag rules (LogHessdiagRule, n == 2, orders 2/4/6, every method incl. central2): the obligations A-D, R of C06
      for the coordinate restriction t -> f(x + t e_j) of the vector quotient (exactness to the method order, residual
      powers matched to the Richardson stage); the vector quotient IS that restriction coordinate by coordinate
  H   Hessian glue: LogHessianRule passes the quotients through unchanged, its order is fixed (1 one-sided, 2 otherwise)
      and method_order / richardson_step are what Derivative.set_richardson_rule uses
  O   the real Hessian / Hessdiag.__call__ on the quadratic (with _extrapolate by contract): shape (n, n) / (n,), entries Q /
      diag(Q), Hessdiag == diag(Hessian); f returning a length-1 array; complex-valued f with the real-step methods
"""
import itertools
import math
import warnings
import numpy as np
import z3
from ndvc import solve, xcheck
from fractions import Fraction
from ndvc.sym import R, C, real, cplx, lift, CTX, explore, NeedsConcrete, uf
from ndvc.arr import SymArr, asobj, wrap
from ndvc.overlay import PINV_LOG
from .common import fd_env, ALL, Recip, mods, SymKeyDict
from . import C06

ID = 'C04'
TRUSTED = ['A1 float == real; A2 object arrays == float arrays', 'pinv / factorial / convolve1d dependency contracts (as C06)',
           '_extrapolate by contract in the O obligations (per column an entry of that column: C07/C13/C08)',
           'composition lemma O6.2 for the Hessdiag rules (as C06)']
ASSUMPTIONS = ['steps positive; f twice differentiable; step ratio 1/q with q in (0,1)']
NOT_DECIDED = ['residual error powers of the Hessian quotients on non-quadratic f (only the Richardson (order, step) pairing is '
               'checked); accuracy envelope; agreement of Hessian and Hessdiag "within their error estimates" for nonlinear f']
BOUNDED = ['default-steps-concrete: Hessian and Hessdiag with the default step generators, 6 methods x 1..3 variables x {quadratic, exp(w.x)+x.x} = 36 concrete cases in floating point -- executed, not proved',
           'integer-x: integer-typed x (3 concrete x, 6 methods, 2 classes) compared with float x -- executed with the real numpy, not proved',
           'dimension enumerated: quick 1..3, thorough 1..6 (the property\'s range)']
QUANTIFIED = 'c, g, Q, x, per-coordinate steps h_j, q, and all values of the uninterpreted f: universally quantified'

HMETHODS = ['central', 'central2', 'forward', 'backward', 'complex', 'multicomplex']


def dims(tier):
    return [1, 2, 3] if tier == 'quick' else [1, 2, 3, 4, 6]


def enumerated(tier):
    return 'methods %s x dimension %s; Hessdiag orders {2, 4, 6}' % (HMETHODS, dims(tier))


def groups(tier):
    out = [('quadratic[d=%d]' % d, ('quad', d)) for d in dims(tier)]
    out += [('symmetry[d=%d]' % d, ('sym', d)) for d in dims(tier)[:3]]
    for method in ['central', 'central2', 'forward', 'backward', 'complex']:
        out.append(('hessdiag-rule[%s]' % method, ('hdrule', method)))
    out.append(('hessdiag-restriction', ('hdres',)))
    out.append(('hessian-rule', ('hrule',)))
    for klass in ('Hessian', 'Hessdiag'):
        out.append(('call[%s]' % klass, ('call', klass, tier)))
    out.append(('integer-x', ('intx',)))
    # the call groups run with a contract stub of the step generator; here everything is real: the default generators, their default
    # scale table (discharged against its documented table, generator shared with C10) and the six methods on concrete functions
    out.append(('contract:default-scale', ('dep', 'C10', 'run_scale', (tier,), {})))
    out.append(('default-steps-concrete', ('dconc',)))
    # the rule cache shared by every object (a wrong key lets one Hessdiag call decide the rule of the next): its invariant is
    # discharged here as well (generator shared with C09)
    out.append(('contract:rule-cache', ('dep', 'C09', 'run_ci', (), {})))
    return out


def functions_under_contract():
    m = mods(); core, fd = m['core'], m['fd']
    H, D = fd.HessianDifferenceFunctions, fd.HessdiagDifferenceFunctions
    return [H._central_even, H._central2, H._forward, H._backward, H._complex_even, H._multicomplex2,
            D._central_even, D._central2, D._forward, D._backward, D._complex_even, D._multicomplex2,
            fd.LogHessianRule.order, fd.LogHessianRule.apply, fd.LogHessianRule._complex_high_order,
            core.Hessdiag.__init__, core.Hessdiag.__call__, core.Hessian.__init__]


def quadratic(d, mc, cplx_coef=False):
    mk = (lambda nm: cplx(nm)) if cplx_coef else (lambda nm: real(nm))
    c0 = mk('c'); g = [mk('g%d' % i) for i in range(d)]
    Q = [[None] * d for _ in range(d)]
    for i in range(d):
        for j in range(i, d):
            Q[i][j] = Q[j][i] = mk('q%d%d' % (i, j))

    def f(z):
        if isinstance(z, mc.Bicomplex):
            zs = [mc.Bicomplex(asobj(z.z1)[i], asobj(z.z2)[i]) for i in range(d)]
            acc = mc.Bicomplex(c0, 0)
        else:
            zs = list(asobj(z).ravel())
            acc = c0
        for i in range(d):
            acc = acc + zs[i] * g[i]
            for j in range(d):
                acc = acc + (zs[i] * zs[j]) * (Q[i][j] / 2)
        return acc
    return c0, g, Q, f


def run_quad(d):
    with fd_env(names=('fd', 'ex', 'mc')) as m:
        fd, mc = m['fd'], m['mc']
        S2 = list(CTX.const_facts.values())
        x = SymArr([real('x%d' % i) for i in range(d)])
        h = SymArr([real('h%d' % i) for i in range(d)])
        pre = S2 + [v.t > 0 for v in h]
        c0, g, Q, f = quadratic(d, mc)
        H = fd.HessianDifferenceFunctions
        for name in ['_central_even', '_central2', '_forward', '_backward', '_complex_even', '_multicomplex2']:
            CTX.reset()
            fx = f(x)
            out = getattr(H, name)(f, fx, x, h)
            solve.fact('Q:Hessian.%s:shape==(d,d)' % name, np.shape(out) == (d, d))
            for i in range(d):
                for j in range(d):
                    o = lift(out[i, j])
                    if isinstance(o, C):
                        solve.prove('Q:Hessian.%s[%d,%d]==Q' % (name, i, j), z3.And(o.re.t == Q[i][j].t, o.im.t == 0), pre)
                    else:
                        solve.prove('Q:Hessian.%s[%d,%d]==Q' % (name, i, j), o.t == Q[i][j].t, pre)
            if d >= 2 and name == '_forward':
                solve.twin('Q:Hessian._forward[0,1]==Q*h0/h1', lift(out[0, 1]).t == (Q[0][1] * h[0] / h[1]).t, pre)
        D = fd.HessdiagDifferenceFunctions
        for name, fac in [('_central_even', R(1) / 2), ('_central2', R(1) / 2), ('_forward', R(1) / 2), ('_backward', R(1) / 2),
                          ('_complex_even', R(1)), ('_multicomplex2', R(1))]:
            CTX.reset()
            fx = f(x)
            out = getattr(D, name)(f, fx, x, h)
            solve.fact('Q:Hessdiag.%s:shape==(d,)' % name, np.shape(out) == (d,))
            for i in range(d):
                o = lift(out[i])
                if isinstance(o, C):
                    o = o.re
                lin = {'_forward': g[i] * h[i] + sum((Q[i][j] * x[j] for j in range(d)), R(0)) * h[i],
                       '_backward': g[i] * h[i] + sum((Q[i][j] * x[j] for j in range(d)), R(0)) * h[i]}.get(name, R(0))
                quad = Q[i][i] * h[i] * h[i] * fac
                if name == '_backward':
                    quad = -quad
                solve.prove('Q:Hessdiag.%s[%d]==(first-order-term)+c*h^2*Q[%d,%d]' % (name, i, i, i), o.t == (lin + quad).t, pre)
    return {}


def run_sym(d):
    with fd_env(names=('fd', 'ex', 'mc')) as m:
        fd, mc = m['fd'], m['mc']
        x = SymArr([real('x%d' % i) for i in range(d)])
        h = SymArr([real('h%d' % i) for i in range(d)])
        fre = uf('f_re', 2 * d); fim = uf('f_im', 2 * d)
        f12 = [uf('fB%d' % k, 4 * d) for k in range(4)]

        def f(z):
            if isinstance(z, mc.Bicomplex):
                args = []
                for a, b in zip(asobj(z.z1).ravel(), asobj(z.z2).ravel()):
                    a, b = C.lift(lift(a)), C.lift(lift(b))
                    args += [a.re.t, a.im.t, b.re.t, b.im.t]
                return mc.Bicomplex(C(R(f12[0](*args)), R(f12[1](*args))), C(R(f12[2](*args)), R(f12[3](*args))))
            args = []
            for a in asobj(z).ravel():
                a = C.lift(lift(a))
                args += [a.re.t, a.im.t]
            return C(R(fre(*args)), R(fim(*args)))
        H = fd.HessianDifferenceFunctions
        for name in ['_central_even', '_central2', '_forward', '_backward', '_complex_even', '_multicomplex2']:
            CTX.reset()
            fx = f(x)
            out = getattr(H, name)(f, fx, x, h)
            ok = True
            for i in range(d):
                for j in range(i + 1, d):
                    a, b = C.lift(lift(out[i, j])), C.lift(lift(out[j, i]))
                    ok = ok and a.re.t.eq(b.re.t) and a.im.t.eq(b.im.t)
            solve.fact('Y:Hessian.%s:out[i,j]-is-the-same-term-as-out[j,i]' % name, ok)
    return {}


def run_hdrule(method):
    """C06's obligations for the Hessdiag rule: the quotient restricted to one coordinate"""
    def diffwrap(vdiff):
        def d1(f, fx, x, h):
            out = vdiff(lambda z: f(asobj(z).ravel()[0]), fx, SymArr([x]), SymArr([h]))
            return asobj(out).ravel()[0]
        return d1
    orders = [2, 4, 6] if method != 'complex' else [2, 4, 6]
    info = C06.run_cfg(method, 2, orders, rulecls='LogHessdiagRule', group_fmt='hessdiag-rule[%s]/n=%d,order=%d/',
                       names=('fd', 'ex', 'mc'), diffwrap=diffwrap, requested_order=False)
    return info


def run_hdres():
    """the vector quotient is, coordinate by coordinate, the quotient of the restriction t -> f(x + t e_j)"""
    with fd_env(names=('fd', 'ex', 'mc')) as m:
        fd, mc = m['fd'], m['mc']
        d = 3
        x = SymArr([real('x%d' % i) for i in range(d)])
        h = SymArr([real('h%d' % i) for i in range(d)])
        fre = uf('f_re', 2 * d); fim = uf('f_im', 2 * d)

        def f(z):
            args = []
            for a in asobj(z).ravel():
                a = C.lift(lift(a))
                args += [a.re.t, a.im.t]
            return C(R(fre(*args)), R(fim(*args)))
        D = fd.HessdiagDifferenceFunctions
        for name in ['_central_even', '_central2', '_forward', '_backward', '_complex_even']:
            fx = f(x)
            out = getattr(D, name)(f, fx, x, h)
            for j in range(d):
                def g(t):
                    z = [lift(v) for v in x]
                    z[j] = z[j] + t
                    return f(SymArr(z))
                one = getattr(D, name)(lambda z: g(asobj(z).ravel()[0]), fx, SymArr([R(0)]), SymArr([h[j]]))
                a, b = C.lift(lift(out[j])), C.lift(lift(asobj(one).ravel()[0]))
                solve.prove('R:Hessdiag.%s[%d]==quotient-of-the-restriction-to-coordinate-%d' % (name, j, j),
                            z3.And(a.re.t == b.re.t, a.im.t == b.im.t), list(CTX.const_facts.values()))
    return {}


def run_hrule():
    from .common import defaults_facts
    defaults_facts(['core.Hessdiag.__init__', 'core.Hessian.__init__'])
    m = mods(); fd, core = m['fd'], m['core']
    with warnings.catch_warnings():
        warnings.simplefilter('ignore')
        for method in HMETHODS:
            rule = fd.LogHessianRule(n=2, method=method, order=7)
            want = 1 if method in ('forward', 'backward') else 2
            solve.fact('H:LogHessianRule(%s).order==%d-whatever-is-requested' % (method, want), rule.order == want and rule.n == 2)
            seq = [np.arange(4.0).reshape(2, 2) + k for k in range(3)]
            steps = [np.ones(2) * 0.5 ** k for k in range(3)]
            f_del, hh, shp = rule.apply(seq, steps, 2.0)
            solve.fact('H:LogHessianRule(%s).apply-passes-the-quotients-through' % method,
                       np.array_equal(f_del, np.vstack([s.ravel() for s in seq])) and shp == (2, 2))
            Hs = core.Hessian(lambda x: np.sum(x ** 2), method=method)
            Hs.set_richardson_rule(1.6, 2)
            step_w = {'central': 2, 'central2': 2, 'complex': 2, 'multicomplex': 2}.get(method, 1)
            solve.fact('H:Hessian(%s)-Richardson(order=%d,step=%d)' % (method, want if want >= step_w else step_w, step_w),
                       Hs.richardson.step == step_w and Hs.richardson.order == max((want // step_w) * step_w, step_w))
    return {}


class StubGen(object):
    def __init__(self, n, K, r, q):
        self.n, self.K, self.step_ratio, self.q = n, K, r, q

    def step_generator_function(self, x, method='forward', n=1, order=2):
        return self

    def steps(self):
        return [SymArr([real('h%d' % j) * self.q ** i for j in range(self.n)]) for i in range(self.K)]

    def __call__(self):
        return iter(self.steps())


def native_hess(klass, method, order, full, arr1, hist, c0, gn, Qn, xn, hn, K):
    """the harness of run_call on floats: quadratic f, geometric steps h_j * 2**-i, _extrapolate replaced by `row 0`"""
    def run():
        import numdifftools as nd
        from numdifftools.multicomplex import Bicomplex
        d = len(xn)

        def f(z, scale=None):
            if isinstance(z, Bicomplex):
                zs = [Bicomplex(z.z1[i], z.z2[i]) for i in range(d)]
                acc = Bicomplex(c0, 0)
            else:
                zs = list(z)
                acc = c0
            for i in range(d):
                acc = acc + zs[i] * gn[i]
                for j in range(d):
                    acc = acc + (zs[i] * zs[j]) * (Qn[i][j] / 2)
            if hist:
                acc = acc * scale
            if arr1 and not isinstance(acc, Bicomplex):
                return np.array([acc])
            return acc

        class G(object):
            step_ratio = 2.0

            def step_generator_function(self, x, method='forward', n=1, order=2):
                return self

            def __call__(self):
                return iter([hn * 0.5 ** i for i in range(K)])
        kw = dict(step=G(), method=method, full_output=full)
        if order is not None:
            kw['order'] = order
        obj = getattr(nd, klass)(f, **kw)

        def spy(results, steps, shape):
            return results[0].reshape(shape), nd.limits._Limit.info(np.zeros(results[0].shape).reshape(shape), steps[0].reshape(shape), np.arange(results.shape[1]))
        obj._extrapolate = spy
        with warnings.catch_warnings():
            warnings.simplefilter('ignore')
            r = (obj(xn, 1.25), obj(xn, -1.5))[1] if hist else obj(xn)
        return r[0] if full else r
    return run


def run_call(klass, tier):
    info = dict(configs=0)
    with fd_env(names=ALL) as mm:
        core, mc, fd = mm['core'], mm['mc'], mm['fd']
        q = real('q'); r = Recip(q)
        S2 = list(CTX.const_facts.values())
        variants = [('plain', False, False), ('length-1-array-f', True, False), ('complex-valued-f', False, True),
                    ('second-call-with-other-args', False, False)]
        for d in (dims(tier)[:3] if tier == 'quick' else [1, 2, 3, 4]):
            for method in HMETHODS:
                for vname, arr1, cplxf in variants:
                    if cplxf and method in ('complex', 'multicomplex'):
                        continue
                    for order, full in itertools.product(([2, 4] if klass == 'Hessdiag' and vname == 'plain' and method in ('central', 'forward') else [2]), (True, False)):
                        CTX.reset()
                        del PINV_LOG[:]
                        fd.FD_RULES = SymKeyDict()
                        tag = '%s,d=%d,order=%d,%s%s:' % (method, d, order, vname, '' if full else ',full_output=False')
                        c0, g, Q, f0 = quadratic(d, mc, cplx_coef=cplxf)

                        hist = vname == 'second-call-with-other-args'
                        s1, s2 = real('s1'), real('s2')

                        def f(z, scale=None):
                            v = f0(z)
                            if hist:
                                v = v * scale      # f(x, scale) = scale * quadratic(x): Hessian == scale * Q
                            if arr1 and not isinstance(v, mc.Bicomplex):
                                return SymArr([v])
                            return v
                        x = SymArr([real('x%d' % j) for j in range(d)])
                        gen = StubGen(d, 8 if order == 2 else 10, r, q)
                        kw = dict(step=gen, method=method, full_output=full)
                        if klass == 'Hessdiag':
                            kw['order'] = order
                        with warnings.catch_warnings():
                            warnings.simplefilter('ignore')
                            obj = getattr(core, klass)(f, **kw)
                            cap = {}

                            def spy(results, steps, shape):
                                cap['t'] = (results, steps, shape)
                                res = asobj(results); stp = asobj(steps)
                                return wrap(res[0].reshape(shape)), core._Limit.info(wrap(np.zeros(res[0].shape).reshape(shape)),
                                                                                     wrap(stp[0].reshape(shape)), np.arange(res.shape[1]))
                            obj._extrapolate = spy
                            paths = explore((lambda: (obj(x, s1), obj(x, s2))[1]) if hist else (lambda: obj(x)), pre=[q.t > 0, q.t < 1] + [z3.Real('h%d' % j) > 0 for j in range(d)], max_paths=16)
                        ok = len(paths) == 1 and paths[0].exc is None
                        solve.fact(tag + 'runs-on-a-single-path', ok, note=str([repr(p.exc)[:160] for p in paths if p.exc][:1]))
                        if not ok:
                            continue
                        info['configs'] += 1
                        out, inf = paths[0].value if full else (paths[0].value, None)
                        if not cplxf:
                            # engine cross-check on floats (same stubs, no overlay)
                            asg = {'q': Fraction(1, 2), 'c': Fraction(3, 4), 's1': Fraction(5, 4), 's2': Fraction(-3, 2)}
                            gn = np.zeros(d); Qn = np.zeros((d, d))
                            for i_ in range(d):
                                asg['x%d' % i_] = Fraction(3 * i_ - 2, 7); asg['h%d' % i_] = Fraction(i_ + 2, 16)
                                gn[i_] = (i_ + 1) / 4.0; asg['g%d' % i_] = Fraction(float(gn[i_]))
                                for j_ in range(i_, d):
                                    Qn[i_, j_] = Qn[j_, i_] = ((5 * i_ + 3 * j_) % 7 - 3) / 2.0 + 0.25; asg['q%d%d' % (i_, j_)] = Fraction(float(Qn[i_, j_]))
                            xcheck.defer(tag + 'engine==CPython(%s)' % klass, out, asg,
                                         native_hess(klass, method, kw.get('order'), full, arr1, hist, 0.75, gn, Qn,
                                                     np.array([float(asg['x%d' % i_]) for i_ in range(d)]), np.array([float(asg['h%d' % i_]) for i_ in range(d)]),
                                                     8 if order == 2 else 10), pinv_log=list(PINV_LOG), rtol=1e-7, atol=1e-9)
                        H = paths[0].hyps + S2
                        for (M, P) in PINV_LOG:
                            T = M.shape[0]
                            for i in range(T):
                                for j in range(T):
                                    lhs = sum((lift(P[i, a]) * lift(M[a, j]) for a in range(T)), R(0))
                                    H = H + [lhs.t == (1 if i == j else 0)]
                        wshape = (d, d) if klass == 'Hessian' else (d,)
                        solve.fact(tag + 'result-shape==%s' % (wshape,), np.shape(out) == wshape, note=str(np.shape(out)))
                        if np.shape(out) != wshape:
                            continue
                        res, steps, shape = cap['t']
                        tab = asobj(res).reshape((asobj(res).shape[0],) + tuple(shape))
                        for idx in np.ndindex(wshape):
                            want = Q[idx[0]][idx[1]] if klass == 'Hessian' else Q[idx[0]][idx[0]]
                            if hist:
                                want = want * s2     # the second call's own argument
                            for rr in sorted({0, tab.shape[0] - 1}):
                                got = C.lift(lift(tab[(rr,) + idx])); w = C.lift(lift(want))
                                solve.prove(tag + 'table[%d]%s==Q-entry' % (rr, idx), z3.And(got.re.t == w.re.t, got.im.t == w.im.t), H)
                        if full:
                            solve.fact(tag + 'error_estimate-and-final_step-one-entry-per-result-entry',
                                       np.size(inf.error_estimate) == np.size(out) and np.size(inf.final_step) == np.size(out))
    xcheck.flush()
    return info


def _int_poly3(x):
    return x[0] ** 2 * x[1] + 3 * x[0] * x[1] ** 2 + x[2] ** 3 + x[0] * x[2]


INT_XS = [[1, 2, 3], np.array([2, 1, 4]), np.array([1, -2, 3], dtype=np.int32)]


def run_intx():
    from .common import integer_input_cases
    integer_input_cases([('Hessian', _int_poly3, INT_XS, {}), ('Hessdiag', _int_poly3, INT_XS, {})],
                        lambda c: ['central', 'central2', 'forward', 'backward', 'complex', 'multicomplex'])
    return {}


def run_dconc():
    import numdifftools as nd
    from ndvc.concrete import hessian_default_step_cases
    cnt, bad = hessian_default_step_cases(nd)
    solve.fact('Hessian-and-Hessdiag-with-their-default-steps:symmetric,quadratic-reproduced,smooth-f-within-1e-5,diagonals-agree[%d cases]' % cnt, not bad, kind='bounded', note=str(bad[:2])[:400])
    return {}


def run_group(args):
    if args[0] == 'dep':
        import importlib
        return getattr(importlib.import_module('props.' + args[1]), args[2])(*args[3], **args[4])
    if args[0] == 'dconc':
        return run_dconc()
    if args[0] == 'intx':
        return run_intx()
    if args[0] == 'quad':
        return run_quad(args[1])
    if args[0] == 'sym':
        return run_sym(args[1])
    if args[0] == 'hdrule':
        return run_hdrule(args[1])
    if args[0] == 'hdres':
        return run_hdres()
    if args[0] == 'hrule':
        return run_hrule()
    return run_call(args[1], args[2])


def replay_case(ob):
    import re
    nm = ob['name']
    if nm.startswith('contract:rule-cache/'):
        return dict(kind='C04.hrule')
    if nm.startswith('default-steps-concrete/') or nm.startswith('contract:default-scale/'):
        return dict(kind='C04.dconc')
    if nm.startswith('hessian-rule/'):
        return dict(kind='C04.hrule')
    mm = re.search(r'integer-x/(\w+),(\w+):', nm)
    if mm:
        return dict(kind='common.intx', klass=mm.group(1), method=mm.group(2), f='poly3')
    mm = re.search(r'call\[(\w+)\]/(\w+),d=(\d+),order=(\d+),([\w-]+)', nm)
    if mm:
        return dict(kind='C04.call', klass=mm.group(1), method=mm.group(2), d=int(mm.group(3)), order=int(mm.group(4)), variant=mm.group(5))
    mm = re.search(r'hessdiag-rule\[(\w+)\]/n=2,order=(\d+)', nm)
    if mm:
        return dict(kind='C04.call', klass='Hessdiag', method=mm.group(1), d=2, order=int(mm.group(2)), variant='plain')
    mm = re.search(r'Hessian\.(_\w+)', nm)
    return dict(kind='C04.call', klass='Hessian', method={'_central_even': 'central', '_central2': 'central2', '_forward': 'forward',
                                                           '_backward': 'backward', '_complex_even': 'complex',
                                                           '_multicomplex2': 'multicomplex'}.get(mm.group(1) if mm else '', 'central'),
                d=3, order=2, variant='plain')
