"""C05 -- the user function is evaluated only at admissible points.

f is an uninterpreted *recording* function; x symbolic (scalar or vector of dimension d); h symbolic positive
(scalar, or per-coordinate vector).  For the list Z of recorded arguments of every difference function of the four
classes:
  forward:   z - x >= 0 component-wise and z real;   backward: z - x <= 0 and z real
  central / central2:  the set of offsets {z - x} is symmetric (each offset has its negative), z real
  _complex (default first-derivative complex rule) and multicomplex:  Re z == x exactly; for Bicomplex arguments
             z1.real == x and the perturbation lives only in the imaginary components
  reach:     |Re(z_j - x_j)| <= w*h_j and |Im| <= w*h_j with stencil width w = 2, offsets non-zero in at most one
             coordinate (Derivative/Jacobian/Gradient/Hessdiag) or two (Hessian)
dispatch (all n, order symbolic where the class lets them vary): method X resolves only to quotients of family X.
glue: Derivative/Jacobian/Hessdiag/Hessian._derivative(...) with a contract stub of the step generator (positive
steps, C10) evaluates `fun` only at admissible points and passes the caller's args/kwds unchanged;
frame (AST): `self.fun` is read only in Derivative._get_functions and Derivative._derivative_zero_order.
"""
import itertools
import numpy as np
import z3
from ndvc import solve, cut, xcheck
from ndvc.sym import R, C, Z, B, real, integer, lift, CTX, explore, NeedsConcrete
from ndvc.arr import SymArr, asobj, wrap
from ndvc.overlay import installed
from .common import fd_env, mods, ALL

ID = 'C05'
TRUSTED = [
    'A1 float == real; A2 numpy object arrays apply the same element operations as float arrays',
    'step generator contract (positivity discharged in this check: generated-steps-positive; the sequence itself under C10): every generated step is positive (element-wise) and is passed to the '
    'difference function unchanged',
    'z3 / cvc5 as deciders (linear real arithmetic + sqrt(2) as algebraic constant)',
]
ASSUMPTIONS = ['steps h > 0 (generator contract); x real for the recorded-offset predicates',
               'the user function is treated as uninterpreted: its values are fresh symbols (complex / Bicomplex as the '
               'call requires)']
NOT_DECIDED = ['whether x + h in floating point rounds to a value below x: rounding is outside A1']
BOUNDED = ['points-concrete: the evaluation points of every vector difference function recorded on floats that do not survive (x+h)-h exactly (0.1, 0.3, 1e-18 next to 2.0; steps not powers of two): one-sidedness, mirror points, unperturbed coordinates bit-identical to x -- executed, not proved',
           'dimension d of the vector classes enumerated (quick: 1..3, thorough: 1..5 -- the property\'s range); the '
           'argument is uniform in d']
QUANTIFIED = 'x (each coordinate), h (each coordinate, > 0), all values returned by f: universally quantified reals; ' \
             'n, order universally quantified integers in the dispatch groups'

WIDTH = 2


def dims(tier):
    return [1, 2, 3] if tier == 'quick' else [1, 2, 3, 4, 5]


def enumerated(tier):
    return 'classes {Difference,Jacobian,Hessdiag,Hessian}Functions x all their functions x dimension %s; ' \
           'Derivative-level glue: 5 classes x their methods' % dims(tier)


FUNCS = [('_forward', 'forward'), ('_backward', 'backward'), ('_central', 'symmetric'), ('_central_even', 'symmetric'),
         ('_central2', 'symmetric'), ('_complex', 'imag-only'), ('_multicomplex', 'imag-only'),
         ('_multicomplex2', 'imag-only'), ('_complex_even', 'any'), ('_complex_odd', 'any'),
         ('_complex_even_higher', 'any'), ('_complex_odd_higher', 'any')]

FAMILY = {'forward': ['_forward'], 'backward': ['_backward'], 'central': ['_central', '_central_even'],
          'central2': ['_central2'], 'complex': ['_complex', '_complex_even', '_complex_odd', '_complex_even_higher',
                                                 '_complex_odd_higher'],
          'multicomplex': ['_multicomplex', '_multicomplex2']}
KIND_OF_METHOD = {'forward': 'forward', 'backward': 'backward', 'central': 'symmetric', 'central2': 'symmetric',
                  'multicomplex': 'imag-only', 'complex': 'any'}


def groups(tier):
    out = []
    for cls in ['DifferenceFunctions', 'JacobianDifferenceFunctions', 'HessdiagDifferenceFunctions',
                'HessianDifferenceFunctions']:
        ds = [0, 2] if cls == 'DifferenceFunctions' else dims(tier)
        for d in ds:
            out.append(('points[%s,d=%d]' % (cls, d), ('points', cls, d)))
    for rule in ['LogRule', 'LogJacobianRule', 'LogHessdiagRule', 'LogHessianRule']:
        out.append(('dispatch[%s]' % rule, ('dispatch', rule)))
    for klass in ['Derivative', 'Jacobian', 'Gradient', 'Hessdiag', 'Hessian']:
        out.append(('glue[%s]' % klass, ('glue', klass, tier)))
    out.append(('frame', ('frame',)))
    out.append(('points-concrete', ('pconc',)))
    # the precondition h > 0 of the points / glue groups is the generators' postcondition: discharged on the real generators here
    out.append(('generated-steps-positive', ('steps',)))
    # Gradient / Jacobian of an x with several axes: every evaluation point differs from x.ravel() in at most one coordinate
    # whatever the memory layout of x (generator shared with C03)
    out.append(('layout[Gradient]', ('dep', 'C03', 'run_layout', (), {})))
    return out


def functions_under_contract():
    m = mods()
    fd, core = m['fd'], m['core']
    out = []
    for cls in (fd.DifferenceFunctions, fd.JacobianDifferenceFunctions, fd.HessdiagDifferenceFunctions,
                fd.HessianDifferenceFunctions):
        for nm in sorted(vars(cls)):
            if nm.startswith('_') and not nm.startswith('__') or nm == 'increments':
                out.append(getattr(cls, nm))
    L = fd.LogRule
    out += [L.diff, L._get_middle_name, L._get_last_name, L._multicomplex_middle_name, L._complex_high_order,
            fd.LogHessianRule._complex_high_order,
            core.Derivative._get_functions, core.Derivative._eval_first, core.Derivative._derivative_nonzero_order,
            core.Derivative._derivative_zero_order, core.Jacobian._derivative_nonzero_order,
            core.Jacobian.__call__, core.Gradient.__call__, core.Hessdiag.__call__]
    return out


# ------------------------------------------------------------------------------------------------
class Recorder(object):
    def __init__(self, mc, out_shape=None):
        self.calls = []
        self.extra = []
        self.mc = mc
        self.out_shape = out_shape
        self.k = 0

    def __call__(self, z, *args, **kwds):
        self.calls.append(z)
        self.extra.append((args, kwds))
        self.k += 1
        k = self.k
        if isinstance(z, self.mc.Bicomplex):
            shp = self.out_shape
            if shp == 'like':
                shp = None if asobj(z.z1).shape == () else asobj(z.z1).size
            if shp is None:
                return self.mc.Bicomplex(C(z3.Real('v%d' % k), z3.Real('w%d' % k)), C(z3.Real('p%d' % k), z3.Real('q%d' % k)))
            return self.mc.Bicomplex(SymArr([C(z3.Real('v%d_%d' % (k, i)), z3.Real('w%d_%d' % (k, i))) for i in range(shp)]),
                                     SymArr([C(z3.Real('p%d_%d' % (k, i)), z3.Real('q%d_%d' % (k, i))) for i in range(shp)]))
        if self.out_shape is None:
            return C(z3.Real('v%d' % k), z3.Real('w%d' % k))
        if self.out_shape == 'like':
            zz = asobj(z)
            out = np.empty(zz.shape, dtype=object)
            for j, idx in enumerate(np.ndindex(zz.shape)):
                out[idx] = C(z3.Real('v%d_%d' % (k, j)), z3.Real('w%d_%d' % (k, j)))
            return out.view(SymArr) if zz.shape else out[()]
        return SymArr([C(z3.Real('v%d_%d' % (k, i)), z3.Real('w%d_%d' % (k, i))) for i in range(self.out_shape)])


def offsets(z, xs, mc):
    """per coordinate: (Re z - x, Im z, Re z2, Im z2) as z3 terms"""
    if isinstance(z, mc.Bicomplex):
        z1 = list(asobj(z.z1).ravel()); z2 = list(asobj(z.z2).ravel())
    else:
        z1 = list(asobj(z).ravel()); z2 = [0] * len(z1)
    if len(z1) != len(xs):
        return None
    out = []
    for a, b, x in zip(z1, z2, xs):
        a, b = C.lift(lift(a)), C.lift(lift(b))
        out.append(((a.re - x).t, a.im.t, b.re.t, b.im.t))
    return out


def check_points(tag, calls, xs, hs, kind, mc, maxnz, pre):
    """emit the admissibility obligations for the recorded calls"""
    offs = []
    for ci, z in enumerate(calls):
        o = offsets(z, xs, mc)
        solve.fact('%s:call%d:same-size-as-x' % (tag, ci), o is not None)
        if o is None:
            return
        offs.append(o)
    zero = z3.RealVal(0)
    for ci, o in enumerate(offs):
        # reach and number of perturbed coordinates
        nz = 0
        for j, c in enumerate(o):
            allzero = all(z3.is_rational_value(z3.simplify(t)) and z3.simplify(t).as_fraction() == 0 for t in c)
            if not allzero:
                st, _, _, _ = solve.check(z3.And(*[t == 0 for t in c]), pre, 5000, want_model=False, use_cvc5=False)
                allzero = st == 'proved'
            if not allzero:
                nz += 1
            w = WIDTH * hs[j].t
            solve.prove('%s:call%d:x%d:reach' % (tag, ci, j),
                        z3.And(*[z3.And(t <= w, t >= -w) for t in c]), pre)
            if kind == 'forward':
                solve.prove('%s:call%d:x%d:not-below-x' % (tag, ci, j), z3.And(c[0] >= 0, c[1] == 0, c[2] == 0, c[3] == 0), pre)
            elif kind == 'backward':
                solve.prove('%s:call%d:x%d:not-above-x' % (tag, ci, j), z3.And(c[0] <= 0, c[1] == 0, c[2] == 0, c[3] == 0), pre)
            elif kind == 'imag-only':
                solve.prove('%s:call%d:x%d:real-part-is-x' % (tag, ci, j), c[0] == 0, pre)
            elif kind == 'symmetric':
                solve.prove('%s:call%d:x%d:real' % (tag, ci, j), z3.And(c[1] == 0, c[2] == 0, c[3] == 0), pre)
        solve.fact('%s:call%d:perturbs<=%d-coordinates' % (tag, ci, maxnz), nz <= maxnz, note='nz=%d' % nz)
    if kind == 'symmetric':
        for ci, o in enumerate(offs):
            found = False
            for o2 in offs:
                g = z3.And(*[z3.And(*[a == -b for a, b in zip(c1, c2)]) for c1, c2 in zip(o, o2)])
                st, _, _, _ = solve.check(g, pre, 5000, want_model=False, use_cvc5=False)
                if st == 'proved':
                    found = True
                    break
            solve.fact('%s:call%d:mirror-point-evaluated' % (tag, ci), found)


def native_points(clsname, name, d):
    def run():
        import importlib
        fdn = importlib.import_module('numdifftools.finite_difference')
        from numdifftools.multicomplex import Bicomplex
        calls = []

        def rec(z, *a, **k):
            calls.append((np.array(z.z1), np.array(z.z2)) if isinstance(z, Bicomplex) else np.array(z))
            if isinstance(z, Bicomplex):
                if clsname == 'JacobianDifferenceFunctions':
                    return Bicomplex(np.array([0.5 + 0.25j, -1.0 + 0.5j]), np.array([0.125 + 1j, 0.75 - 0.5j]))
                if clsname == 'DifferenceFunctions' and d > 0:
                    return Bicomplex(np.asarray(z.z1) * 0 + (0.5 + 0.25j), np.asarray(z.z1) * 0 + (0.125 + 1j))
                return Bicomplex(0.5 + 0.25j, 0.125 + 1j)
            im = 1j if np.iscomplexobj(z) else 0          # real-step quotients need a real-valued f at real points
            if clsname == 'JacobianDifferenceFunctions':
                return np.array([0.5 + 0.25 * im, -1.0 + 0.5 * im])
            if clsname == 'DifferenceFunctions' and d > 0:
                return np.asarray(z) * 0 + (0.5 + 0.25 * im)
            return 0.5 + 0.25 * im
        if clsname == 'DifferenceFunctions' and d == 0:
            x, h, fx = 0.3, 0.125, 0.5
        else:
            x = np.array([(3 * j - 2) / 7.0 for j in range(d)]); h = np.array([(j + 2) / 16.0 for j in range(d)])
            fx = np.array([0.5, -0.25]) if clsname == 'JacobianDifferenceFunctions' else (x * 0 + 0.5 if clsname == 'DifferenceFunctions' else 0.5)
        getattr(getattr(fdn, clsname), name)(rec, fx, x, h)
        return calls
    return run


def run_points(clsname, d):
    info = dict(functions=[])
    with fd_env(names=('fd', 'ex', 'mc')) as m:
        fd, mc = m['fd'], m['mc']
        cls = getattr(fd, clsname)
        S2 = list(CTX.const_facts.values())
        for name, kind in FUNCS:
            if not hasattr(cls, name):
                continue
            CTX.reset()
            if clsname == 'DifferenceFunctions':
                if d == 0:
                    x = real('x'); h = real('h'); xs = [x]; hs = [h]
                else:
                    x = SymArr([real('x%d' % j) for j in range(d)]); h = SymArr([real('h%d' % j) for j in range(d)])
                    xs = list(x); hs = list(h)
                rec = Recorder(mc, None if d == 0 else 'like')
                fx = C(z3.Real('fx'), z3.Real('fxi')) if d == 0 else rec.__class__(mc, 'like')(x)
            else:
                x = SymArr([real('x%d' % j) for j in range(d)]); h = SymArr([real('h%d' % j) for j in range(d)])
                xs = list(x); hs = list(h)
                rec = Recorder(mc, 2 if clsname == 'JacobianDifferenceFunctions' else None)
                fx = SymArr([real('fx0'), real('fx1')]) if clsname == 'JacobianDifferenceFunctions' else real('fx')
            pre = S2 + [v.t > 0 for v in hs]
            tag = name
            try:
                getattr(cls, name)(rec, fx, x, h)
            except NeedsConcrete:
                raise
            except Exception as e:
                solve.fact('%s:runs' % tag, False, note=repr(e)[:300])
                continue
            solve.fact('%s:evaluates-f' % tag, len(rec.calls) > 0, note='%d calls' % len(rec.calls))
            # engine cross-check: the evaluation points recorded on floats with the real numpy
            from fractions import Fraction as Fr
            asg = {'x': Fr(3, 10), 'h': Fr(1, 8), 'fx': Fr(1, 2), 'fxi': Fr(0), 'fx0': Fr(1, 2), 'fx1': Fr(-1, 4)}
            for j in range(max(d, 1)):
                asg['x%d' % j] = Fr(3 * j - 2, 7); asg['h%d' % j] = Fr(j + 2, 16)
            xcheck.defer('%s:engine==CPython(evaluation-points)' % tag, [(z.z1, z.z2) if isinstance(z, mc.Bicomplex) else z for z in rec.calls], asg,
                         native_points(clsname, name, d), rtol=1e-12, atol=1e-14)
            maxnz = 2 if clsname == 'HessianDifferenceFunctions' else (1 if clsname != 'DifferenceFunctions' else max(d, 1))
            check_points(tag, rec.calls, xs, hs, kind, mc, maxnz, pre)
            info['functions'].append('%s.%s d=%d kind=%s calls=%d' % (clsname, name, d, kind, len(rec.calls)))
            if clsname != 'DifferenceFunctions':
                # re-entrant use (the documented idiom Jacobian(Gradient(f)), or f differentiating something itself): while the
                # outer pass is suspended inside f, a second pass of the same dimension runs to completion
                outer = []
                state = dict(nested=0)
                x2 = SymArr([real('y%d' % j) for j in range(d)]); h2 = SymArr([real('g%d' % j) for j in range(d)])
                rec_in = Recorder(mc, 2 if clsname == 'JacobianDifferenceFunctions' else None)
                rec_out = Recorder(mc, 2 if clsname == 'JacobianDifferenceFunctions' else None)

                def f_outer(z, *a, **k):
                    outer.append(z)
                    if len(outer) in (1, 4) and state['nested'] < 2:
                        state['nested'] += 1
                        getattr(cls, name)(rec_in, fx, x2, h2)
                    return rec_out(z, *a, **k)
                try:
                    getattr(cls, name)(f_outer, fx, x, h)
                    ran = True
                except NeedsConcrete:
                    raise
                except Exception as e:
                    ran = False
                    solve.fact('%s:re-entrant:runs' % tag, False, note=repr(e)[:200])
                if ran:
                    solve.fact('%s:re-entrant:nested-pass-ran' % tag, state['nested'] >= 1)
                    check_points(tag + ':re-entrant-outer-pass', outer, xs, hs, kind, mc, maxnz, pre + [v.t > 0 for v in h2])
                    check_points(tag + ':re-entrant-nested-pass', rec_in.calls, list(x2), list(h2), kind, mc, maxnz, pre + [v.t > 0 for v in h2])
            if name == '_forward' and CTX is not None:
                # must-fail twin: a forward stencil is NOT below x
                o = offsets(rec.calls[0], xs, mc)
                solve.twin('%s:call0:below-x' % tag, z3.And(*[c[0] <= 0 for c in o]), pre)
    xcheck.flush()
    return info


def run_dispatch(rulename):
    m = mods()
    fd = m['fd']
    cls = getattr(fd, rulename)
    info = dict(dispatch=[])
    methods = ['forward', 'backward', 'central', 'complex', 'multicomplex'] + \
        (['central2'] if rulename in ('LogHessdiagRule', 'LogHessianRule') else [])
    for method in methods:
        def run():
            n = integer('n'); order = integer('order')
            rule = cls(n=n, method=method, order=order)
            return dict(name=rule.diff.__name__, n=rule.n, order=order)
        pre = [z3.Int('n') >= 1, z3.Int('order') >= 1]
        if method == 'multicomplex':
            pre.append(z3.Int('n') <= 2)
        if rulename == 'LogJacobianRule':
            pre.append(z3.Int('n') == 1)      # Jacobian / Gradient are first-derivative classes
        with installed(fd):
            import warnings
            with warnings.catch_warnings():
                warnings.simplefilter('ignore')
                paths = explore(run, pre=pre, catch=(AttributeError, ValueError, TypeError))
        names = set()
        for pi, p in enumerate(paths):
            tag = '%s:path%d' % (method, pi)
            if p.exc is not None:
                # a method the class does not implement at all raises AttributeError: no evaluation (admissible);
                # a method it does implement must resolve on every path
                supported = any(hasattr(cls._difference_functions, nm) for nm in FAMILY[method])
                solve.fact(tag + ':only-unsupported-methods-raise', isinstance(p.exc, AttributeError) and not supported,
                           note=repr(p.exc)[:200])
                names.add('<%s>' % type(p.exc).__name__)
                continue
            nm = p.value['name']
            names.add(nm)
            solve.fact(tag + ':family', nm in FAMILY[method], note=nm)
            if method == 'complex' and nm != '_complex' and rulename == 'LogRule':
                # the default first-derivative complex rule (n == 1, order < 4) must be the pure imaginary-step quotient
                n_, o_ = p.value['n'], p.value['order']
                solve.prove(tag + ':n==1&order<4=>_complex', z3.Not(z3.And(n_.t == 1, o_.t < 4)), p.hyps)
            if method == 'complex' and nm == '_complex':
                solve.fact(tag + ':_complex-selected', True)
        solve.fact('%s:paths>0' % method, len(paths) > 0)
        info['dispatch'].append('%s.%s -> %s' % (rulename, method, sorted(names)))
    return info


class StubGen(object):
    """contract stub of a step generator: K positive steps (element-wise symbols), records its arguments"""

    def __init__(self, d, K=3, scalar=False):
        self.d, self.K, self.scalar = d, K, scalar
        self.step_ratio = 2.0
        self.args = None

    def step_generator_function(self, x, method='forward', n=1, order=2):
        self.args = (method, n, order)
        return self

    def steps(self):
        out = []
        for i in range(self.K):
            if self.scalar:
                out.append(real('h_%d' % i))
            else:
                out.append(SymArr([real('h_%d_%d' % (i, j)) for j in range(self.d)]))
        return out

    def __call__(self):
        return iter(self.steps())


def run_glue(klass, tier):
    info = dict(glue=[])
    with fd_env(names=ALL) as m:
        core, fd, mc = m['core'], m['fd'], m['mc']
        S2 = list(CTX.const_facts.values())
        K = getattr(core, klass)
        methods = ['forward', 'backward', 'central', 'complex', 'multicomplex']
        if klass in ('Hessdiag', 'Hessian'):
            methods.append('central2')
        d = 2
        cfgs = []
        for method in methods:
            if klass == 'Derivative':
                for n, order in [(1, 2), (2, 2), (3, 4), (4, 2)] + ([(5, 4), (6, 2)] if tier != 'quick' else []):
                    if method == 'multicomplex' and n > 2:
                        continue
                    cfgs.append((method, n, order))
            elif klass in ('Jacobian', 'Gradient'):
                cfgs += [(method, 1, 2)] + ([(method, 1, 4)] if method in ('complex', 'central', 'forward') else [])
            else:
                cfgs.append((method, 2, 2))
        variants = [(c, None) for c in cfgs] + [(c, cfgs[(i + 1) % len(cfgs)]) for i, c in enumerate(cfgs)]
        for (method, n, order), other in variants:
            CTX.reset()
            tag = '%s,n=%d,order=%d' % (method, n, order)
            if other is not None:
                # history variant: the object was constructed for another configuration and re-configured through
                # its public setters before the call
                tag = 'reconf(%s,n=%d,order=%d)->%s' % (other + (tag,))
            scalar_x = klass == 'Derivative'
            gen = StubGen(d, K=n + order + 2, scalar=False)
            if klass == 'Derivative':
                rec = Recorder(mc, 'like')
            elif klass == 'Jacobian':
                rec = Recorder(mc, 2)
            else:
                rec = Recorder(mc, None)
            real_valued = method in ('complex', 'multicomplex')
            if real_valued:
                # complex-step methods require a real-valued f at real x: return real symbols for real arguments
                base = rec

                class RealAtReal(object):
                    calls = base.calls; extra = base.extra

                    def __call__(self, z, *a, **k):
                        v = base(z, *a, **k)
                        zz = z if not isinstance(z, mc.Bicomplex) else None
                        if zz is not None and not any(isinstance(lift(t), C) for t in asobj(zz).ravel()):
                            return SymArr(v).real if isinstance(v, np.ndarray) else lift(v).real
                        return v
                rec_f = RealAtReal()
            else:
                rec_f = rec
            m0, n0, o0 = other if other is not None else (method, n, order)
            kw = dict(step=gen, method=m0, order=o0)
            if klass == 'Derivative':
                kw['n'] = n0
            try:
                import warnings
                with warnings.catch_warnings():
                    warnings.simplefilter('ignore')
                    obj = K(rec_f, **kw)
                    if other is not None:
                        obj.method = method
                        obj.order = order
                        if klass == 'Derivative':
                            obj.n = n
                x = SymArr([real('x%d' % j) for j in range(d)])
                xs = list(x)
                args = ('A1', 7)
                kwds = dict(key='K')
                import warnings
                with warnings.catch_warnings():
                    warnings.simplefilter('ignore')
                    obj._derivative(x, args, kwds)
                    n_first = len(rec.extra)
                    # history variant: the same object is called again with other extra arguments
                    args2, kwds2 = ('A2', 8, 'more'), dict(key='K2', other=3)
                    obj._derivative(x, args2, kwds2)
            except NeedsConcrete:
                raise
            except ValueError as e:
                if method == 'complex' and klass == 'Hessian' or 'Multicomplex method only' in str(e):
                    solve.fact('%s:runs' % tag, True, note='rejected: ' + str(e)[:80])
                    continue
                solve.fact('%s:runs' % tag, False, note=repr(e)[:300])
                continue
            except Exception as e:
                solve.fact('%s:runs' % tag, False, note=repr(e)[:300])
                continue
            solve.fact('%s:runs' % tag, True)
            hs_all = gen.steps()
            pre = S2 + [lift(v).t > 0 for st in hs_all for v in asobj(st).ravel()]
            # each recorded call must be admissible w.r.t. SOME generated step table row: use hmax_j = sum of rows (>= each)
            hs = [R(z3.Sum([lift(asobj(st).ravel()[j]).t for st in hs_all])) for j in range(d)]
            kind = KIND_OF_METHOD[method]
            if method == 'complex' and klass in ('Derivative', 'Jacobian', 'Gradient') and n == 1 and order < 4:
                kind = 'imag-only'
            maxnz = 2 if klass == 'Hessian' else (d if klass == 'Derivative' else 1)
            calls = [z for z in rec.calls]
            # drop the evaluation at x itself (allowed for every method)
            check_points(tag, calls, xs, hs, kind if kind != 'symmetric' else 'symmetric', mc, maxnz, pre)
            solve.fact('%s:args-forwarded-unchanged' % tag,
                       all(a == args and k == kwds for a, k in rec.extra[:n_first]) and n_first > 0)
            solve.fact('%s:second-call-forwards-its-own-args' % tag,
                       all(a == args2 and k == kwds2 for a, k in rec.extra[n_first:]) and len(rec.extra) == 2 * n_first,
                       note=str((n_first, len(rec.extra), rec.extra[n_first:][:1])))
            solve.fact('%s:generator-gets-(method,n,method_order)' % tag,
                       gen.args == (method, obj.n, obj.method_order), note=str(gen.args))
            info['glue'].append('%s %s calls=%d' % (klass, tag, len(calls)))
    return info


def run_frame():
    import ast
    import inspect
    m = mods()
    core = m['core']
    tree = ast.parse(inspect.getsource(core))
    hits = []

    def walk(node, qual):
        for ch in ast.iter_child_nodes(node):
            q = qual
            if isinstance(ch, (ast.FunctionDef, ast.ClassDef)):
                q = (qual + '.' if qual else '') + ch.name
            if isinstance(ch, ast.Attribute) and ch.attr == 'fun' and isinstance(ch.ctx, ast.Load):
                hits.append(qual)
            walk(ch, q)
    walk(tree, '')
    allowed = {'Derivative._get_functions', 'Derivative._derivative_zero_order'}
    solve.fact('self.fun-read-only-in-get_functions-and-zero_order', set(hits) <= allowed and len(hits) >= 2,
               note=str(sorted(set(hits))))
    # Jacobian override evaluates through the same export_fun closure
    src = inspect.getsource(core.Jacobian._derivative_nonzero_order)
    solve.fact('Jacobian-override-uses-_get_functions', '_get_functions(args, kwds)' in src)
    return dict(fun_reads=sorted(set(hits)))


def run_pconc():
    from ndvc.concrete import evaluation_point_cases
    m = mods()
    cnt, bad = evaluation_point_cases(m['fd'], m['mc'].Bicomplex)
    solve.fact('evaluation-points-admissible-in-floating-point(unperturbed-coordinates-bit-identical-to-x)[%d cases]' % cnt, not bad, kind='bounded', note=str(bad[:2])[:400])
    return {}

def run_steps_positive():
    """every step produced by the real Min/MaxStepGenerator is > 0 in every element, for every real x (either sign, zero),
    default and user options (positive base_step / step_nom, ratio > 1): the `h > 0` that 'forward never below x' rests on"""
    m = mods(); sg = m['sg']
    info = dict(sequences=0)
    with installed(sg):
        for kind, cls in (('Min', sg.MinStepGenerator), ('Max', sg.MaxStepGenerator)):
            opts = [dict(), dict(base_step='sym'), dict(base_step='sym', step_ratio='sym', num_steps=4), dict(step_nom='sym'), dict(num_steps=3, offset=2),
                    dict(base_step='sym', use_exact_steps=False)]
            for oi, opt in enumerate(opts):
                for method, n, order in [('forward', 1, 2), ('backward', 2, 1), ('central', 1, 2), ('complex', 1, 2)]:
                    if oi > 1 and method not in ('forward', 'backward'):
                        continue
                    for xkind in ('scalar', 'array'):
                        CTX.reset()
                        o, hy = {}, []
                        for k, v in opt.items():
                            if v == 'sym':
                                o[k] = real('opt_' + k)
                                hy.append(o[k].t > (1 if k == 'step_ratio' else 0))
                            else:
                                o[k] = v
                        x = real('x') if xkind == 'scalar' else SymArr([real('x0'), real('x1')])
                        tag = '%s,opt%d,%s,n=%d,%s:' % (kind, oi, method, n, xkind)

                        def run():
                            g = cls(**o).step_generator_function(x, method, n, order)
                            return list(g())
                        try:
                            paths = explore(run, pre=hy, max_paths=64, forced=lambda cond: True, catch=(Exception,))
                        except NeedsConcrete as e:
                            solve.record(tag + 'runs', 'unknown', 'NeedsConcrete', 0.0, None, 'vc', reason=str(e)[:200])
                            continue
                        ok = len(paths) >= 1 and all(p.exc is None for p in paths)
                        solve.fact(tag + 'runs', ok, note=str([repr(p.exc)[:120] for p in paths if p.exc][:1]))
                        if not ok:
                            continue
                        info['sequences'] += 1
                        for pi, p in enumerate(paths):
                            solve.fact(tag + 'path%d:yields-steps' % pi, len(p.value) >= 1)
                            for k, st in enumerate(p.value if len(p.value) <= 4 else [p.value[0], p.value[len(p.value) // 2], p.value[-1]]):
                                els = asobj(st).ravel()
                                ok_real = all(not isinstance(lift(e), C) for e in els)
                                solve.fact(tag + 'path%d:step%d-real' % (pi, k), ok_real)
                                if ok_real:
                                    solve.prove(tag + 'path%d:step%d>0-in-every-element-for-every-x' % (pi, k), z3.And(*[lift(e).t > 0 for e in els]), p.hyps)
    return info


def run_group(args):
    if args[0] == 'dep':
        import importlib
        return getattr(importlib.import_module('props.' + args[1]), args[2])(*args[3], **args[4])
    if args[0] == 'pconc':
        return run_pconc()
    if args[0] == 'steps':
        return run_steps_positive()
    if args[0] == 'points':
        return run_points(args[1], args[2])
    if args[0] == 'dispatch':
        return run_dispatch(args[1])
    if args[0] == 'glue':
        return run_glue(args[1], args[2])
    if args[0] == 'frame':
        return run_frame()


def replay_case(ob):
    if ob['name'].startswith('layout[Gradient]/'):
        return dict(kind='C03.layout')
    if ob['name'].startswith('points-concrete/'):
        return dict(kind='C05.pconc')
    if ob['name'].startswith('generated-steps-positive/'):
        return dict(kind='C05.signs')
    import re
    mm = re.search(r'points\[(\w+),d=(\d+)\]/(_\w+?):', ob['name'])
    if mm:
        return dict(kind='C05.points', cls=mm.group(1), d=int(mm.group(2)), func=mm.group(3))
    mm = re.search(r'glue\[(\w+)\]/reconf\((\w+),n=(\d+),order=(\d+)\)->(\w+),n=(\d+),order=(\d+)', ob['name'])
    if mm:
        return dict(kind='C05.glue', klass=mm.group(1), method=mm.group(5), n=int(mm.group(6)), order=int(mm.group(7)),
                    other=[mm.group(2), int(mm.group(3)), int(mm.group(4))])
    mm = re.search(r'glue\[(\w+)\]/(\w+),n=(\d+),order=(\d+)', ob['name'])
    if mm:
        return dict(kind='C05.glue', klass=mm.group(1), method=mm.group(2), n=int(mm.group(3)), order=int(mm.group(4)))
    mm = re.search(r'dispatch\[(\w+)\]/(\w+):', ob['name'])
    if mm:
        model = ob.get('model') or {}
        return dict(kind='C05.dispatch', rule=mm.group(1), method=mm.group(2), n=model.get('n'), order=model.get('order'))
    return None
