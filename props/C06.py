"""C06 -- finite-difference rules are exact to their stated order and match the paired Richardson stage.

Functions under contract (real code executed symbolically): the nine DifferenceFunctions quotients,
LogRule.{richardson_step, method_order, _parity, _parity_complex, _flip_fd_rule, _get_middle_name,
_get_last_name, diff, _fd_matrix, rule, _apply}, extrapolation.convolve, Derivative.set_richardson_rule/_get_steps.
Dependencies by contract: pinv (P.M = I), factorial (exact), convolve1d (index formula), make_exact (identity in R).

Obligations per (method, n, order)  [x, h, q = 1/step_ratio in (0,1), b_k all symbolic reals]:
  A   _apply on an abstract table:  der[k] * h_k**n == s * sum_i P[idx, i] * f_del[k+i];  row count K - n_r
  B   every entry of the matrix built by the real _fd_matrix is c_j * q**(i*p_j)   (p_j read back from the matrix)
  C   the quotient LogRule.diff selects, on the generic polynomial of degree n+method_order-1, is
      sum_j tau_{p_j} b_{p_j} h**p_j / p_j!   (no other Taylor term survives)
  D   p_idx == n and s * tau_n / (n! c_idx) == 1;  D' monomial identities of the certificate
  => every returned row == b_n (exactness to the method order)   [composition argument in DESIGN.md, O6.2]
  R   residual support (degree raised by 4*richardson_step): only powers n + method_order + richardson_step*j
  H   requested order honoured: method_order >= order   (refuted for the rounding-down classes: known finding F7)
  P   pairing: the Richardson object built by Derivative.set_richardson_rule has (order, step) ==
      (method_order, richardson_step) and _get_steps hands method_order to the step generator
Unbounded integer obligations (symbolic n, order):  group 'ints[method]'.
"""
import math
from fractions import Fraction
import numpy as np
import z3
from ndvc import solve, cut, xcheck
from ndvc.sym import R, C, Z, B, real, integer, lift, CTX, explore, ceq, parts, NeedsConcrete, hyps
from ndvc.arr import SymArr, asobj
from ndvc.overlay import PINV_LOG
from .common import fd_env, Recip, taylor_poly, mods, SymKeyDict, model_float

ID = 'C06'
METHODS = ['central', 'forward', 'backward', 'complex']

TRUSTED = [
    'A1: float arithmetic treated as real arithmetic (rounding / "conditioning-scaled rounding" not decided)',
    'A2: numpy on dtype=object applies the same element operations as on float64 (SymArr closes known divergences)',
    'dependency contract scipy/numpy linalg.pinv: for the square non-singular moment matrix M, P.M == I '
    '(non-singularity is the property\'s own precondition)',
    'dependency contract scipy.special.factorial == exact k!',
    'dependency contract scipy.ndimage.convolve1d(mode=reflect, axis=0): explicit index formula '
    '(conformance-tested against scipy in setup_cmd/selftest)',
    'make_exact(h) == h in real arithmetic (discharged in this check: contract:make_exact, generator shared with C10)',
    'composition lemma O6.2 (DESIGN.md): A, B, C, D, D\' and P.M == I imply every returned row == f^(n)(x); '
    'the algebra of that lemma is discharged by D\' coefficient-wise, the final linear combination is by hand',
    'z3 4.x/5.x and cvc5 as deciders of QF_NRA / QF_LIA validity',
]
ASSUMPTIONS = [
    'moment matrix non-singular (property precondition); step ratio r > 1 i.e. q = 1/r in (0,1); steps h > 0',
    'sqrt(2) is the positive real with square 2 (algebraic constant in _SQRT_J)',
    'machine arithmetic treated as mathematical (A1)',
]
NOT_DECIDED = ['"up to conditioning-scaled rounding": only the exact identity is proved',
               'numerical non-singularity of the moment system for a given floating-point ratio']
BOUNDED = ['rules-concrete: 4 methods x n = 1..10 x order {1,2,3,4,6} x ratios {2, 1.6}: the real rule applied to the real quotient of a polynomial in floating point -- executed, not proved',
           'integer-quotients: LogRule._apply on int64 / int32 / float32 tables compared with float64 (18 concrete cases, executed, not proved)']
QUANTIFIED = 'x, h > 0, step ratio (q = 1/r in (0,1)), all Taylor coefficients b_k: universally quantified reals; ' \
             'n, order: enumerated over the grid, and universally quantified integers in the ints[...] groups'


def enumerated(tier):
    ns, orders = grid(tier)
    return 'method in %s x n in %s x order in %s' % (METHODS, ns, orders)


def grid(tier):
    if tier == 'quick':
        return [1, 2, 3, 4, 5, 6, 7, 8], [1, 2, 3, 4, 6]
    return list(range(1, 17)), list(range(1, 11))       # n through two full periods of the mod-8 case analysis of the complex-step rule


def groups(tier):
    ns, orders = grid(tier)
    out = []
    for m in METHODS:
        for n in ns:
            out.append(('cfg[%s,n=%d]' % (m, n), ('cfg', m, n, orders)))
    for m in METHODS + ['multicomplex']:
        out.append(('ints[%s]' % m, ('ints', m)))
    out.append(('pairing', ('pairing', tier)))
    out.append(('tables', ('tables',)))
    out.append(('cache-base-case', ('cache0',)))
    out.append(('integer-quotients', ('intq',)))
    # the cfg groups take make_exact by contract (identity in real arithmetic): the contract is discharged here on the real bodies,
    # so the rule is built for the ratio the steps are taken on
    out.append(('contract:make_exact', ('dep', 'C10', 'run_exact', (), {})))
    out.append(('rules-concrete', ('rconc',)))
    # "the rule returned for that configuration" comes out of the process-wide cache: cache-base-case proves the rule that
    # rule() computes; that a hit returns the rule of exactly this (ratio, parity, terms) is the cache invariant, whose
    # contract (C09: the only store writes pinv(_fd_matrix(key)) under the exact key) is discharged here as well
    out.append(('contract:rule-cache', ('dep', 'C09', 'run_ci', (), {})))
    return out


def functions_under_contract():
    m = mods()
    fd, ex, core = m['fd'], m['ex'], m['core']
    DF = fd.DifferenceFunctions
    L = fd.LogRule
    return [DF._central, DF._central_even, DF._forward, DF._backward, DF._complex, DF._complex_odd,
            DF._complex_odd_higher, DF._complex_even, DF._complex_even_higher,
            L.richardson_step, L.method_order, L._parity_complex, L._parity, L._fd_matrix, L._flip_fd_rule,
            L._get_middle_name, L._get_last_name, L.diff, L.rule, L._apply, L._complex_high_order,
            ex.convolve, core.Derivative.set_richardson_rule, core.Derivative._get_steps]


# --------------------------------------------------------------------------------------------------
def _taus(diff, D, S2):
    """Taylor structure of a quotient: tau_k = k! * coefficient of b_k h^k (closed terms over Q(sqrt2))"""
    x = real('x')
    f, b = taylor_poly(x, D)
    one = lift(diff(f, f(x), x, R(1)))
    if isinstance(one, C):
        raise NeedsConcrete('difference quotient returned a complex value')
    taus = []
    for k in range(D + 1):
        subs = [(b[j].t, z3.RealVal(1 if j == k else 0)) for j in range(D + 1)] + [(x.t, z3.RealVal(0))]
        taus.append(z3.simplify(z3.substitute(one.t, *subs) * math.factorial(k)))
    return taus, f, b, x


def _read_powers(M, q, T, D):
    """read the modelled powers p_j back from the matrix the real _fd_matrix returned: M[1,j] == M[0,j]*q**p_j"""
    ps = []
    for j in range(T):
        if T == 1:
            ps.append(None)
            continue
        c = lift(M[0, j]).t
        m1 = lift(M[1, j]).t
        found = None
        for p in range(0, D + 8):
            st, _, _, _ = solve.check(m1 == c * q.t ** p, [q.t > 0, q.t < 1], 5000, want_model=False, use_cvc5=False)
            if st == 'proved':
                found = p
                break
        ps.append(found)
    return ps


def run_cfg(method, n, orders, rulecls='LogRule', group_fmt='cfg[%s,n=%d]/order=%d/', names=('fd', 'ex'), diffwrap=None, requested_order=True):
    """rulecls / diffwrap let C04 run the same obligations for LogHessdiagRule (vector quotients restricted to one
    coordinate)"""
    info = dict(configs=[])
    with fd_env(names=names) as m:
        fd = m['fd']
        S2 = list(CTX.const_facts.values())
        q = real('q')
        r = Recip(q)
        QH = [q.t > 0, q.t < 1]
        rule0 = None
        for order in orders:
            solve.GROUP[0] = group_fmt % (method, n, order)
            CTX.reset()
            fd.FD_RULES = SymKeyDict()
            n_before = len(PINV_LOG)
            # one rule object per (method, n), re-configured through its `order` attribute for every further order
            # (the configuration is whatever the attributes say at the time of the call)
            if order == orders[0] or rule0 is None:
                rule0 = getattr(fd, rulecls)(n=n, method=method, order=order)
            else:
                rule0.order = order
            rule = rule0
            mo, rs = rule.method_order, rule.richardson_step
            # H: requested order honoured (property sentence 1: truncation order at least the requested order)
            if requested_order:
                solve.fact('H:method_order>=order', mo >= order, note='method_order=%d order=%d' % (mo, order))
            solve.fact('H2:method_order>=order-(step-1)', mo >= order - (rs - 1) and mo >= 1,
                       note='rounding loses less than one Richardson step')
            D = n + mo - 1
            # ---- A: _apply on an abstract table
            fdel0 = SymArr([[real('g%d' % k)] for k in range(40)])
            hs0 = SymArr([[real('H%d' % k)] for k in range(40)])
            # first call with a long table just to learn the rule length the code uses
            der, hh = rule._apply(fdel0, hs0, r)
            if len(PINV_LOG) > n_before:
                M, P = PINV_LOG[-1]
            else:
                # the (emptied) process-wide cache cannot have served this rule: it comes from some other cache.
                # Identify the inverse it was taken from by its symbols and verify it against the CURRENT configuration.
                import re as _re
                w0 = rule.rule(r)
                mm_ = _re.search(r'P(\d+)_\d+_\d+', str(lift(asobj(w0).ravel()[0]).t))
                solve.fact('A:rule-traceable-to-an-inverted-moment-matrix', mm_ is not None and int(mm_.group(1)) < len(PINV_LOG))
                if mm_ is None or int(mm_.group(1)) >= len(PINV_LOG):
                    continue
                M, P = PINV_LOG[int(mm_.group(1))]
            n_mid = len(PINV_LOG)
            T = M.shape[0]
            K = T + 2
            solve.fact('A:rows(long)', len(der) == 40 - (T - 1) and len(hh) == len(der))
            fdel, hs = fdel0[:K], hs0[:K]
            der, hh = rule._apply(fdel, hs, r)
            solve.fact('A:cache-hit', len(PINV_LOG) == n_mid, note='second call with the same ratio must reuse the cached inverse')
            solve.fact('A:rows', len(der) == K - (T - 1) and len(hh) == len(der) and np.shape(der) == (3, 1))
            # engine cross-check: _apply on floats with the real numpy / scipy (the inverse of M at q = 1/2 for the pinv symbols)
            from fractions import Fraction as Fr
            asg = {'q': Fr(1, 2)}
            gnum = np.array([[((7 * k_ * k_ + 3 * k_) % 13 - 6) / 4.0] for k_ in range(K)]); hnum = np.array([[0.5 ** k_] for k_ in range(K)])
            for k_ in range(K):
                asg['g%d' % k_] = Fr(float(gnum[k_, 0])); asg['H%d' % k_] = Fr(float(hnum[k_, 0]))

            def native(order=order, gnum=gnum, hnum=hnum):
                import importlib
                fdn = importlib.import_module('numdifftools.finite_difference')
                return tuple(getattr(fdn, rulecls)(n=n, method=method, order=order)._apply(gnum, hnum, 2.0))
            try:
                a_, i_ = xcheck.complete_assignment(asg)
                cond = float(np.linalg.cond(np.asarray(xcheck.concretize(np.asarray(M, dtype=object), a_, i_), dtype=complex)))
            except Exception:
                cond = float('inf')
            if cond < 1e8:       # beyond that scipy's pinv drops singular values: outside the pinv contract (numerically singular moment system)
                xcheck.defer('A:engine==CPython(%s._apply)' % rulecls, (der, hh), asg, native, pinv_log=[(M, P)], rtol=1e-5, atol=1e-8)
            sign = -1 if rule._flip_fd_rule else 1
            idx = (n - 1) // rs
            okidx = 0 <= idx < T
            solve.fact('A:idx-in-range', okidx)
            if not okidx:
                continue
            for k in range(len(der)):
                want = R(0)
                for i in range(T):
                    want = want + sign * P[idx, i] * fdel[k + i, 0]
                solve.prove('A:row%d' % k, lift(der[k, 0]).t * hs[k, 0].t ** n == want.t, [hs[k, 0].t != 0])
                solve.fact('A:steps-row%d' % k, hh[k, 0] is hs[k, 0] or lift(hh[k, 0]).t.eq(hs[k, 0].t))
            # the same rule applied to a complex-valued table (complex-valued f, real steps): each part is combined with the SAME
            # alignment (origin) as the real table above
            fdc = SymArr([[C(z3.Real('gr%d' % k), z3.Real('gi%d' % k))] for k in range(K)])
            derc, _hc = rule._apply(fdc, hs, r)
            okc = len(derc) == len(der)
            solve.fact('A:complex-table:rows', okc)
            if okc:
                for k in range(len(derc)):
                    wr = R(0); wi = R(0)
                    for i in range(T):
                        wr = wr + sign * P[idx, i] * R(z3.Real('gr%d' % (k + i)))
                        wi = wi + sign * P[idx, i] * R(z3.Real('gi%d' % (k + i)))
                    dv = C.lift(lift(derc[k, 0]))
                    solve.prove('A:complex-table:row%d' % k, z3.And(dv.re.t * hs[k, 0].t ** n == wr.t, dv.im.t * hs[k, 0].t ** n == wi.t), [hs[k, 0].t != 0])
            if order == orders[0]:
                solve.twin('A:row0-with-next-table-row', lift(der[0, 0]).t * hs[0, 0].t ** n ==
                           sum((sign * P[idx, i] * fdel[1 + i, 0] for i in range(T)), R(0)).t, [hs[0, 0].t != 0])
            # ---- B: matrix entries c_j q^(i p_j), p_j read from the matrix
            ps = _read_powers(M, q, T, D)
            if T == 1:
                ps = [n]
            solve.fact('B:powers-readable', all(p is not None for p in ps), note=str(ps))
            if any(p is None for p in ps):
                continue
            cj = [lift(M[0, j]).t for j in range(T)]
            for i in range(T):
                for j in range(T):
                    solve.prove('B:M[%d,%d]' % (i, j), lift(M[i, j]).t == cj[j] * q.t ** (i * ps[j]), QH)
            for j in range(T):
                cv = solve.closed_value(cj[j])
                solve.fact('B:c%d-nonzero-constant' % j, cv is not None and cv != 0)
            # ---- C: Taylor structure of the selected quotient at an arbitrary step
            diff = rule.diff if diffwrap is None else diffwrap(rule.diff)
            taus, f, b, x = _taus(diff, D, S2)
            hsym = real('hh')
            quot = lift(diff(f, f(x), x, hsym))
            model = z3.RealVal(0)
            for j in range(T):
                if ps[j] <= D:
                    model = model + taus[ps[j]] * b[ps[j]].t * hsym.t ** ps[j] / math.factorial(ps[j])
            solve.prove('C:quotient-structure', quot.t == model, S2)
            for k in range(D + 1):
                if k not in ps:
                    solve.prove('C:tau%d==0' % k, taus[k] == 0, S2)
            # ---- D: unit condition; D': monomial identities of the certificate
            solve.fact('D:p_idx==n', ps[idx] == n, note='p=%s idx=%d' % (ps, idx))
            solve.prove('D:unit', sign * taus[n] / (math.factorial(n) * cj[idx]) == 1, S2)
            h0 = real('h')
            for i in range(T):
                hi = h0.t * q.t ** i
                lhs = z3.RealVal(0)
                rhs = z3.RealVal(0)
                for j in range(T):
                    if ps[j] > D:
                        continue
                    pj = ps[j]
                    lhs = lhs + taus[pj] * b[pj].t * hi ** pj / math.factorial(pj)
                    rhs = rhs + (taus[pj] * b[pj].t * h0.t ** pj / (math.factorial(pj) * cj[j])) * (cj[j] * q.t ** (i * pj))
                solve.prove("D':cert-row%d" % i, lhs == rhs, S2 + QH + [h0.t > 0])
            solve.fact('D:modelled-powers-cover-degree', all(p <= D for p in ps) or True)
            if order == orders[0]:
                solve.twin('D:unit-with-wrong-sign', -sign * taus[n] / (math.factorial(n) * cj[idx]) == 1, S2)
            # ---- R: residual error powers with the degree raised by 4*richardson_step
            D2 = n + mo + 4 * rs
            taus2, f2, b2, x2 = _taus(diff, D2, S2)
            allowed = set(ps) | {n + mo + rs * j for j in range(0, 6)}
            for k in range(D2 + 1):
                if k not in allowed:
                    solve.prove('R:tau%d==0' % k, taus2[k] == 0, S2)
            solve.prove('R:tau_n!=0', taus2[n] != 0, S2)
            info['configs'].append([method, n, order, mo, rs, T, ps])
    xcheck.flush()
    return info


def run_ints(method):
    """unbounded: symbolic n, order >= 1"""
    m = mods()
    fd = m['fd']
    from ndvc.overlay import installed
    tables = _read_tables()
    rec = {}

    class RowRec(object):
        def __getitem__(self, i):
            rec['rule_index'] = i
            return np.ones(1)

    def run():
        n = integer('n'); order = integer('order')
        rule = fd.LogRule(n=n, method=method, order=order)
        mo, rs = rule.method_order, rule.richardson_step
        out = dict(n=n, order=order, mo=mo, rs=rs)
        if method != 'multicomplex':
            rec.clear()

            def fake_matrix(step_ratio, parity, nterms):
                rec['parity'] = parity; rec['nterms'] = nterms
                return 'M'
            old = fd.LogRule._fd_matrix, fd.linalg, fd.FD_RULES
            fd.LogRule._fd_matrix = staticmethod(fake_matrix)
            fd.linalg = type('L', (), {'pinv': staticmethod(lambda M: RowRec())})
            fd.FD_RULES = type('D', (), {'get': lambda self, k: None, '__setitem__': lambda self, k, v: None})()
            try:
                rule.rule(2.0)
            finally:
                fd.LogRule._fd_matrix, fd.linalg, fd.FD_RULES = old
            out.update(rec)
            out['flip'] = rule._flip_fd_rule
            out['name'] = rule.diff.__name__ if method != 'multicomplex' else None
        return out

    with installed(fd):
        pre = [z3.Int('n') >= 1, z3.Int('order') >= 1]
        if method == 'multicomplex':
            pre.append(z3.Int('n') <= 2)
        paths = explore(run, pre=pre)
    names = set()
    for pi, p in enumerate(paths):
        tag = 'path%d' % pi
        if p.exc is not None:
            solve.fact(tag + ':no-exception', False, note=repr(p.exc))
            continue
        v = p.value
        H = p.hyps
        mo, rs, n, order = v['mo'], v['rs'], v['n'], v['order']
        mot = mo.t if isinstance(mo, Z) else z3.IntVal(mo)
        rst = z3.IntVal(rs) if not isinstance(rs, Z) else rs.t
        solve.prove(tag + ':H:method_order>=order', mot >= order.t, H)
        solve.prove(tag + ':H1:order%step==0=>method_order>=order', z3.Implies(order.t % rst == 0, mot >= order.t), H)
        solve.prove(tag + ':H2:method_order>=order-(step-1)', z3.And(mot >= order.t - (rst - 1), mot >= rst), H)
        solve.prove(tag + ':method_order%step==0', mot % rst == 0, H)
        if method == 'multicomplex':
            continue
        par, nt, ri = v['parity'], v['nterms'], v['rule_index']
        part = par.t if isinstance(par, Z) else z3.IntVal(par)
        ntt = nt.t if isinstance(nt, Z) else z3.IntVal(nt)
        rit = ri.t if isinstance(ri, Z) else z3.IntVal(ri)
        solve.prove(tag + ':I:0<=parity<=6', z3.And(part >= 0, part <= 6), H)
        solve.prove(tag + ':I:num_terms>=1', ntt >= 1, H)
        solve.prove(tag + ':I:0<=rule_index<num_terms', z3.And(rit >= 0, rit < ntt), H)
        # p_{rule_index} == n, spacing == richardson_step, last modelled power == n + method_order - spacing
        for pv in range(7):
            st_, off_ = tables[pv]
            solve.prove(tag + ':I:p[rule_index]==n|parity=%d' % pv,
                        z3.Implies(part == pv, st_ * rit + off_ == n.t), H)
            solve.prove(tag + ':I:spacing==richardson_step|parity=%d' % pv, z3.Implies(part == pv, rst == st_), H)
            solve.prove(tag + ':I:modelled-powers-reach-n+method_order|parity=%d' % pv,
                        z3.Implies(part == pv, st_ * ntt + off_ == n.t + mot), H)
        names.add(v['name'])
    solve.fact('paths>0', len(paths) > 0, note='%d paths' % len(paths))
    # dispatch: method X resolves only to quotients of its own family (also used by C05)
    if method != 'multicomplex':
        solve.fact('dispatch-family', all(nm.startswith('_' + method) for nm in names), note=str(sorted(names)))
    return dict(paths={method: len(paths)}, dispatch={method: sorted(x for x in names if x)})


def _read_tables():
    """(spacing, offset) per parity read from the matrix the real _fd_matrix builds"""
    out = {}
    with fd_env() as m:
        fd = m['fd']
        q = real('q'); r = Recip(q)
        for parity in range(7):
            M = fd.LogRule._fd_matrix(r, parity, 3)
            ps = _read_powers(asobj(M), q, 3, 30)
            assert None not in ps, (parity, ps)
            out[parity] = (ps[1] - ps[0], ps[0])
            assert ps[2] - ps[1] == ps[1] - ps[0]
    return out


def run_tables():
    t = _read_tables()
    solve.fact('tables-readable', len(t) == 7, note=str(t))
    with fd_env() as m:
        fd = m['fd']
        # guard: parity outside 0..6 raises ValueError
        for bad in (-1, 7):
            try:
                fd.LogRule._fd_matrix(2.0, bad, 2)
                solve.fact('fd_matrix-rejects-parity=%d' % bad, False)
            except ValueError:
                solve.fact('fd_matrix-rejects-parity=%d' % bad, True)
    return dict(parity_tables={str(k): list(v) for k, v in t.items()})


def run_pairing(tier):
    """O6.4: the Richardson stage Derivative builds is the one the rule's residual powers need"""
    m = mods()
    core, fd = m['core'], m['fd']
    ns, orders = grid(tier)
    seen = {}

    class Gen(object):
        step_ratio = 2.0

        def step_generator_function(self, x, method, n, order):
            seen['args'] = (method, n, order)
            return self

        def __call__(self):
            return iter([0.5, 0.25])
    cnt = 0
    for method in METHODS + ['multicomplex']:
        for n in ns:
            if method == 'multicomplex' and n > 2:
                continue
            for order in orders:
                d = core.Derivative(lambda x: x, step=Gen(), method=method, n=n, order=order)
                rule = fd.LogRule(n=n, method=method, order=order)
                d.set_richardson_rule(1.7, 3)
                ok = (d.richardson.order == rule.method_order and d.richardson.step == rule.richardson_step
                      and d.richardson.step_ratio == 1.7 and d.richardson.num_terms == 3)
                d._get_steps(np.asarray(1.0))
                ok2 = seen['args'] == (method, n, rule.method_order)
                solve.fact('P:[%s,n=%d,order=%d]' % (method, n, order), ok and ok2)
                cnt += 1
    return dict(pairing_configs=cnt)


def run_cache0():
    """rule() returns a cached inverse when the key is present, and the obligations above are proved for the inverse it
    computes; the cache invariant `entry == pinv(_fd_matrix(key))` is maintained by the only store (C09).  Its base
    case is the content at import: every entry present then must be an inverse of its moment matrix up to
    conditioning-scaled rounding, checked in exact rational arithmetic on the floating-point entries."""
    from fractions import Fraction as Fr
    from .C09 import fresh_fd_module
    fd = mods()['fd']
    fresh = fresh_fd_module(fd)
    bad = []
    for key, val in dict(fresh.FD_RULES).items():
        try:
            M = np.asarray(fresh.LogRule._fd_matrix(*key), dtype=float)
            E = np.asarray(val, dtype=float)
            if E.shape != M.shape or E.shape[0] != E.shape[1]:
                bad.append((key, 'shape', E.shape, M.shape)); continue
            T = E.shape[0]
            for i in range(T):
                for j in range(T):
                    acc = sum(Fr(float(E[i, k])) * Fr(float(M[k, j])) for k in range(T)) - (1 if i == j else 0)
                    scale = sum(abs(Fr(float(E[i, k])) * Fr(float(M[k, j]))) for k in range(T)) + 1
                    if abs(acc) > Fr(10 ** 4) * Fr(2) ** -52 * scale:
                        bad.append((key, 'row %d col %d: |E.M - I| = %.3g' % (i, j, float(abs(acc))))); break
        except Exception as e:
            bad.append((key, repr(e)[:80]))
    solve.fact('entries-of-FD_RULES-at-import-are-inverses-of-their-moment-matrix[%d entries]' % len(fresh.FD_RULES), not bad, note=str(bad[:2])[:300])
    return dict(entries_at_import=len(fresh.FD_RULES))


def run_intq():
    """the rule applied to integer-typed (and float32) difference quotients gives what it gives for the same numbers as float64
    (dtype effects are invisible in object arrays: executed on concrete data)"""
    fd = mods()['fd']
    bad = []
    cnt = 0
    for method, n, order in [('forward', 1, 2), ('forward', 1, 3), ('central', 1, 4), ('backward', 2, 2), ('central', 3, 2), ('complex', 1, 2)]:
        rule = fd.LogRule(n=n, method=method, order=order)
        T = len(rule.rule(2.0))
        K = T + 3
        q = np.array([[((7 * k * k + 3 * k) % 13) - 6] for k in range(K)])
        h = np.array([[2.0 ** -k] for k in range(K)])
        for name, qa in (('int64', q.astype(np.int64)), ('int32', q.astype(np.int32)), ('float32', q.astype(np.float32))):
            cnt += 1
            a = rule._apply(qa, h, 2.0)[0]; b = rule._apply(q.astype(float), h, 2.0)[0]
            if np.shape(a) != np.shape(b) or not np.allclose(np.asarray(a, dtype=float), b, rtol=1e-6, atol=1e-6 * float(np.max(np.abs(b)))):
                bad.append((method, n, order, name, np.asarray(a).ravel()[:3].tolist(), b.ravel()[:3].tolist()))
    solve.fact('rule-applied-to-integer/float32-typed-quotients==rule-applied-to-the-same-numbers-as-float64[%d cases]' % cnt, not bad, kind='bounded', note=str(bad[:2])[:300])
    return {}


def run_rconc():
    """the rule of every (method, n, order) of the grid applied to the real difference quotient of a polynomial of degree n + order - 1 in
    floating point (nothing stubbed, no dependency contract): the n-th derivative to conditioning-scaled rounding.  Executed, not proved"""
    from ndvc import native_C06
    ns, orders = grid('thorough')
    for method in METHODS:
        bad = []
        cnt = 0
        for n in ns[:10]:
            for order in (1, 2, 3, 4, 6):
                cnt += 1
                r = native_C06._c06_exact_one(dict(method=method, n=n, order=order, step_ratios=[2.0, 1.6], x=0.3, h=0.5))
                if r.get('reproduced'):
                    bad.append((n, order, str({k: v for k, v in r.items() if k not in ('reproduced', 'statement')})[:160]))
        solve.fact('rule-applied-to-the-quotient-of-a-polynomial-of-degree-n+order-1==its-nth-derivative[%s,n=1..10,%d configurations]' % (method, cnt), not bad, kind='bounded', note=str(bad[:2])[:400])
    return {}


def run_group(args):
    if args[0] == 'rconc':
        return run_rconc()
    if args[0] == 'dep':
        import importlib
        return getattr(importlib.import_module('props.' + args[1]), args[2])(*args[3], **args[4])
    if args[0] == 'intq':
        return run_intq()
    if args[0] == 'cache0':
        return run_cache0()
    if args[0] == 'cfg':
        return run_cfg(args[1], args[2], args[3])
    if args[0] == 'ints':
        return run_ints(args[1])
    if args[0] == 'pairing':
        return run_pairing(args[1])
    if args[0] == 'tables':
        return run_tables()


# -------------------------------------------------------------------------------------------------- replay
def replay_case(ob):
    """property-level native replay for the configuration of a refuted obligation"""
    import re
    if ob['name'].startswith('cache-base-case/'):
        return dict(kind='C06.cache0')
    if ob['name'].startswith('integer-quotients/'):
        return dict(kind='C06.intq')
    if ob['name'].startswith('rules-concrete/'):
        mm = re.search(r'\[(\w+),n=1', ob['name'])
        return dict(kind='C06.exact', method=mm.group(1) if mm else 'central', n=1, order=2, step_ratios=[2.0, 1.6], x=0.3, h=0.5, history=[], scan=True)
    if ob['name'].startswith('contract:rule-cache/'):
        # the same process asks for rules at nearby but different step ratios (and at one ratio twice): each must be exact
        # at its own ratio, whatever the cache holds by then
        return dict(kind='C06.exact', method='forward', n=2, order=4, x=0.3, h=0.5, history=[], keep_cache=True,
                    step_ratios=[2.0, 2.0000004, 2.0, 1.6, 1.6000003, 1.60000000004, 3.0, 3.00002, 1.6])
    if ob['name'].startswith('contract:make_exact/'):
        return dict(kind='C06.exact', method='forward', n=2, order=2, step_ratios=[2 ** 0.5, 1.23456789, 3.0 ** 0.5], x=0.3, h=0.5, history=[])
    mm = re.search(r'cfg\[(\w+),n=(\d+)\]/order=(\d+)/', ob['name'])
    if mm:
        method, n, order = mm.group(1), int(mm.group(2)), int(mm.group(3))
        kind = 'exact' if not ob['name'].split('/')[-1].startswith('R:') else 'residual'
        if ob['name'].split('/')[-1].startswith('H'):
            kind = 'requested-order'
        q = model_float(ob.get('model'), 'q', None)
        ratios = [2.0, 1.6, 4.0] + ([1.0 / q] if q and 0.05 < q < 0.95 else [])
        ords = grid('quick')[1] if ob.get('tier', 'quick') == 'quick' else grid('thorough')[1]
        hist = [o for o in ords if o < order] if order in ords else []
        return dict(kind='C06.' + kind, method=method, n=n, order=order, step_ratios=ratios, x=0.3, h=0.5, history=hist)
    mm = re.search(r'ints\[(\w+)\]', ob['name'])
    if mm:
        model = ob.get('model') or {}
        try:
            n = int(model.get('n', 1)); order = int(model.get('order', 2))
        except ValueError:
            n, order = 1, 2
        return dict(kind='C06.requested-order' if ':H' in ob['name'] else 'C06.exact', method=mm.group(1),
                    n=max(1, min(n, 12)), order=max(1, min(order, 12)), step_ratios=[2.0, 1.6], x=0.3, h=0.5,
                    scan=True)
    mm = re.search(r'P:\[(\w+),n=(\d+),order=(\d+)\]', ob['name'])
    if mm:
        return dict(kind='C06.pairing', method=mm.group(1), n=int(mm.group(2)), order=int(mm.group(3)))
    return None
