"""C07 -- Richardson extrapolation removes exactly the modelled error terms.

Real code executed symbolically: Richardson.{_r_matrix, rule, __call__, extrapolate, _estimate_error}, extrapolation.convolve,
max_abs.  Dependencies by contract: pinv (fresh P with P.M == I; default cut-off only), convolve1d (index formula).
Step ratio symbolic: real r = 1/q with q in (0,1), and complex r = 1/(qre + i qim) with 0 < |q| < 1.

  M   the matrix built by the real _r_matrix is [1 | q^(i*(order+step*j))]           (every entry)
  W   rule(k) returns row 0 of pinv(that matrix), pinv called with its default cut-off;
      hence (P.M == I) sum_i w_i == 1 and sum_i w_i q^(i p_j) == 0                     (weight identities)
  S   __call__: new[k] == sum_i w_i seq[k+i] for every output row (orientation, origin, trimming), number of rows
      == len - terms_used, terms_used == min(num_terms, len-1), steps[:m] returned unchanged
  L   for seq_k = L + sum_j a_j h_k^(order+step j), h_k = h q^k: every output row == L (linear-combination
      certificate checked as a polynomial identity)
  E   _estimate_error >= 0 (and real) on its three branches, for arbitrary tables, arbitrary real or complex steps
  I   columns of a 2-d sequence are treated independently (free symbols of column c outputs are column c's)
"""
import itertools
import math
from fractions import Fraction
import numpy as np
import z3
from ndvc import solve, xcheck
from ndvc.sym import R, C, real, cplx, lift, CTX, explore, NeedsConcrete, ceq, parts
from ndvc.arr import SymArr, asobj
from ndvc.overlay import installed, PINV_LOG, PINV_ARGS
from .common import mods, Recip, model_float

ID = 'C07'
TRUSTED = ['A1 float == real; A2 object arrays == float arrays',
           'dependency contract scipy.linalg.pinv (default cut-off) on the square non-singular matrix M: P.M == I',
           'dependency contract scipy.ndimage.convolve1d(mode=reflect, axis=0): index formula (conformance-tested)',
           'sqrt(v) >= 0 and sqrt(v)^2 == v for v >= 0 (modulus of complex numbers, covariance factor)',
           'z3 / cvc5 as deciders']
ASSUMPTIONS = ['step ratio real > 1 or complex with modulus > 1 (q = 1/r with 0 < |q| < 1); matrix non-singular',
               'sequence entries finite reals / complex numbers (no NaN)']
NOT_DECIDED = ['"up to conditioning-scaled rounding"']
BOUNDED = ['integer-config: integer-typed step_ratio/step/order compared with the float configuration on 6 concrete configurations (executed with the real numpy, not proved)']
QUANTIFIED = 'L, a_j, h, q (real) or (qre, qim) (complex), all table entries in the error-estimate obligations: ' \
             'universally quantified; step, order, num_terms, sequence length enumerated over the property\'s ranges'


def grid(tier):
    if tier == 'quick':
        return dict(steps=[1, 2, 4], orders=[1, 2, 3, 4], nts=[0, 1, 2, 3, 5], lens='short')
    return dict(steps=[1, 2, 3, 4], orders=list(range(1, 9)), nts=[0, 1, 2, 3, 4, 5], lens='full')


def enumerated(tier):
    g = grid(tier)
    return 'ratio kind {real, complex} x step %s x order %s x num_terms %s x length %s; 1 and 2 columns' % (
        g['steps'], g['orders'], g['nts'], '1..terms+3' if g['lens'] == 'short' else '1..20')


def groups(tier):
    g = grid(tier)
    out = []
    for kind in ('real', 'complex'):
        for step in g['steps']:
            for nt in g['nts']:
                out.append(('rich[%s,step=%d,terms=%d]' % (kind, step, nt), ('rich', kind, step, nt, g['orders'], g['lens'])))
    for sk in ('real', 'complex'):
        for mm in [(1, 1), (1, 2), (1, 3), (1, 4), (2, 3), (3, 4), (3, 5), (2, 2), (4, 6)]:
            out.append(('errest[%s-steps,m=%d,m_old=%d]' % (sk, mm[0], mm[1]), ('errest', sk, mm)))
    out.append(('columns', ('columns',)))
    out.append(('reconfigure', ('reconf',)))
    out.append(('integer-config', ('intcfg',)))
    return out


def functions_under_contract():
    ex = mods()['ex']
    Rc = ex.Richardson
    return [Rc._r_matrix, Rc.rule, Rc._estimate_error, Rc.extrapolate, Rc.__call__, ex.convolve, ex.max_abs]


class RecipC(C):
    """complex step ratio r = 1/qq"""
    __slots__ = ('base',)

    def __init__(self, qq):
        d = qq.re * qq.re + qq.im * qq.im
        C.__init__(self, qq.re / d, -qq.im / d)
        self.base = qq

    def __rtruediv__(self, o):
        if isinstance(o, np.ndarray):
            return NotImplemented
        if isinstance(o, (int, float)) and o == 1:
            return self.base
        return C.lift(o) * self.base

    def __pow__(self, k):
        if isinstance(k, np.ndarray):
            return NotImplemented
        if isinstance(k, (int, np.integer)) and k <= 0:
            return self.base ** (-int(k))
        return C.__pow__(self, k)


def zero(v):
    v = lift(v)
    if isinstance(v, C):
        return z3.And(v.re.t == 0, v.im.t == 0)
    return v.t == 0


def same_term(a, b, cheap=True):
    pa, pb = parts(a), parts(b)
    if len(pa) != len(pb):
        pa, pb = parts(C.lift(lift(a))), parts(C.lift(lift(b)))
    if all(x.eq(y) for x, y in zip(pa, pb)):
        return True
    if not cheap:
        return False
    return all(z3.simplify(x).eq(z3.simplify(y)) for x, y in zip(pa, pb))


def equal(name, a, b, hyps=(), cheap=True):
    """a == b: structurally identical terms are accepted without a solver call (kind exec); otherwise the
    polynomial identity a - b == 0 is discharged by the solver (only attempted when `cheap`)"""
    if same_term(a, b, cheap):
        return solve.fact(name, True, note='structurally identical terms')
    if not cheap:
        return solve.record(name, 'unknown', 'skipped: too large', 0.0, None, 'vc')
    return polyzero(name, lift(a) - lift(b), hyps)


def polyzero(name, v, hyps=()):
    """v == 0 as polynomial identity (both components for complex)"""
    v = lift(v)
    ts = [v.re.t, v.im.t] if isinstance(v, C) else [v.t]
    g = z3.And(*[z3.simplify(t, som=True, som_blowup=10000000) == 0 for t in ts])
    return solve.prove(name, g, hyps)


def ratio(kind):
    if kind == 'real':
        q = real('q')
        return Recip(q), q, [q.t > 0, q.t < 1]
    qq = cplx('q')
    m2 = (qq.re * qq.re + qq.im * qq.im).t
    return RecipC(qq), qq, [m2 > 0, m2 < 1]


def run_rich(kind, step, nt, orders, lens):
    ex = mods()['ex']
    info = dict(configs=0)
    with installed(ex):
        for order in orders:
            CTX.reset()
            r, qq, pre = ratio(kind)
            Ks = list(range(1, nt + 4)) if lens == 'short' else list(range(1, 21))
            for K in Ks:
                solve.GROUP[0] = 'rich[%s,step=%d,terms=%d]/order=%d,len=%d/' % (kind, step, nt, order, K)
                del PINV_LOG[:]
                del PINV_ARGS[:]
                Rch = ex.Richardson(step_ratio=r, step=step, order=order, num_terms=nt)
                Lim = real('L') if kind == 'real' else cplx('L')
                a = [real('a%d' % j) if kind == 'real' else cplx('a%d' % j) for j in range(nt)]
                h = real('h')
                hk = [h * qq ** k for k in range(K)]
                seq = SymArr([[Lim + sum((a[j] * hk[k] ** (order + step * j) for j in range(nt)), R(0))] for k in range(K)])
                # structural part on an abstract table
                tab = SymArr([[real('s%d' % k) if kind == 'real' else cplx('s%d' % k)] for k in range(K)])
                steps = SymArr([[hk[k]] for k in range(K)])
                new, err, st = Rch(tab, steps)
                T = min(nt, K - 1)
                solve.fact('S:terms_used==min(num_terms,len-1)', (len(PINV_LOG) == (1 if T > 0 else 0)) and
                           (T == 0 or PINV_LOG[-1][0].shape == (T + 1, T + 1)))
                solve.fact('S:rows==len-terms_used', new.shape == (K - T, 1) and st.shape == (K - T, 1) and err.shape == (K - T, 1),
                           note=str(new.shape))
                solve.fact('S:steps[:m]-returned-unchanged', all(lift(st[k, 0]) is lift(steps[k, 0]) or
                                                                 z3.And(*[x == y for x, y in zip(parts(st[k, 0]), parts(steps[k, 0]))]) is not None
                                                                 and all(x.eq(y) for x, y in zip(parts(st[k, 0]), parts(steps[k, 0])))
                                                                 for k in range(K - T)))
                if new.shape != (K - T, 1):
                    continue
                if T > 0:
                    solve.fact('W:pinv-called-with-default-cut-off', all(a_ == () and k_ == {} for a_, k_ in PINV_ARGS),
                               note=str(PINV_ARGS)[:200])
                    M, P = PINV_LOG[-1]
                    small = kind == 'real' or (K + T) * (order + step * max(nt - 1, 0)) <= 16
                    if K == Ks[-1] or K == T + 1:
                        for i in range(T + 1):
                            equal('M:[%d,0]==1' % i, M[i, 0], R(1), pre)
                            for j in range(T):
                                equal('M:[%d,%d]==q^(i*(order+step*j))' % (i, j + 1),
                                      M[i, j + 1], qq ** (i * (step * j + order)), pre, cheap=small)
                    w = Rch.rule(K)
                    solve.fact('W:rule-is-row-0-of-the-inverse', len(w) == T + 1 and
                               all(all(x.eq(y) for x, y in zip(parts(w[i]), parts(PINV_LOG[-1][1][0, i]))) for i in range(T + 1)))
                    M2, P2 = PINV_LOG[-1]
                    Ps = [P[0, i] for i in range(T + 1)]
                    # weight identities from row 0 of P.M == I
                    hyp = []
                    for j in range(T + 1):
                        lhs = sum((Ps[i] * M[i, j] for i in range(T + 1)), R(0))
                        hyp.append(ceq(lhs, 1 if j == 0 else 0))
                    if K == T + 1:
                        # weight identities: row 0 of P.M == I instantiated with the spec layout of M (proved above
                        # entry by entry).  When the instantiated left-hand side is the hypothesis term itself the
                        # identity holds by the pinv contract alone; otherwise the solver is asked.
                        for j in range(T + 1):
                            pj = None if j == 0 else order + step * (j - 1)
                            spec = [R(1) if j == 0 else qq ** (i * pj) for i in range(T + 1)]
                            lhs_spec = sum((Ps[i] * spec[i] for i in range(T + 1)), R(0))
                            lhs_hyp = sum((Ps[i] * M[i, j] for i in range(T + 1)), R(0))
                            nm = 'W:sum(w)==1' if j == 0 else 'W:sum(w_i*q^(i*%d))==0' % pj
                            if same_term(lhs_spec, lhs_hyp, cheap=small):
                                solve.fact(nm, True, note='instance of row 0 of P.M == I (pinv contract)')
                            elif small:
                                solve.prove(nm, ceq(lhs_spec, 1 if j == 0 else 0), pre + hyp)
                            else:
                                solve.record(nm, 'unknown', 'skipped: too large', 0.0, None, 'vc')
                    for k in range(K - T):
                        want = sum((Ps[i] * tab[k + i, 0] for i in range(T + 1)), R(0))
                        polyzero('S:new[%d]==sum_i w_i*seq[%d+i]' % (k, k), new[k, 0] - want, pre)
                    # L: limit recovered -- certificate: new[k] - L == sum_j lam_j * hyp_j with
                    # lam_0 = L, lam_{j+1} = a_j h^p_j q^(k p_j); checked as a polynomial identity
                    for k in range(K - T):
                        val = sum((Ps[i] * seq[k + i, 0] for i in range(T + 1)), R(0))
                        cert = Lim * (sum((Ps[i] * (qq ** 0) for i in range(T + 1)), R(0)) - 1)
                        for j in range(nt):
                            pj = order + step * j
                            mom = sum((Ps[i] * qq ** (i * pj) for i in range(T + 1)), R(0))
                            if j < T:
                                cert = cert + a[j] * h ** pj * qq ** (k * pj) * mom
                        if T == nt and small:
                            polyzero('L:row%d==L(certificate)' % k, val - Lim - cert, pre)
                else:
                    for k in range(K):
                        polyzero('S:no-terms:new[%d]==seq[%d]' % (k, k), new[k, 0] - tab[k, 0], pre)
                if K in (Ks[-1], T + 1) and (kind == 'real' or order <= 2):
                    # engine cross-check at a concrete point (exact inverse of M for the symbols of the pinv contract)
                    from fractions import Fraction as Fr
                    asg = {'q': Fr(1, 2), 'q.re': Fr(2, 5), 'q.im': Fr(-3, 10), 'h': Fr(1, 2)}
                    for k_ in range(K):
                        asg['s%d' % k_] = Fr(3 * k_ * k_ - 7 * k_ + 2, 5); asg['s%d.re' % k_] = Fr(3 * k_ * k_ - 7 * k_ + 2, 5); asg['s%d.im' % k_] = Fr(k_ - 2, 3)
                    rq = 1.0 / (0.5 if kind == 'real' else complex(0.4, -0.3))
                    tnum = np.array([[float(asg['s%d' % k_]) if kind == 'real' else complex(float(asg['s%d.re' % k_]), float(asg['s%d.im' % k_]))] for k_ in range(K)])
                    hnum = np.array([[0.5 * (1.0 / rq) ** k_] for k_ in range(K)])

                    def native(rq=rq, step=step, order=order, nt=nt, tnum=tnum, hnum=hnum):
                        return tuple(ex.Richardson(step_ratio=rq, step=step, order=order, num_terms=nt)(tnum, hnum))
                    try:
                        a_, i_ = xcheck.complete_assignment(asg)
                        cond = float(np.linalg.cond(np.asarray(xcheck.concretize(np.asarray(PINV_LOG[0][0], dtype=object), a_, i_), dtype=complex))) if PINV_LOG else 1.0
                    except Exception:
                        cond = float('inf')
                    if cond < 1e8:      # beyond that scipy's pinv drops singular values (outside the pinv contract)
                      xcheck.defer('engine==CPython(Richardson.__call__)', (new, err, st), asg, native, pinv_log=list(PINV_LOG)[:1],
                                 rtol=1e-7 if (order + step * max(nt - 1, 0)) * T <= 12 else 1e-3, atol=1e-9)   # scipy's pinv cuts small singular values of ill-conditioned M
                if order == orders[0] and K == Ks[-1] and T > 0:
                    solve.twin('S:new[0]==seq[0]', zero(new[0, 0] - tab[0, 0]), pre)
                info['configs'] += 1
    xcheck.flush()
    return info


def run_errest(stepkind_, mm_):
    """abserr >= 0 and real on the three branches of _estimate_error, arbitrary tables, arbitrary steps"""
    ex = mods()['ex']
    info = {}
    with installed(ex):
        for stepkind in (stepkind_,):
            for (m, m_old) in [mm_]:
                CTX.reset()
                tag = '%s-steps,m=%d,m_old=%d' % (stepkind, m, m_old)
                for datakind in ('real', 'complex'):
                    mk = (lambda nm: real(nm)) if datakind == 'real' else (lambda nm: cplx(nm))
                    new = SymArr([[mk('n%d' % k)] for k in range(m)])
                    old = SymArr([[mk('o%d' % k)] for k in range(m_old)])
                    steps = SymArr([[real('h%d' % k) if stepkind == 'real' else cplx('h%d' % k)] for k in range(m_old)])
                    nr = m_old - m + 1 if m_old - m + 1 >= 1 else 1
                    rule = SymArr([mk('w%d' % i) for i in range(max(nr, 1))])
                    try:
                        paths = explore(lambda: ex.Richardson._estimate_error(new, old, steps, rule))
                    except NeedsConcrete:
                        raise
                    t2 = tag + ',%s-data' % datakind
                    solve.fact('E:%s:no-exception' % t2, all(p.exc is None for p in paths), note=str([repr(p.exc) for p in paths if p.exc][:1]))
                    for pi, p in enumerate(paths):
                        if p.exc is not None:
                            continue
                        ab = asobj(p.value)
                        for k, v in enumerate(ab.ravel()):
                            v = lift(v)
                            if isinstance(v, C):
                                solve.prove('E:%s:path%d:abserr[%d]-real' % (t2, pi, k), v.im.t == 0, p.hyps)
                                vt = v.re.t
                            else:
                                vt = v.t
                            solve.prove_lin('E:%s:path%d:abserr[%d]>=0' % (t2, pi, k), vt >= 0, p.hyps)
    return info


def _free(t):
    out = set(); seen = set()

    def go(e):
        if e.get_id() in seen:
            return
        seen.add(e.get_id())
        if z3.is_const(e) and e.decl().kind() == z3.Z3_OP_UNINTERPRETED:
            out.add(str(e))
        for ch in e.children():
            go(ch)
    go(t)
    return out


def run_columns():
    ex = mods()['ex']
    with installed(ex):
        for (K, nt) in [(4, 2), (6, 2), (3, 1), (2, 2), (1, 2)]:
            CTX.reset()
            del PINV_LOG[:]
            q = real('q'); r = Recip(q)
            Rch = ex.Richardson(step_ratio=r, step=1, order=1, num_terms=nt)
            tab = SymArr([[real('s%d_c0' % k), real('s%d_c1' % k), real('s%d_c2' % k)] for k in range(K)])
            steps = SymArr([[real('h%d_c0' % k), real('h%d_c1' % k), real('h%d_c2' % k)] for k in range(K)])
            paths = explore(lambda: Rch(tab, steps))
            solve.fact('I:len=%d,terms=%d:no-exception' % (K, nt), all(p.exc is None for p in paths))
            for pi, p in enumerate(paths):
                if p.exc is not None:
                    continue
                new, err, st = p.value
                for c in range(3):
                    fv = set()
                    for arr in (new, err, st):
                        for v in asobj(arr)[:, c]:
                            for t in parts(v):
                                fv |= _free(t)
                    foreign = {s for s in fv if ('_c' in s and not s.endswith('_c%d' % c))}
                    solve.fact('I:len=%d,terms=%d:path%d:column%d-independent-of-other-columns' % (K, nt, pi, c),
                               not foreign, note=str(sorted(foreign))[:200])
            # and a column of the 3-column run equals the 1-column run on that column
            one = explore(lambda: Rch(tab[:, 1:2], steps[:, 1:2]))
            if len(paths) == 1 and len(one) == 1 and paths[0].exc is None and one[0].exc is None:
                n3, e3, s3 = paths[0].value
                n1, e1, s1 = one[0].value
                solve.fact('I:len=%d,terms=%d:column-run==single-column-run(shape)' % (K, nt), n1.shape[0] == n3.shape[0])
                # the inverse symbols differ between the two runs: rename P1 -> P0
                for k in range(n1.shape[0]):
                    a_, b_ = lift(n3[k, 1]).t, lift(n1[k, 0]).t
                    sub = [(z3.Real('P1_%d_%d' % (i, j)), z3.Real('P0_%d_%d' % (i, j))) for i in range(nt + 1) for j in range(nt + 1)]
                    solve.prove('I:len=%d,terms=%d:row%d:column-run==single-column-run' % (K, nt, k),
                                a_ == z3.substitute(b_, *sub), [])
            # a complex table whose first column happens to be real-valued: the other columns keep their imaginary parts
            # (each output is the same weighted sum of its own column, real and imaginary part alike)
            ctab = SymArr([[real('s%d_c0' % k), cplx('z%d_c1' % k), cplx('z%d_c2' % k)] for k in range(K)])
            cpaths = explore(lambda: Rch(ctab, steps))
            okc = len(cpaths) == 1 and cpaths[0].exc is None and len(paths) == 1 and paths[0].exc is None
            solve.fact('I:len=%d,terms=%d:complex-table-with-real-first-column:single-path' % (K, nt), okc, note=str([repr(p.exc)[:100] for p in cpaths if p.exc][:1]))
            if okc:
                T_ = min(nt, K - 1)
                newc = cpaths[0].value[0]
                Pc = PINV_LOG[-1][1] if PINV_LOG else None
                for c in (1, 2):
                    for k in range(asobj(newc).shape[0]):
                        if Pc is None or T_ == 0:
                            want = C.lift(lift(ctab[k, c]))
                        else:
                            want = sum((C.lift(lift(Pc[0, i])) * C.lift(lift(ctab[k + i, c])) for i in range(T_ + 1)), C.lift(R(0)))
                        got = C.lift(lift(newc[k, c]))
                        polyzero('I:len=%d,terms=%d:complex-column%d:row%d==sum_i w_i*column[%d+i](real and imaginary part)' % (K, nt, c, k, k), got - want, [])
    return {}


def run_reconf():
    """step_ratio, step, order and num_terms are public attributes: after they are changed on ONE object the next rule /
    call uses the matrix of the new configuration (no state of the old one survives)"""
    ex = mods()['ex']
    with installed(ex):
        CTX.reset()
        qa, qb = real('qa'), real('qb')
        pre = [qa.t > 0, qa.t < 1, qb.t > 0, qb.t < 1]
        cfgs = [(Recip(qa), qa, 1, 1, 2), (Recip(qb), qb, 1, 1, 2), (Recip(qb), qb, 2, 2, 2), (Recip(qa), qa, 2, 2, 3),
                (Recip(qa), qa, 1, 3, 3), (Recip(qb), qb, 1, 3, 1), (Recip(qa), qa, 1, 1, 2)]
        Rch = ex.Richardson(step_ratio=cfgs[0][0], step=cfgs[0][2], order=cfgs[0][3], num_terms=cfgs[0][4])
        for ci, (r, q, step, order, nt) in enumerate(cfgs):
            Rch.step_ratio, Rch.step, Rch.order, Rch.num_terms = r, step, order, nt
            for K in (2, nt + 1, nt + 3, 2):        # a short sequence first: handling it with fewer terms must not change the object
                T = min(nt, K - 1)
                tag = 'config%d(step=%d,order=%d,terms=%d),len=%d:' % (ci, step, order, nt, K)
                for use in ('rule', 'call'):
                    del PINV_LOG[:]
                    if use == 'rule':
                        w = Rch.rule(K)
                    else:
                        tab = SymArr([[real('s%d' % k)] for k in range(K)])
                        steps = SymArr([[real('h%d' % k)] for k in range(K)])
                        new, err, st = Rch(tab, steps)
                    solve.fact(tag + use + ':configuration-unchanged-by-the-%s' % use, (Rch.step, Rch.order, Rch.num_terms) == (step, order, nt) and Rch.step_ratio is r,
                               note=str((Rch.step, Rch.order, Rch.num_terms)))
                    solve.fact(tag + use + ':matrix-rebuilt-and-inverted', len(PINV_LOG) >= 1, note=str(len(PINV_LOG)))
                    if not PINV_LOG:
                        continue
                    M, P = PINV_LOG[-1]
                    solve.fact(tag + use + ':matrix-shape', M.shape == (T + 1, T + 1), note=str(M.shape))
                    if M.shape != (T + 1, T + 1):
                        continue
                    for i in range(T + 1):
                        equal(tag + use + ':M[%d,0]==1' % i, M[i, 0], R(1), pre)
                        for j in range(T):
                            equal(tag + use + ':M[%d,%d]==q^(i*(order+step*j))' % (i, j + 1), M[i, j + 1], q ** (i * (step * j + order)), pre)
                    if use == 'rule':
                        solve.fact(tag + 'rule-is-row-0-of-this-inverse', len(w) == T + 1 and
                                   all(all(x.eq(y) for x, y in zip(parts(w[i]), parts(P[0, i]))) for i in range(T + 1)))
                    else:
                        for k in range(K - T):
                            want = sum((P[0, i] * tab[k + i, 0] for i in range(T + 1)), R(0))
                            polyzero(tag + 'new[%d]==sum_i w_i*seq[%d+i]' % (k, k), new[k, 0] - want, pre)
    return {}


INT_CFGS = [(2, 1, 1, 2), (3, 2, 2, 3), (4, 1, 2, 1), (2, 2, 1, 4), (np.int64(2), np.int64(1), np.int64(1), 2), (np.int32(3), 1, 1, 2)]


def run_intcfg():
    from .common import defaults_facts
    defaults_facts(['extrapolation.Richardson.__init__'])
    """integer-typed step_ratio / step / order: the matrix (and hence the rule) is the one of the same numbers given as
    floats.  Executed on concrete data with the real numpy (dtype truncation is invisible in object arrays)."""
    ex = mods()['ex']
    bad = []
    for (ratio, step, order, nt) in INT_CFGS:
        a = ex.Richardson._r_matrix(ratio, step, nt, order)
        b = ex.Richardson._r_matrix(float(ratio), float(step), nt, float(order))
        want = np.array([[1.0] + [(1.0 / float(ratio)) ** (i * (float(step) * j + float(order))) for j in range(nt)] for i in range(nt + 1)])
        if a.shape != b.shape or not np.array_equal(np.asarray(a, dtype=float), b) or not np.allclose(b, want, rtol=1e-13, atol=0):
            bad.append(('r_matrix', str((ratio, step, order, nt)), np.asarray(a).tolist()))
        wa = ex.Richardson(step_ratio=ratio, step=step, order=order, num_terms=nt).rule()
        wb = ex.Richardson(step_ratio=float(ratio), step=float(step), order=float(order), num_terms=nt).rule()
        if not np.array_equal(np.asarray(wa, dtype=float), np.asarray(wb, dtype=float)):
            bad.append(('rule', str((ratio, step, order, nt)), np.asarray(wa).tolist(), np.asarray(wb).tolist()))
    solve.fact('integer-typed-configuration-gives-the-float-matrix-and-rule[%d configs]' % len(INT_CFGS), not bad, kind='bounded', note=str(bad[:2])[:300])
    return {}


def run_group(args):
    if args[0] == 'reconf':
        return run_reconf()
    if args[0] == 'intcfg':
        return run_intcfg()
    if args[0] == 'rich':
        return run_rich(*args[1:])
    if args[0] == 'errest':
        return run_errest(args[1], args[2])
    if args[0] == 'columns':
        return run_columns()


def replay_case(ob):
    import re
    nm = ob['name']
    mm = re.search(r'rich\[(\w+),step=(\d+),terms=(\d+)\]/order=(\d+),len=(\d+)/', nm)
    if mm:
        return dict(kind='C07.limit', ratio_kind=mm.group(1), step=int(mm.group(2)), num_terms=int(mm.group(3)),
                    order=int(mm.group(4)), length=int(mm.group(5)))
    if nm.startswith('errest'):
        mm = re.search(r'E:(\w+)-steps,m=(\d+),m_old=(\d+),(\w+)-data', nm)
        mdl = ob.get('model') or {}
        return dict(kind='C07.errest', stepkind=mm.group(1) if mm else 'real', m_old=int(mm.group(3)) if mm else 1,
                    datakind=mm.group(4) if mm else 'real', model={k: v for k, v in mdl.items() if len(str(v)) < 40})
    if nm.startswith('columns/'):
        return dict(kind='C07.columns')
    if nm.startswith('reconfigure/'):
        return dict(kind='C07.reconf')
    if nm.startswith('integer-config/'):
        return dict(kind='C07.intcfg')
    return None
