"""C08 -- array inputs are handled element-wise and keep their shape.

The whole real pipeline is executed, nothing abstracted: Derivative.__call__, _derivative_nonzero_order, LogRule._vstack /
_apply, _Limit.{_extrapolate, _wynn_extrapolate, _get_best_estimate, _add_error_to_outliers, _get_arg_min},
Richardson.__call__, dea3.  f is an uninterpreted ELEMENT-WISE function g; the step generator is its contract stub (C10).
  N   non-interference by self-composition: two runs whose inputs agree at one position (all other elements independent
      symbols) return the same value, error estimate and final step at that position        (term identity => bit identity)
  S   scalar vs array: the term for an element of the array run is the scalar run's term with x := that element
  O   own-element dependence: value / error / step at a position mention only the symbol of that position -- also for
      non C-contiguous inputs (transposed views)
  K   output shape == input shape (shapes (), (3,), (2,2), (2,1,2), transposed (3,2)); error_estimate / final_step one
      entry per element
  A   extra positional and keyword arguments reach f unchanged on every evaluation
  B   contract of _get_best_estimate on havoc'd K x N tables: per column one row of the OWN column, minimal penalised
      error >= 0, column independence; also on the branch taken when some estimate is NaN
"""
import itertools
import warnings
import numpy as np
import z3
from ndvc import solve, xcheck
from fractions import Fraction
from ndvc.sym import R, C, real, lift, CTX, explore, NeedsConcrete
from ndvc.arr import SymArr, asobj
from .common import fd_env, ALL, mods
from .pipeline import ElementwiseF, ElementwiseGen, nom_positive_facts, free_syms, all_parts, best_estimate_obligations

ID = 'C08'
TRUSTED = ['A1 float == real; A2 object arrays == float arrays (bit-identity is a statement about terms: identical terms are '
           'evaluated by identical float operations)',
           'dependency contracts: np.percentile/nanpercentile (uninterpreted function of the reduced entries), nanargmin, nanmin, '
           'flatnonzero, ravel_multi_index, .flat gather (exact index semantics), pinv (real, concrete ratio), convolve1d',
           'step generator by contract (C10): steps element-wise in x, positive, geometric']
ASSUMPTIONS = ['all values of f finite (no NaN) except in the dedicated NaN-branch obligations; on an all-NaN column '
               '_get_arg_min falls back to row 0 for every column (outside the property\'s domain)']
NOT_DECIDED = ['"within the error estimate" clause for the complex-step methods under rounding (the term identity is proved '
               'for them as well)']
BOUNDED = ['elementwise-concrete: 64 (function, method, n, array) cases with the library default step generator, arrays mixing magnitudes 1e-3..1e10 and elements where every estimate is nan; value, error estimate and final step of each element compared bit-for-bit with its scalar evaluation -- executed, not proved',
           'complex-step-concrete: 48 concrete (method, n, f, array) cases executed in floating point with the real numpy (arrays with exact roots of a power base next to ordinary elements) -- not proved',
           'array shapes with at most 6 elements are executed (the argument is uniform in the shape)']
QUANTIFIED = 'all elements of x, all values of the uninterpreted element-wise g and of the nominal-step function: universally quantified'

CFGS_Q = [('central', 1, 2), ('central', 2, 2), ('forward', 1, 2), ('backward', 2, 1), ('complex', 1, 2), ('central', 3, 4)]
CFGS_T = CFGS_Q + [('forward', 3, 3), ('complex', 2, 2), ('complex', 3, 4), ('multicomplex', 1, 2), ('multicomplex', 2, 2),
                   ('central', 4, 2), ('backward', 1, 4)]


def cfgs(tier):
    return CFGS_Q if tier == 'quick' else CFGS_T


def enumerated(tier):
    return 'shapes (), (3,), (2,2), (2,1,2), transposed (3,2) x configurations %s' % (cfgs(tier),)


def groups(tier):
    out = [('deriv[%s,n=%d,order=%d]' % c, ('deriv',) + c) for c in cfgs(tier)]
    out += [('best-estimate[%d,%d]' % kn, ('best',) + kn) for kn in [(4, 2), (3, 3), (6, 2), (1, 2), (2, 1)]]
    out.append(('zero-order', ('zero',)))
    out.append(('elementwise-concrete', ('econc',)))
    out.append(('call-history', ('hist',)))
    out.append(('complex-step-concrete', ('cconc',)))
    return out


def functions_under_contract():
    m = mods(); core, lm, fd, ex = m['core'], m['lm'], m['fd'], m['ex']
    L = lm._Limit
    return [core.Derivative.__call__, core.Derivative._derivative_nonzero_order, core.Derivative._get_functions,
            fd.LogRule._vstack, fd.LogRule.apply, fd.LogRule._apply, L._extrapolate, L._wynn_extrapolate, L._get_best_estimate,
            L._add_error_to_outliers, L._get_arg_min, L._vstack, ex.Richardson.__call__, ex.Richardson._estimate_error, ex.dea3]


def _gpoly(z):
    # not a polynomial: truncation errors dominate rounding, so the row selected by the error estimates is determined
    return 1 / (z + 3) + z * z / 5


def _g_c(part):
    def f(a, b):
        # the element-wise function at a complex argument, in exact arithmetic
        from ndvc.concrete import _QC
        v = _gpoly(_QC(a, b))
        return v.re if part == 're' else v.im
    return f


XINTERP = {'g': lambda t: _gpoly(Fraction(t)), 'g_cre': _g_c('re'), 'g_cim': _g_c('im'), 'nom': lambda t: 1 + Fraction(t) * Fraction(t) / 7}


class NativeGen(object):
    """the generator stub on floats: K steps nom(x) * 2**-i"""

    def __init__(self, K):
        self.K, self.step_ratio = K, 2.0

    def step_generator_function(self, x, method='forward', n=1, order=2):
        self.x = x
        return self

    def __call__(self):
        return iter([(1 + np.asarray(self.x, dtype=float) ** 2 / 7) * 0.5 ** i for i in range(self.K)])


def xtol(method, n):
    """value, error estimate and selected step are compared where rounding cannot change which row is selected (n <= 2,
    first-derivative complex step); for higher n the floating-point run selects by rounding error, which exact arithmetic
    does not have (A1), and only the value is compared, to the accuracy that cancellation leaves"""
    if n <= 2 and (method != 'complex' or n == 1):
        return dict(rtol=1e-6, atol=1e-9, project=lambda v: (v[0], (v[1].error_estimate, v[1].final_step)))
    return dict(rtol=1e-4, atol=1e-6, project=lambda v: v[0])


def native_run(method, n, order, x, args=(), kwds=None, record=True):
    def run():
        import numdifftools as nd
        with warnings.catch_warnings():
            warnings.simplefilter('ignore')
            d = nd.Derivative(lambda z, *a, **k: _gpoly(z), step=NativeGen(n + order + 4), method=method, n=n, order=order, full_output=True)
            val, info = d(x, *args, **(kwds or {}))
        return (val, (info.error_estimate, info.final_step)) if record else val
    return run


def run_once(core, mc, x, method, n, order, full=True, args=(), kwds=None, K=None):
    f = ElementwiseF(mc)
    gen = ElementwiseGen(K or (n + order + 4))
    d = core.Derivative(f, step=gen, method=method, n=n, order=order, full_output=full)
    xs = list(asobj(x).ravel())
    with warnings.catch_warnings():
        warnings.simplefilter('ignore')
        paths = explore(lambda: d(x, *args, **(kwds or {})), pre=nom_positive_facts(xs), max_paths=8)
    return paths, f, gen


def run_deriv(method, n, order):
    info = {}
    with fd_env(names=ALL, symkey_cache=False, exact_factorial=False) as m:
        core, mc = m['core'], m['mc']
        x0, x1, x2, y1, y2 = real('x0'), real('x1'), real('x2'), real('y1'), real('y2')
        tagc = ''
        # ---- scalar run (reference)
        ps, fS, _ = run_once(core, mc, x0, method, n, order)
        ok = len(ps) == 1 and ps[0].exc is None
        solve.fact('scalar-run:single-path-no-exception', ok, note=str([repr(p.exc)[:150] for p in ps if p.exc][:1]))
        if not ok:
            return info
        vS, iS = ps[0].value
        if method != 'multicomplex':
            xcheck.defer('engine==CPython(Derivative,scalar)', ps, {'x0': Fraction(7, 10)}, native_run(method, n, order, 0.7, record=n <= 2 and (method != 'complex' or n == 1)),
                         interp_extra=XINTERP, **xtol(method, n))
        solve.fact('K:scalar:shape-()', np.shape(vS) == () and np.shape(iS.error_estimate) == () and np.shape(iS.final_step) == ())
        refS = [all_parts(asobj(vS).ravel()[0]), all_parts(asobj(iS.error_estimate).ravel()[0]), all_parts(asobj(iS.final_step).ravel()[0])]
        HS = ps[0].hyps
        # ---- arrays
        shapes = [((3,), False), ((2, 2), False), ((2, 1, 2), False), ((3, 2), True)]
        for shape, transposed in shapes:
            nel = int(np.prod(shape))
            names = ['x0'] + ['x%d_' % k for k in range(1, nel)]
            others = ['x0'] + ['y%d_' % k for k in range(1, nel)]

            def mkarr(nms):
                flat = [real(s) for s in nms]
                if transposed:
                    base = np.empty(shape[::-1], dtype=object)
                    base.ravel()[:] = flat          # memory order of the base
                    arr = base.T.view(SymArr)        # a non C-contiguous view of shape `shape`
                    return arr
                a = np.empty(shape, dtype=object)
                a.ravel()[:] = flat
                return a.view(SymArr)
            xa, xb = mkarr(names), mkarr(others)
            tg = 'shape%s%s:' % (shape, ',transposed-view' if transposed else '')
            pa, fA, genA = run_once(core, mc, xa, method, n, order, args=('ARG', 3), kwds=dict(key='K'))
            pb, fB, _ = run_once(core, mc, xb, method, n, order)
            ok = len(pa) == 1 and pa[0].exc is None and len(pb) == 1 and pb[0].exc is None
            solve.fact(tg + 'single-path-no-exception', ok, note=str([repr(p.exc)[:150] for p in pa + pb if p.exc][:1]))
            if not ok:
                continue
            vA, iA = pa[0].value
            vB, iB = pb[0].value
            if method != 'multicomplex':
                xv = [Fraction(7, 10)] + [Fraction(3 * k - 4, 5) for k in range(1, nel)]
                xnum = np.array([float(v) for v in xv])
                xnum = xnum.reshape(shape[::-1]).T if transposed else xnum.reshape(shape)
                xcheck.defer(tg + 'engine==CPython(Derivative)', pa, dict(zip(names, xv)),
                             native_run(method, n, order, xnum, args=('ARG', 3), kwds=dict(key='K'), record=n <= 2 and (method != 'complex' or n == 1)),
                             interp_extra=XINTERP, **xtol(method, n))
            solve.fact(tg + 'K:output-shape==input-shape', np.shape(vA) == shape and np.shape(iA.error_estimate) == shape and
                       np.shape(iA.final_step) == shape, note=str((np.shape(vA), np.shape(iA.error_estimate))))
            if np.shape(vA) != shape:
                continue
            solve.fact(tg + 'A:args-and-kwds-reach-f-unchanged-on-every-evaluation',
                       len(fA.calls) > 0 and all(a == ('ARG', 3) and k == dict(key='K') for a, k in fA.calls))
            # position of x0 in the array
            pos0 = [idx for idx in np.ndindex(shape) if lift(xa[idx]).t.eq(x0.t)][0]
            H = pa[0].hyps + pb[0].hyps + HS
            for nm, a_, b_, s_ in [('value', vA, vB, refS[0]), ('error_estimate', iA.error_estimate, iB.error_estimate, refS[1]),
                                   ('final_step', iA.final_step, iB.final_step, refS[2])]:
                ta, tb = all_parts(asobj(a_)[pos0]), all_parts(asobj(b_)[pos0])
                same = len(ta) == len(tb) and all(u.eq(v) for u, v in zip(ta, tb))
                if same:
                    solve.fact(tg + 'N:%s-at-x0-unaffected-by-the-other-elements' % nm, True, note='identical terms')
                else:
                    if not (len(ta) == len(tb) and solve.refute_equal(tg + 'N:%s-at-x0-unaffected-by-the-other-elements' % nm, ta, tb, sorted(free_syms(*(ta + tb))))):
                        solve.prove_lin(tg + 'N:%s-at-x0-unaffected-by-the-other-elements' % nm, z3.And(*[u == v for u, v in zip(ta, tb)]) if len(ta) == len(tb) else z3.BoolVal(False), [])
                same = len(ta) == len(s_) and all(u.eq(v) for u, v in zip(ta, s_))
                if same:
                    solve.fact(tg + 'S:%s-at-x0==scalar-run' % nm, True, note='identical terms')
                else:
                    if not (len(ta) == len(s_) and solve.refute_equal(tg + 'S:%s-at-x0==scalar-run' % nm, ta, s_, sorted(free_syms(*(ta + s_))))):
                        solve.prove_lin(tg + 'S:%s-at-x0==scalar-run' % nm, z3.And(*[u == v for u, v in zip(ta, s_)]) if len(ta) == len(s_) else z3.BoolVal(False), [])
            # own-element dependence for every position
            for idx in np.ndindex(shape):
                own = str(lift(xa[idx]).t)
                fv = free_syms(*(all_parts(asobj(vA)[idx]) + all_parts(asobj(iA.error_estimate)[idx]) + all_parts(asobj(iA.final_step)[idx])))
                foreign = sorted(s for s in fv if (s.startswith('x') or s.startswith('y')) and s != own)
                solve.fact(tg + 'O:position%s-depends-only-on-its-own-element' % (idx,), not foreign and own in fv, note=str(foreign[:4]))
            if shape == (3,):
                solve.twin_fact(tg + 'value[1]-is-the-same-term-as-value[0]', all(u.eq(v) for u, v in zip(all_parts(asobj(vA)[0]), all_parts(asobj(vA)[1]))))
    xcheck.flush()
    return info


def run_best(K, N):
    with fd_env(names=ALL, symkey_cache=False) as m:
        lm = m['lm']
        best_estimate_obligations(lm, K, N, 'real')
        if K >= 2:
            best_estimate_obligations(lm, K, N, 'real', nan_branch=True)
    return {}


def run_zero():
    """n == 0 (f itself): same shape, element-wise, args and kwds forwarded"""
    with fd_env(names=ALL, symkey_cache=False, exact_factorial=False) as m:
        core, mc = m['core'], m['mc']
        for method in ('central', 'forward', 'complex', 'multicomplex'):
            for shape in [(), (3,), (2, 2)]:
                CTX.reset()
                nel = int(np.prod(shape)) if shape else 1
                flat = [real('x%d' % k) for k in range(nel)]
                if shape:
                    xa = np.empty(shape, dtype=object); xa.ravel()[:] = flat; xa = xa.view(SymArr)
                else:
                    xa = flat[0]
                tg = 'n=0,%s,shape%s:' % (method, shape)
                pa, fA, _ = run_once(core, mc, xa, method, 0, 2, full=False, args=('ARG', 3), kwds=dict(key='K', other=2.5))
                ok = len(pa) == 1 and pa[0].exc is None
                solve.fact(tg + 'single-path-no-exception', ok, note=str([repr(p.exc)[:150] for p in pa if p.exc][:1]))
                if not ok:
                    continue
                vA = pa[0].value
                solve.fact(tg + 'K:output-shape==input-shape', np.shape(vA) == shape, note=str(np.shape(vA)))
                solve.fact(tg + 'A:args-and-kwds-reach-f-unchanged-on-every-evaluation',
                           len(fA.calls) > 0 and all(a == ('ARG', 3) and k == dict(key='K', other=2.5) for a, k in fA.calls),
                           note=str(fA.calls[:1])[:150])
                if np.shape(vA) != shape:
                    continue
                for idx in (np.ndindex(shape) if shape else [()]):
                    own = str(lift(xa[idx] if shape else xa).t)
                    fv = free_syms(*all_parts(asobj(vA)[idx]))
                    foreign = sorted(s_ for s_ in fv if s_.startswith('x') and s_ != own)
                    solve.fact(tg + 'O:position%s-depends-only-on-its-own-element' % (idx,), not foreign and own in fv, note=str(foreign[:4]))
    return {}


from ndvc.concrete import concrete_complex_step_cases


def run_cconc():
    import numdifftools as nd
    cnt, bad = concrete_complex_step_cases(nd)
    solve.fact('complex-step-methods:element-in-array==element-alone-within-the-error-estimates[%d concrete arrays]' % cnt, not bad,
               kind='bounded', note=str(bad[:1])[:400])
    return {}


def run_econc():
    import numdifftools as nd
    from ndvc.concrete import elementwise_default_step_cases
    cnt, bad = elementwise_default_step_cases(nd)
    solve.fact('default-step-generator:element-in-array-bit-identical-to-element-alone(mixed-magnitudes,all-nan-neighbours)[%d arrays]' % cnt, not bad,
               kind='bounded', note=str(bad[:1])[:400])
    return {}

def run_hist():
    """one object, two calls at the SAME point with different extra arguments: the second call evaluates f exactly as a fresh
    object would (same number of evaluations, every one with the second call's arguments, same result terms)"""
    with fd_env(names=ALL, symkey_cache=False, exact_factorial=False) as m:
        core, mc = m['core'], m['mc']
        for method, n, order in [('forward', 1, 2), ('central', 2, 2), ('backward', 1, 2), ('complex', 1, 2), ('central', 1, 2)]:
            for full in (True, False):
                CTX.reset()
                x = SymArr([real('x0'), real('x1')])
                f = ElementwiseF(mc)
                d = core.Derivative(f, step=ElementwiseGen(n + order + 4), method=method, n=n, order=order, full_output=full)
                f2 = ElementwiseF(mc)
                d2 = core.Derivative(f2, step=ElementwiseGen(n + order + 4), method=method, n=n, order=order, full_output=full)
                tag = '%s,n=%d,full_output=%s:' % (method, n, full)
                with warnings.catch_warnings():
                    warnings.simplefilter('ignore')
                    pa = explore(lambda: (d(x, 'A', 1, key='K'), len(f.calls), d(x, 'B', 2, key='L'), len(f.calls), d(x, 'B', 2, key='M'))[1:], pre=nom_positive_facts(list(x)), max_paths=8)
                    pb = explore(lambda: d2(x, 'B', 2, key='L'), pre=nom_positive_facts(list(x)), max_paths=8)
                ok = len(pa) == 1 and pa[0].exc is None and len(pb) == 1 and pb[0].exc is None
                solve.fact(tag + 'single-path-no-exception', ok, note=str([repr(p.exc)[:150] for p in pa + pb if p.exc][:1]))
                if not ok:
                    continue
                n1, second, n2, third = pa[0].value
                fresh = pb[0].value
                calls2 = f.calls[n1:n2]
                # third call: same positional arguments, same keyword NAMES, another keyword value
                calls3 = f.calls[n2:]
                solve.fact(tag + 'third-call(same-names,other-keyword-value)-evaluates-f-with-its-own-arguments',
                           len(calls3) == len(f2.calls) and len(calls3) > 0 and all(a == ('B', 2) and k == dict(key='M') for a, k in calls3),
                           note=str((n2, len(calls3), calls3[:1]))[:200])
                solve.fact(tag + 'second-call-evaluates-f-as-often-as-a-fresh-object-and-always-with-its-own-arguments',
                           len(calls2) == len(f2.calls) and len(calls2) > 0 and all(a == ('B', 2) and k == dict(key='L') for a, k in calls2),
                           note=str((n1, len(calls2), len(f2.calls), calls2[:1]))[:200])
                va = asobj(second[0] if full else second).ravel(); vb = asobj(fresh[0] if full else fresh).ravel()
                solve.fact(tag + 'second-call-returns-the-terms-of-a-fresh-object', len(va) == len(vb) and all(all(p_.eq(q_) for p_, q_ in zip(all_parts(u), all_parts(v))) for u, v in zip(va, vb)))
    return {}


def run_group(args):
    if args[0] == 'hist':
        return run_hist()
    if args[0] == 'econc':
        return run_econc()
    if args[0] == 'cconc':
        return run_cconc()
    if args[0] == 'zero':
        return run_zero()
    if args[0] == 'deriv':
        return run_deriv(args[1], args[2], args[3])
    return run_best(args[1], args[2])


def replay_case(ob):
    if ob['name'].startswith('elementwise-concrete/'):
        return dict(kind='C08.econc')
    import re
    if ob['name'].startswith('complex-step-concrete/'):
        return dict(kind='C08.cconc')
    if ob['name'].startswith('call-history/'):
        return dict(kind='C08.elementwise', method='central', n=1, order=2, history_only=True)
    mm = re.search(r'deriv\[(\w+),n=(\d+),order=(\d+)\]', ob['name'])
    if mm:
        return dict(kind='C08.elementwise', method=mm.group(1), n=int(mm.group(2)), order=int(mm.group(3)))
    return dict(kind='C08.elementwise', method='central', n=1, order=2, nan=('NaN' in ob['name']))
