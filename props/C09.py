"""C09 -- results depend only on (function, point, configuration), not on history.

Abstract state config(obj) = (fun, n, method, order, generator instance + options, richardson_terms, full_output).
  P   frame by poisoning: Derivative.__call__ with `self.richardson` and the generator's `_state` replaced by poison objects
      (any attribute read is a violation) returns, on a single path, the same TERMS as the un-poisoned fresh run: stale
      extrapolator / stale generator state are overwritten before use
  H   history scenarios (real MinStepGenerator / MaxStepGenerator, real rule cache, symbolic points): after any of
      {call at other points, set order / method / n and restore, permanent re-configuration, sharing one generator between
      objects of different (method, n, order), cold vs warm vs cleared rule cache} the value, error estimate and final step
      at x are the same terms as those of a freshly constructed object with the same configuration
  CI  cache invariant: after rule(r) on an empty cache FD_RULES holds exactly {(make_exact(r), parity, num_terms):
      pinv(_fd_matrix(that key))}; no other statement in the package stores to FD_RULES (AST scan); the cached rows are
      never written (cache arrays write-protected during complete pipeline runs)
  T   threads: AST scan of module- and class-level mutable bindings reachable from the call graph: only FD_RULES (every
      writer writes (k, F(k)): CI is stable under other threads' actions, A5) and the stateless _difference_functions
      instances; plus a bounded concurrent run (16 threads, disjoint objects) compared bit for bit with the sequential one
"""
import ast
import inspect
import itertools
import warnings
import numpy as np
import z3
from ndvc import solve
from ndvc.sym import R, C, real, lift, CTX, explore, NeedsConcrete, uf
from ndvc.arr import SymArr, asobj
from .common import fd_env, ALL, mods
from .pipeline import ElementwiseF, ElementwiseGen, nom_positive_facts, all_parts

ID = 'C09'
TRUSTED = ['A1 float == real; A2 object arrays == float arrays; identical terms are evaluated by identical float operations',
           'A5 CPython executes dict get/set atomically under the GIL (thread clause)',
           'dependency contracts as C08 (percentile, argmin, gather, pinv real, convolve1d)',
           'induction over histories from the per-operation obligations (by hand)']
ASSUMPTIONS = ['the user function is pure (uninterpreted, element-wise)', 'other threads use disjoint derivative objects']
NOT_DECIDED = ['interleavings inside numpy / below the GIL; warnings.catch_warnings in dea3 is not thread-safe but does not '
               'influence values']
BOUNDED = ['thread clause: one concurrent run of 16 threads x 8 configurations (stand-in; the deductive part is the shared-state scan)',
           'history scenarios are a finite catalogue of operation sequences (the per-operation frame obligations P and CI are '
           'what extends them to arbitrary sequences)']
QUANTIFIED = 'the points x, y, z and all values of the uninterpreted function: universally quantified'


def enumerated(tier):
    return 'scenarios x configurations %s' % (CFGS if tier != 'quick' else CFGS[:4],)


CFGS = [('central', 1, 2), ('forward', 2, 2), ('complex', 1, 2), ('forward', 1, 3), ('central', 2, 4), ('backward', 1, 3), ('complex', 3, 4), ('central', 3, 2)]


def groups(tier):
    cf = CFGS[:4] if tier == 'quick' else CFGS
    out = [('poison[%s,n=%d,order=%d]' % c, ('poison',) + c) for c in cf]
    out += [('history[%s,n=%d,order=%d]' % c, ('history',) + c) for c in cf]
    out += [('cache-invariant', ('ci',)), ('shared-state-scan', ('scan',)), ('threads', ('threads',))]
    # a step generator reused across calls / shared by objects yields what a fresh one yields (generator shared with C10)
    out.append(('contract:generator-reuse', ('dep', 'C10', 'run_scale', (tier,), {})))
    return out


def functions_under_contract():
    m = mods(); core, fd, sg, lm = m['core'], m['fd'], m['sg'], m['lm']
    D = core.Derivative
    return [D.__init__, D.n, D.order, D.method, D._set_derivative, D._get_functions, D._get_steps, D.set_richardson_rule,
            D._derivative_nonzero_order, D.__call__, fd.LogRule.rule, sg.MinStepGenerator.step_generator_function,
            sg.MinStepGenerator.step_ratio, sg.MinStepGenerator.num_steps, sg.MinStepGenerator.base_step, sg.MinStepGenerator.scale,
            lm._Limit.__init__, lm._Limit.step]


class PoisonRead(Exception):
    pass


class Poison(object):
    def __init__(self, name):
        object.__setattr__(self, '_name', name)

    def __getattr__(self, k):
        raise PoisonRead('%s.%s read' % (object.__getattribute__(self, '_name'), k))

    def __iter__(self):
        raise PoisonRead('%s iterated' % object.__getattribute__(self, '_name'))

    def __getitem__(self, k):
        raise PoisonRead('%s[%r] read' % (object.__getattribute__(self, '_name'), k))


def terms_of(result):
    v, info = result
    return [all_parts(asobj(v).ravel()[0]), all_parts(asobj(info.error_estimate).ravel()[0]), all_parts(asobj(info.final_step).ravel()[0])]


def same_terms(name, got, ref):
    from .pipeline import free_syms
    ok = True
    for nm, g, r in zip(('value', 'error_estimate', 'final_step'), got, ref):
        oname = '%s:%s-identical-to-the-fresh-object-run' % (name, nm)
        if len(g) == len(r) and all(a.eq(b) for a, b in zip(g, r)):
            solve.fact(oname, True, note='identical terms')
            continue
        if len(g) != len(r):
            solve.fact(oname, False, note='real vs complex result')
            ok = False
            continue
        # different terms: first try to refute the equality by exact evaluation under a concrete interpretation of the
        # uninterpreted functions (a witness), then ask the solver
        vs = sorted(free_syms(*(list(g) + list(r))))
        if solve.refute_equal(oname, g, r, vs):
            ok = False
            continue
        ok = solve.prove_lin(oname, z3.And(*[a == b for a, b in zip(g, r)]), []) and ok
    return ok


def run1(fn, pre=()):
    with warnings.catch_warnings():
        warnings.simplefilter('ignore')
        paths = explore(fn, pre=list(pre), max_paths=8, catch=(Exception,))
    return paths


def mk_real_gen(sg, kind='Min'):
    # real generator with concrete options (so the pipeline stays on one path) and symbolic x through get_nominal_step
    if kind == 'Min':
        return sg.MinStepGenerator(base_step=0.125, num_steps=8, use_exact_steps=True)
    return sg.MaxStepGenerator(base_step=2.0, num_steps=9)


def run_poison(method, n, order):
    with fd_env(names=ALL, symkey_cache=False, exact_factorial=False) as m:
        core, mc, sg, fd = m['core'], m['mc'], m['sg'], m['fd']
        x, y = real('x'), real('y')
        lnpos = []

        def build(gen):
            f = ElementwiseF(mc)
            return core.Derivative(f, step=gen, method=method, n=n, order=order, full_output=True), f
        fd.FD_RULES.clear()
        d, f = build(mk_real_gen(sg))
        ref_paths = run1(lambda: d(x))
        ok = len(ref_paths) == 1 and ref_paths[0].exc is None
        solve.fact('fresh-run:single-path-no-exception', ok, note=str([repr(p.exc)[:150] for p in ref_paths if p.exc][:1]))
        if not ok:
            return {}
        ref = terms_of(ref_paths[0].value)
        for variant in ('poisoned-after-construction', 'poisoned-after-two-calls-elsewhere'):
            gen = mk_real_gen(sg)
            d2, f2 = build(gen)

            def seq():
                if variant.endswith('elsewhere'):
                    d2(y); d2(real('z'))
                d2.richardson = Poison('Derivative.richardson')
                gen._state = Poison('MinStepGenerator._state')
                return d2(x)
            ps = run1(seq)
            bad = [p for p in ps if p.exc is not None]
            solve.fact('P:%s:no-stale-state-read' % variant, not bad, note=str([repr(p.exc)[:150] for p in bad][:1]))
            if bad or len(ps) != 1:
                continue
            same_terms('P:%s' % variant, terms_of(ps[0].value), ref)
        # negative control: a generator that forgets to refresh _state must trip the poison
        orig = sg.MinStepGenerator.step_generator_function

        def broken(self, x_, method='forward', n=1, order=2):
            base_step, step_ratio = self.base_step * self.step_nom, self.step_ratio
            return self._step_generator(base_step=base_step, step_ratio=step_ratio, num_steps=self.num_steps, offset=self.offset)
        sg.MinStepGenerator.step_generator_function = broken
        try:
            gen = mk_real_gen(sg); d3, _ = build(gen)
            gen._state = Poison('MinStepGenerator._state')
            ps = run1(lambda: d3(x))
            solve.twin_fact('P:a-generator-that-does-not-refresh-_state-goes-unnoticed', not any(isinstance(p.exc, PoisonRead) for p in ps))
        finally:
            sg.MinStepGenerator.step_generator_function = orig
    return {}


def run_history(method, n, order):
    info = dict(scenarios=[])
    with fd_env(names=ALL, symkey_cache=False, exact_factorial=False) as m:
        core, mc, sg, fd = m['core'], m['mc'], m['sg'], m['fd']
        x, y = real('x'), real('y')

        def fresh(method_=method, n_=n, order_=order, gen=None, gkind='Min'):
            f = ElementwiseF(mc)
            return core.Derivative(f, step=gen if gen is not None else mk_real_gen(sg, gkind), method=method_, n=n_, order=order_, full_output=True)
        other_m = 'forward' if method != 'forward' else 'central'
        other_n = 2 if n == 1 else 1
        other_o = 4 if order != 4 else 2
        refs = {}
        for gkind in ('Min', 'Max'):
            fd.FD_RULES.clear()
            ps = run1(lambda: fresh(gkind=gkind)(x))
            ok = len(ps) == 1 and ps[0].exc is None
            solve.fact('fresh[%s]:single-path-no-exception' % gkind, ok, note=str([repr(p.exc)[:150] for p in ps if p.exc][:1]))
            if ok:
                refs[gkind] = terms_of(ps[0].value)
        if 'Min' not in refs:
            return info

        def scen_same_object_other_points(gk):
            d = fresh(gkind=gk); d(y); d(real('z')); return d(x)

        def scen_order_changed_and_restored(gk):
            d = fresh(gkind=gk); d.order = other_o; d(y); d.order = order; return d(x)

        def scen_method_changed_and_restored(gk):
            d = fresh(gkind=gk); d.method = other_m; d(y); d.method = method; return d(x)

        def scen_n_changed_and_restored(gk):
            d = fresh(gkind=gk); d.n = other_n; d(y); d.n = 0; d(y); d.n = n; return d(x)

        def scen_reconfigured_from_other_config(gk):
            d = fresh(method_=other_m, n_=other_n, order_=other_o, gkind=gk); d(y)
            d.method = method; d.order = order; d.n = n
            return d(x)

        def scen_reconfigured_without_call(gk):
            d = fresh(method_=other_m, n_=other_n, order_=other_o, gkind=gk)
            d.n = n; d.order = order; d.method = method
            return d(x)

        def scen_shared_generator(gk):
            gen = mk_real_gen(sg, gk)
            d1 = fresh(method_=other_m, n_=other_n, order_=other_o, gen=gen)
            d2 = fresh(gen=gen)
            d1(y); r = d2(x); return r

        def scen_shared_generator_interleaved(gk):
            gen = mk_real_gen(sg, gk)
            d1 = fresh(method_=other_m, n_=other_n, order_=other_o, gen=gen)
            d2 = fresh(gen=gen)
            d2(y); d1(y); d1(x); return d2(x)

        def scen_shared_generator_other_object_built_with_step_options(gk):
            # the generator belongs to the caller: building another object on it, with step options of its own, must leave
            # it as it is (the options are the other object's business)
            gen = mk_real_gen(sg, gk)
            d2 = fresh(gen=gen)
            f2 = ElementwiseF(mc)
            core.Derivative(f2, step=gen, method=other_m, n=other_n, order=other_o, num_steps=1, offset=2, base_step=0.25)
            return d2(x)

        def scen_warm_cache(gk):
            for (mm_, nn_, oo_) in [('central', 1, 2), ('forward', 2, 2), ('central', 2, 4), ('complex', 1, 2)]:
                fresh(method_=mm_, n_=nn_, order_=oo_, gkind=gk)(y)
            return fresh(gkind=gk)(x)

        def scen_cache_cleared_midway(gk):
            d = fresh(gkind=gk); d(y); fd.FD_RULES.clear(); return d(x)

        def scen_full_output_toggled(gk):
            d = fresh(gkind=gk); d.full_output = False; d(y); d.full_output = True; return d(x)
        scens = [v for k, v in sorted(locals().items()) if k.startswith('scen_')]
        for sc in scens:
            for gk in ('Min', 'Max'):
                if gk not in refs:
                    continue
                nm = 'H:%s[%s]' % (sc.__name__[5:], gk)
                fd.FD_RULES.clear()
                ps = run1(lambda: sc(gk))
                ok = len(ps) == 1 and ps[0].exc is None
                solve.fact(nm + ':single-path-no-exception', ok, note=str([repr(p.exc)[:150] for p in ps if p.exc][:1]))
                if not ok:
                    continue
                same_terms(nm, terms_of(ps[0].value), refs[gk])
                info['scenarios'].append(nm)
        # must-fail twin: a different point gives different terms
        ps = run1(lambda: fresh()(y))
        if len(ps) == 1 and ps[0].exc is None:
            t = terms_of(ps[0].value)
            solve.twin_fact('H:result-at-y-is-the-same-term-as-at-x', all(a.eq(b) for a, b in zip(t[0], refs['Min'][0])))
    return info


def fresh_fd_module(fd):
    """execute the source of finite_difference.py again under another name: its module-level state as at import"""
    import importlib.util
    spec = importlib.util.spec_from_file_location('numdifftools._fd_as_imported', fd.__file__)
    mod = importlib.util.module_from_spec(spec)
    spec.loader.exec_module(mod)
    return mod


def run_ci():
    m = mods(); fd, core = m['fd'], m['core']
    cnt = 0
    bad = []
    for method, n, order, r in itertools.product(['central', 'forward', 'backward', 'complex'], [1, 2, 3, 4, 6], [1, 2, 4, 6], [2.0, 1.6, 4.0, 1.1, 1.64, 2.04, 1.55, 10.0 / 3.0]):
        fd.FD_RULES.clear()
        rule = fd.LogRule(n=n, method=method, order=order)
        w = rule.rule(r)
        cnt += 1
        keys = list(fd.FD_RULES)
        if len(keys) != 1:
            bad.append((method, n, order, r, 'keys', keys)); continue
        key = keys[0]
        mo, rs = rule.method_order, rule.richardson_step
        want_key = (fd.make_exact(r), rule._parity(method, n - 1, mo), (n - 1 + mo) // rs)
        M = fd.LogRule._fd_matrix(*key)
        ok = key == want_key and np.array_equal(fd.FD_RULES[key], fd.linalg.pinv(M))
        w2 = rule.rule(r)
        ok = ok and len(fd.FD_RULES) == 1 and np.array_equal(w, w2)
        if not ok:
            bad.append((method, n, order, r, key, want_key))
    solve.fact('CI:rule()-stores-exactly-(make_exact(r),parity,num_terms)->pinv(_fd_matrix(key))[%d configurations]' % cnt, not bad, note=str(bad[:2]))
    # neighbouring step ratios must not share a cache entry: a rule computed with a warm cache == the rule computed cold
    near = []
    for method, n, order in [('central', 1, 4), ('forward', 1, 3), ('central', 3, 2), ('complex', 3, 4), ('backward', 2, 2)]:
        for ra, rb in [(1.6, 1.64), (1.55, 1.6), (2.0, 2.04), (2.0, 2.0000000000000004), (4.0, 3.96)]:
            fd.FD_RULES.clear()
            cold = fd.LogRule(n=n, method=method, order=order).rule(rb)
            fd.FD_RULES.clear()
            fd.LogRule(n=n, method=method, order=order).rule(ra)
            warm = fd.LogRule(n=n, method=method, order=order).rule(rb)
            if not np.array_equal(cold, warm):
                near.append((method, n, order, ra, rb))
    solve.fact('CI:rule(r)-after-rule(r\')-for-a-nearby-ratio==rule(r)-with-a-cold-cache[25 pairs]', not near, note=str(near[:3]))
    # base case of the invariant: the content of FD_RULES when the module has just been imported
    fresh = fresh_fd_module(fd)
    init_bad = []
    for key, val in dict(fresh.FD_RULES).items():
        try:
            want = fresh.linalg.pinv(fresh.LogRule._fd_matrix(*key))
            if not (np.shape(val) == np.shape(want) and np.array_equal(np.asarray(val), want)):
                init_bad.append((key, 'entry differs from pinv(_fd_matrix(key)) by %.3g' % float(np.max(np.abs(np.asarray(val) - want)))))
        except Exception as e:
            init_bad.append((key, repr(e)[:80]))
    solve.fact('CI:content-of-FD_RULES-at-import-satisfies-the-invariant(bit-for-bit)[%d entries]' % len(fresh.FD_RULES), not init_bad,
               note=str(init_bad[:2]))
    # no other store to FD_RULES anywhere in the package
    stores = {}
    for nm in ('fd', 'core', 'lm', 'ex', 'sg', 'mc', 'fb'):
        from ndvc import cut
        hits = cut.attr_stores(m[nm], 'FD_RULES')
        if hits:
            stores[nm] = hits
    fdsrc = inspect.getsource(fd)
    ok = set(stores) <= {'fd', 'core'} and all(k == 'rebind' for k, _ in stores.get('core', [])) and \
        sorted(k for k, _ in stores.get('fd', [])) == ['rebind', 'subscript-store']
    solve.fact('CI:the-only-store-to-FD_RULES-is-the-one-in-LogRule.rule', ok, note=str(stores))
    # write-protected cache during complete pipeline runs
    import numdifftools as nd
    with warnings.catch_warnings():
        warnings.simplefilter('ignore')
        fd.FD_RULES.clear()
        problems = []
        for method, n, order in [('central', 1, 2), ('forward', 2, 2), ('complex', 3, 4), ('backward', 1, 3), ('central', 4, 6)]:
            d = nd.Derivative(np.exp, method=method, n=n, order=order)
            v1 = d(0.5)
            for k in fd.FD_RULES:
                fd.FD_RULES[k].setflags(write=False)
            snap = {k: v.copy() for k, v in fd.FD_RULES.items()}
            try:
                v2 = nd.Derivative(np.exp, method=method, n=n, order=order)(0.5)
                v3 = d(np.array([0.5, 0.7]))
            except ValueError as e:
                problems.append((method, n, order, repr(e)[:80])); continue
            if not (v1 == v2 and all(np.array_equal(snap[k], fd.FD_RULES[k]) for k in snap)):
                problems.append((method, n, order, 'changed'))
        solve.fact('CI:cached-inverses-are-never-written(write-protected-during-pipeline-runs)', not problems, note=str(problems[:2]))
        fd.FD_RULES.clear()
    return dict(ci_configs=cnt)


LIVE_OK = {('numdifftools.finite_difference', 'FD_RULES'), ('numdifftools.core', 'FD_RULES'),            # the rule cache (invariant CI)
           ('numdifftools.fornberg', 'CENTRAL_WEIGHTS_AND_POINTS'),                                         # read-only table
           ('numdifftools.finite_difference', 'LogRule._difference_functions'),                             # stateless instances
           ('numdifftools.finite_difference', 'LogJacobianRule._difference_functions'),
           ('numdifftools.finite_difference', 'LogHessdiagRule._difference_functions'),
           ('numdifftools.finite_difference', 'LogHessianRule._difference_functions'),
           ('numdifftools.step_generators', 'one_step')}                                                    # not used by the classes
MUTABLE_OK = {('numdifftools.finite_difference', 'FD_RULES'), ('numdifftools.core', 'FD_RULES'),
              ('numdifftools.fornberg', 'CENTRAL_WEIGHTS_AND_POINTS')}


def run_scan():
    m = mods()
    found = []
    class_level = []
    globals_used = []
    for nm in ('fd', 'core', 'lm', 'ex', 'sg', 'mc', 'fb'):
        mod = m[nm]
        tree = ast.parse(inspect.getsource(mod))
        for s in tree.body:
            if isinstance(s, ast.Assign):
                v = s.value
                mut = isinstance(v, (ast.Dict, ast.List, ast.Set, ast.ListComp, ast.DictComp)) or \
                    (isinstance(v, ast.Call) and isinstance(v.func, ast.Name) and v.func.id in ('dict', 'list', 'set', 'defaultdict'))
                if mut:
                    for t in s.targets:
                        if isinstance(t, ast.Name):
                            found.append((mod.__name__, t.id))
            if isinstance(s, ast.ClassDef):
                for c in s.body:
                    if isinstance(c, ast.Assign):
                        v = c.value
                        mut = isinstance(v, (ast.Dict, ast.List, ast.Set)) or (isinstance(v, ast.Call) and isinstance(v.func, ast.Name) and v.func.id in ('dict', 'list', 'set'))
                        if mut:
                            class_level.append((mod.__name__, s.name, [getattr(t, 'id', '?') for t in c.targets]))
        for nd_ in ast.walk(tree):
            if isinstance(nd_, (ast.Global, ast.Nonlocal)):
                globals_used.append((mod.__name__, nd_.names))
    solve.fact('T:no-global/nonlocal-rebinding', not globals_used, note=str(globals_used))
    # the same question asked of the LIVE modules (whatever expression created the object): every object reachable from a
    # module attribute, a class attribute or a function default that can be mutated is shared by all derivative objects
    # and all threads; only the listed ones may exist
    import importlib
    import types
    live = []
    IMM = (str, int, float, complex, bool, bytes, type(None), frozenset, np.generic, types.FunctionType, types.BuiltinFunctionType, type,
           types.ModuleType, staticmethod, classmethod, property, np.ufunc, types.MethodType, types.GetSetDescriptorType,
           types.MemberDescriptorType, types.WrapperDescriptorType, types.MethodDescriptorType)

    def mutable(v):
        if isinstance(v, IMM) or type(v).__name__ in ('_Feature', '_tuplegetter'):
            return False
        if isinstance(v, tuple):
            return any(mutable(e) for e in v)
        return True

    def defaults_of(fn):
        fn = getattr(fn, '__func__', fn)
        return list(getattr(fn, '__defaults__', None) or ()) + list((getattr(fn, '__kwdefaults__', None) or {}).values())
    modlist = [m[nm] for nm in ('fd', 'core', 'lm', 'ex', 'sg', 'mc', 'fb')] + [importlib.import_module('numdifftools.nd_scipy')]
    for mod in modlist:
        for k, v in list(vars(mod).items()):
            if k.startswith('__') or isinstance(v, types.ModuleType):
                continue
            if inspect.isclass(v):
                if v.__module__ != mod.__name__ or hasattr(v, '_fields'):
                    continue
                for a, av in list(vars(v).items()):
                    if a.startswith('__') and not isinstance(av, (types.FunctionType, staticmethod, classmethod)):
                        continue
                    if mutable(av):
                        live.append((mod.__name__, '%s.%s' % (v.__name__, a), type(av).__name__))
                    if isinstance(av, (types.FunctionType, staticmethod, classmethod)):       # __init__, __call__ included
                        live += [(mod.__name__, '%s.%s(default argument)' % (v.__name__, a), type(d_).__name__) for d_ in defaults_of(av) if mutable(d_)]
            elif isinstance(v, types.FunctionType):
                if v.__module__ == mod.__name__:
                    live += [(mod.__name__, '%s(default argument)' % k, type(d_).__name__) for d_ in defaults_of(v) if mutable(d_)]
            elif mutable(v) and not (getattr(type(v), '__module__', '') or '').startswith(('numpy', 'scipy')) or isinstance(v, np.ndarray):
                live.append((mod.__name__, k, type(v).__name__))
    def used_read_only(name):
        """every reference to `name` (bare or as an attribute) in the scanned modules is a read-only form: NAME[...] load,
        `x in NAME`, `for x in NAME`, len(NAME), NAME.get/keys/items/values/index/count(...), or its defining assignment"""
        RO_METH = ('get', 'keys', 'items', 'values', 'index', 'count', 'copy')
        for mod in modlist:
            tree = ast.parse(inspect.getsource(mod))
            for par in ast.walk(tree):
                for ch in ast.iter_child_nodes(par):
                    ch._parent = par
            for nd_ in ast.walk(tree):
                is_ref = (isinstance(nd_, ast.Name) and nd_.id == name) or (isinstance(nd_, ast.Attribute) and nd_.attr == name)
                if not is_ref:
                    continue
                par = getattr(nd_, '_parent', None)
                if isinstance(nd_.ctx, ast.Store):
                    # the defining assignment at module / class level is fine; any other store is a rebind
                    if isinstance(par, ast.Assign) and isinstance(getattr(par, '_parent', None), (ast.Module, ast.ClassDef)):
                        continue
                    return False
                if isinstance(par, ast.Subscript) and par.value is nd_ and isinstance(par.ctx, ast.Load):
                    continue
                if isinstance(par, ast.Compare) and nd_ in par.comparators and all(isinstance(o, (ast.In, ast.NotIn)) for o in par.ops):
                    continue
                if isinstance(par, (ast.For, ast.comprehension)) and par.iter is nd_:
                    continue
                if isinstance(par, ast.Call) and nd_ in par.args and isinstance(par.func, ast.Name) and par.func.id in ('len', 'sorted', 'tuple', 'list', 'set', 'frozenset', 'max', 'min', 'sum'):
                    continue
                if isinstance(par, ast.Attribute) and par.value is nd_ and par.attr in RO_METH and isinstance(getattr(par, '_parent', None), ast.Call):
                    continue
                return False
        return True
    constants = [e for e in live if (e[0], e[1]) not in LIVE_OK and e[2] in ('dict', 'list', 'set', 'ndarray', 'tuple') and
                 not e[1].endswith('(default argument)') and used_read_only(e[1].split('.')[-1])]
    live = [e for e in live if e not in constants]
    unexpected = [e for e in live if (e[0], e[1]) not in LIVE_OK]
    # (static form of the same scan; a container that is only ever read -- a constant table -- is not state)
    extra = [f for f in found if f not in MUTABLE_OK and f[1] != '__all__' and not used_read_only(f[1])]
    solve.fact('T:module-level-mutable-state-is-only-the-rule-cache', not extra, note=str(found))
    class_level = [c for c in class_level if not all(used_read_only(t) for t in c[2])]
    solve.fact('T:no-class-level-mutable-containers', not class_level, note=str(class_level))
    solve.fact('T:live-scan:every-shared-mutable-object-is-a-listed-one', not unexpected, note=str(unexpected[:4]))
    solve.fact('T:live-scan:saw-the-listed-objects', all(any((e[0], e[1]) == k for e in live) for k in LIVE_OK if k[0] != 'numdifftools.core' or True),
               note=str([k for k in LIVE_OK if not any((e[0], e[1]) == k for e in live)]))
    # the read-only table of fornberg is never written
    from ndvc import cut
    solve.fact('T:CENTRAL_WEIGHTS_AND_POINTS-is-never-written', not any(cut.attr_stores(m[nm], 'CENTRAL_WEIGHTS_AND_POINTS') for nm in ('fd', 'core', 'lm', 'ex', 'sg', 'mc')) and
               all(k_ == 'rebind' for k_, _ in cut.attr_stores(m['fb'], 'CENTRAL_WEIGHTS_AND_POINTS')), note=str(cut.attr_stores(m['fb'], 'CENTRAL_WEIGHTS_AND_POINTS')))
    # the class-level _difference_functions instances are stateless
    fd = m['fd']
    ok = all(not vars(getattr(fd, c)._difference_functions) for c in ('LogRule', 'LogJacobianRule', 'LogHessdiagRule', 'LogHessianRule'))
    solve.fact('T:shared-_difference_functions-instances-carry-no-state', ok)
    # one_step: a module-level generator instance shared by importers
    sg = m['sg']
    solve.fact('T:module-level-generator-one_step-is-not-used-by-the-derivative-classes',
               'one_step' not in inspect.getsource(m['core']) and 'one_step' not in inspect.getsource(m['lm']))
    return dict(mutable_module_state=[list(f) for f in found])


def run_threads():
    import threading
    import numdifftools as nd
    import numdifftools.finite_difference as fd
    cfgs = [('central', 1, 2, np.exp), ('forward', 2, 2, np.sin), ('complex', 1, 2, np.cos), ('central', 2, 4, np.tanh),
            ('backward', 1, 3, np.exp), ('complex', 3, 4, np.sin), ('central', 3, 2, np.cos), ('multicomplex', 2, 2, np.exp)]
    xs = np.linspace(0.2, 1.4, 7)
    with warnings.catch_warnings():
        warnings.simplefilter('ignore')
        def work(c):
            out = []
            for x in xs:
                v, i = nd.Derivative(c[3], method=c[0], n=c[1], order=c[2], full_output=True)(x)
                out.append((float(v), float(i.error_estimate), float(i.final_step)))
            return out
        fd.FD_RULES.clear()
        seq = [work(c) for c in cfgs]
        bad = 0
        for rep in range(3):
            fd.FD_RULES.clear()
            res = [None] * 16
            def run(k):
                res[k] = work(cfgs[k % len(cfgs)])
            ts = [threading.Thread(target=run, args=(k,)) for k in range(16)]
            for t in ts:
                t.start()
            for t in ts:
                t.join()
            for k in range(16):
                if res[k] != seq[k % len(cfgs)]:
                    bad += 1
    solve.record('T:16-concurrent-threads-give-bit-identical-results(bounded: 3 repetitions)', 'proved' if not bad else 'refuted',
                 'bounded-sampling', 0.0, None, 'bounded', note='%d differing thread results' % bad)
    return {}


def run_group(args):
    if args[0] == 'dep':
        import importlib
        return getattr(importlib.import_module('props.' + args[1]), args[2])(*args[3], **args[4])
    if args[0] == 'poison':
        return run_poison(*args[1:])
    if args[0] == 'history':
        return run_history(*args[1:])
    return {'ci': run_ci, 'scan': run_scan, 'threads': run_threads}[args[0]]()


def replay_case(ob):
    import re
    if ob['name'].startswith('contract:generator-reuse/'):
        from . import C10
        return C10.replay_case(dict(ob, name='scale/' + ob['name'].split('/', 1)[1]))
    if 'content-of-FD_RULES-at-import' in ob['name']:
        return dict(kind='C09.cache0')
    if '/T:' in ob['name']:
        return dict(kind='C09.shared')
    mm = re.search(r'\[(\w+),n=(\d+),order=(\d+)\]', ob['name'])
    sc = re.search(r'H:(\w+)\[(\w+)\]', ob['name'])
    c = dict(kind='C09.history')
    if mm:
        c.update(method=mm.group(1), n=int(mm.group(2)), order=int(mm.group(3)))
    if sc:
        c.update(scenario=sc.group(1), generator=sc.group(2))
    return c
