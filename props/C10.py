"""C10 -- step generators produce the documented geometric sequences, and enough steps.

Real code executed: Basic{Max,Min}StepGenerator.{__call__, _range}, MinStepGenerator (all properties,
step_generator_function, __call__), MaxStepGenerator.__init__, CStepGenerator.{__init__, step_ratio, dtheta, num_steps,
_check_path}, default_scale, get_nominal_step, get_base_step, make_exact.
  count   for ALL integers n, order >= 1 and every method: min_num_steps(n, method_order) >= rule length
          (n-1+method_order)//richardson_step, so the default num_steps (Min: min+num_extrap, Max: max(15, min)) passes
          the guard of LogRule._apply                                             [unbounded, linear integer arithmetic]
  seq     the list produced by the real generator equals the independent closed form
          base_step*step_nom(x)*step_ratio**(+-i+offset), in the documented order, for symbolic x (scalar and array),
          symbolic base_step / step_ratio / step_nom / offset where given, and every combination of the discrete options
          (None vs given, use_exact_steps, check_num_steps, num_extrap, offset sign, path radial/spiral)
  loop    one ARBITRARY iteration of the generator loop (cut from the AST): step == base*ratio**(sgn*i+offset);
          a step is dropped iff it has a zero element
  exact   make_exact(h) == h in real arithmetic (the contract other checks use)
  scale   default_scale(method, n, order) > 0 on the property grid; base step == EPS**(1/scale)
"""
import itertools
import math
from fractions import Fraction
import numpy as np
import z3
from ndvc import solve, cut
from ndvc.sym import R, C, Z, B, real, integer, cplx, lift, CTX, explore, NeedsConcrete, POW, UF1, ite, uf, parts
from ndvc.arr import SymArr, asobj, emap
from ndvc.overlay import installed, NpProxy
from .common import mods

ID = 'C10'
TRUSTED = ['A1 float == real (make_exact is the identity; "exactly representable" is a rounding statement, not decided)',
           'A2 object arrays == float arrays',
           'log, r**e for a symbolic exponent and exp(i*theta) are uninterpreted functions: the closed form is compared '
           'term by term (congruence), no property of log/pow is needed; strictly decreasing magnitude for ratio > 1 '
           'follows from the exponents decreasing by exactly 1 (proved) and monotonicity of r**e (M4, trusted)',
           'z3 / cvc5 as deciders']
ASSUMPTIONS = ['n, order >= 1; options of the documented types',
               'sequences longer than 6 steps or with a symbolic complex ratio: no generated step is exactly zero']
NOT_DECIDED = ['the numerical values of default_scale\'s tuning constants (the formula is pinned only through '
               'base_step == EPS**(1/scale) and scale > 0)', 'effect of use_exact_steps on rounding']
BOUNDED = ['integer-x: integer-typed x compared with the same x as floats on 60 concrete (class, options, x) cases -- executed with the real numpy, not proved']
QUANTIFIED = 'x (scalar and array elements), base_step, step_ratio, step_nom, offset (where given): universally quantified ' \
             'reals; n, order universally quantified integers in the count groups; discrete options enumerated exhaustively'

METHODS = ['central', 'central2', 'forward', 'backward', 'complex', 'multicomplex']


def enumerated(tier):
    return 'generator class x method x (n, order) grid x {None, given} for each numeric option x boolean options'


def groups(tier):
    out = [('count[%s]' % m, ('count', m)) for m in METHODS]
    out += [('count[Hessdiag,%s]' % m, ('count-hd', m)) for m in METHODS]
    for cls in ('Min', 'Max', 'C'):
        for part in range(4):
            out.append(('seq[%s,%d]' % (cls, part), ('seq', cls, part, tier)))
    out += [('loop', ('loop',)), ('exact', ('exact',)), ('scale', ('scale', tier)), ('integer-x', ('intx',))]
    return out


def functions_under_contract():
    m = mods(); sg, lm = m['sg'], m['lm']
    M = sg.MinStepGenerator
    return [sg.BasicMaxStepGenerator.__call__, sg.BasicMaxStepGenerator._range, sg.BasicMinStepGenerator._range,
            M.scale, M.base_step, M._num_step_divisor, M.min_num_steps, M.num_steps, M.step_ratio, M.step_nom,
            M.step_generator_function, M.__call__, sg.MaxStepGenerator.__init__, sg.default_scale, sg.get_nominal_step,
            sg.get_base_step, sg.make_exact, lm.CStepGenerator.__init__, lm.CStepGenerator.step_ratio,
            lm.CStepGenerator.dtheta, lm.CStepGenerator.num_steps, lm.CStepGenerator._check_path]


# ------------------------------------------------------------------------------------------------ count
def run_count(method, hessdiag=False):
    m = mods(); fd, sg = m['fd'], m['sg']
    rulecls = fd.LogHessdiagRule if hessdiag else fd.LogRule

    def run():
        n = integer('n'); order = integer('order')
        rule = rulecls(n=n, method=method, order=order)
        nn = rule.n
        mo = rule.method_order; rs = rule.richardson_step
        num_terms = 1 if method == 'multicomplex' else (nn - 1 + mo) // rs      # expression used in LogRule.rule
        out = {}
        for nm, gen in [('Min', sg.MinStepGenerator()), ('Min+extrap3', sg.MinStepGenerator(num_extrap=3)),
                        ('Max', sg.MaxStepGenerator()), ('Min(num_steps=1)', sg.MinStepGenerator(num_steps=1)),
                        ('Max(num_steps=2)', sg.MaxStepGenerator(num_steps=2))]:
            gen._state = sg._STATE(np.asarray(1), method, nn, mo)        # what Derivative._get_steps passes
            out[nm] = (gen.min_num_steps, gen.num_steps)
        return dict(num_terms=num_terms, gens=out, n=nn, mo=mo)
    pre = [z3.Int('n') >= 1, z3.Int('order') >= 1]
    if method == 'multicomplex':
        pre.append(z3.Int('n') <= 2)
    with installed(fd, sg):
        paths = explore(run, pre=pre)
    solve.fact('paths>0', len(paths) > 0, note='%d' % len(paths))

    def zi(v):
        return v.t if isinstance(v, Z) else z3.IntVal(int(v))
    for pi, p in enumerate(paths):
        if p.exc is not None:
            solve.fact('path%d:no-exception' % pi, False, note=repr(p.exc)[:200])
            continue
        nt = zi(p.value['num_terms'])
        for nm, (mn, ns) in p.value['gens'].items():
            solve.prove('path%d:%s:min_num_steps>=rule-length' % (pi, nm), zi(mn) >= nt, p.hyps)
            solve.prove('path%d:%s:num_steps>=rule-length(apply-guard-passes)' % (pi, nm), zi(ns) >= nt, p.hyps)
            solve.prove('path%d:%s:num_steps>=1' % (pi, nm), zi(ns) >= 1, p.hyps)
        # the documented count for ALL n, order: min_num_steps == max((n + order - 1) // divisor, 1) with divisor 2 for central /
        # central2 / multicomplex, 4 or 2 for complex (4 when n > 1 or order >= 4), 1 for the one-sided methods
        nn_, mo_ = zi(p.value['n']), zi(p.value['mo'])
        if method in ('central', 'central2', 'multicomplex'):
            dv = z3.IntVal(2)
        elif method == 'complex':
            dv = z3.If(z3.Or(nn_ > 1, mo_ >= 4), z3.IntVal(4), z3.IntVal(2))
        else:
            dv = z3.IntVal(1)
        qd = (nn_ + mo_ - 1) / dv
        solve.prove('path%d:Min:min_num_steps==max((n+order-1)//divisor,1)-with-the-documented-divisor' % pi,
                    zi(p.value['gens']['Min'][0]) == z3.If(qd > 1, qd, z3.IntVal(1)), p.hyps)
        mn, ns = p.value['gens']['Min+extrap3']
        solve.prove('path%d:Min:num_steps==min+num_extrap' % pi, zi(ns) == zi(mn) + 3, p.hyps)
        mn, ns = p.value['gens']['Max']
        solve.prove('path%d:Max:num_steps==max(15,min)' % pi, zi(ns) == z3.If(zi(mn) > 15, zi(mn), z3.IntVal(15)), p.hyps)
    if paths and paths[0].exc is None:
        solve.twin('min_num_steps>rule-length+1', zi(paths[0].value['gens']['Min'][0]) > zi(paths[0].value['num_terms']) + 1, paths[0].hyps)
    return dict(paths={method: len(paths)})


# ------------------------------------------------------------------------------------------------ seq
EPS = float(np.finfo(float).eps)


def spec_default_ratio(n):
    return 2.0 if n == 1 else 1.6


def spec_divisor(method, n, order):
    if method in ('central', 'central2', 'multicomplex'):
        return 2
    if method == 'complex':
        return 4 if (n > 1 or order >= 4) else 2
    return 1


def spec_nominal(x):
    def one(v):
        lg = UF1('log', lift(Fraction(1.718281828459045)) + abs(lift(v)))
        return ite(lg < 1, R(1), lg)
    return emap(one, x) if isinstance(x, np.ndarray) else one(x)


def spec_sequence(kind, opt, x, method, n, order, default_scale):
    """independent closed form (from the class documentation / the property statement)"""
    dflt = dict(base_step=None, step_ratio=None, num_steps=None, step_nom=None, offset=0, num_extrap=0,
                use_exact_steps=True, check_num_steps=True, scale=None)
    if kind == 'Max':
        dflt.update(base_step=2.0, num_steps=15, num_extrap=9, use_exact_steps=False, scale=500)
    if kind == 'C':
        dflt.update(step_ratio=4.0, scale=1.2)
    o = dict(dflt); o.update({k: v for k, v in opt.items() if k not in ('path', 'dtheta')})
    scale = o['scale'] if o['scale'] is not None else default_scale(method, n, order)
    base = o['base_step'] if o['base_step'] is not None else POW(EPS, 1.0 / lift(scale)) if isinstance(scale, R) else EPS ** (1.0 / scale)
    if o['step_nom'] is None:
        nom = spec_nominal(x)
    else:
        nom = emap(lambda v: lift(o['step_nom']), x) if isinstance(x, np.ndarray) else lift(o['step_nom'])
    ratio = o['step_ratio'] if o['step_ratio'] is not None else spec_default_ratio(n)
    if kind == 'C':
        path = opt.get('path', 'radial')
        dth = opt.get('dtheta', np.pi / 8)
        if path[0].lower() != 'r' and dth != 0:
            ratio = UF1('exp', C(R(0), lift(dth))) * ratio if isinstance(dth, R) else np.exp(1j * dth) * ratio
    min_steps = max((n + order - 1) // spec_divisor(method, n, order), 1)
    if kind == 'C':
        if o['num_steps'] is None:
            if isinstance(ratio, (R, C)):
                raise NeedsConcrete('default CStepGenerator count needs a concrete ratio')
            num = 2 * int(np.round(16.0 / np.log(np.abs(ratio)))) + 1
        else:
            num = o['num_steps']
    elif o['num_steps'] is not None:
        num = max(int(o['num_steps']), min_steps) if o['check_num_steps'] else int(o['num_steps'])
    else:
        num = min_steps + int(o['num_extrap'])
    idx = range(num) if kind == 'Max' else range(num - 1, -1, -1)
    sgn = -1 if kind == 'Max' else 1
    steps = []
    for i in idx:
        steps.append(base * nom * (lift(ratio) if not isinstance(ratio, (int, float, complex)) else ratio) ** (sgn * i + o['offset']))
    return steps, ratio


def option_grid(kind, tier):
    base = [None, 'sym']
    ratio = [None, 'sym', 3.0]
    nsteps = [None, 1, 4]
    nom = [None, 'sym']
    offs = [0, 2, -1, 'sym']
    flags = list(itertools.product([True, False], [True, False]))     # use_exact_steps, check_num_steps
    grid = []
    for b, r, ns, nm, of in itertools.product(base, ratio, nsteps, nom, offs):
        for ue, cn in flags:
            if of == 'sym' and (b is None or ue):
                continue
            grid.append(dict(base_step=b, step_ratio=r, num_steps=ns, step_nom=nm, offset=of, use_exact_steps=ue,
                             check_num_steps=cn, num_extrap=(0 if ns is not None else 2)))
    if kind == 'C':
        g2 = []
        for g in grid:
            for path, dth in [('radial', None), ('spiral', None), ('spiral', 'sym'), ('spiral', 0), ('spiral', -0.3)]:
                h = dict(g); h['path'] = path
                if h['step_ratio'] is None:
                    h.pop('step_ratio')        # CStepGenerator has no None default for the ratio (documented default 4.0)
                if dth is not None:
                    h['dtheta'] = dth
                h.pop('num_extrap'); h.pop('check_num_steps')
                if h['num_steps'] is None and (h.get('step_ratio') == 'sym' or dth == 'sym'):
                    continue
                g2.append(h)
        grid = g2[::5] if tier == 'quick' else g2
    elif tier == 'quick':
        grid = grid[::3]
    return grid


def realize(opt):
    """replace 'sym' markers by symbolic values; returns (options for the real class, hypotheses)"""
    out = {}
    hy = []
    for k, v in opt.items():
        if v == 'sym':
            s = real('opt_' + k)
            if k in ('base_step', 'step_nom'):
                hy.append(s.t > 0)
            if k == 'step_ratio':
                hy.append(s.t > 1)
            if k == 'dtheta':
                hy.append(s.t != 0)
            out[k] = s
        else:
            out[k] = v
    return out, hy


def _is_plain_option_test(e):
    """boolean combination of comparisons between option symbols and numerals (no arithmetic): e.g. dtheta != 0"""
    k = e.decl().kind()
    if z3.is_bool(e) and k in (z3.Z3_OP_NOT, z3.Z3_OP_AND, z3.Z3_OP_OR):
        return all(_is_plain_option_test(c) for c in e.children())
    if k in (z3.Z3_OP_EQ, z3.Z3_OP_DISTINCT, z3.Z3_OP_LE, z3.Z3_OP_LT, z3.Z3_OP_GE, z3.Z3_OP_GT):
        ch = e.children()
        atoms = [c for c in ch if z3.is_const(c) and c.decl().kind() == z3.Z3_OP_UNINTERPRETED and c.decl().name().startswith('opt_')]
        nums = [c for c in ch if z3.is_rational_value(c) or z3.is_int_value(c) or z3.is_algebraic_value(c)]
        return len(atoms) >= 1 and len(atoms) + len(nums) == len(ch)
    return False


def run_seq(kind, part, tier):
    m = mods(); sg, lm = m['sg'], m['lm']
    cls = {'Min': sg.MinStepGenerator, 'Max': sg.MaxStepGenerator, 'C': lm.CStepGenerator}[kind]
    info = dict(option_combinations=0)
    cfgs = [('forward', 1, 2), ('central', 2, 4), ('complex', 3, 4), ('multicomplex', 2, 2), ('backward', 4, 1), ('central2', 2, 2)]
    grid = option_grid(kind, tier)
    NATIVE = []
    with installed(sg, lm) as proxy:
        real_default_scale = sg.default_scale
        for gi, opt in enumerate(grid):
            if gi % 4 != part:
                continue
            method, n, order = cfgs[gi % len(cfgs)]
            for xkind in ('scalar', 'array'):
                CTX.reset()
                o, hy = realize(opt)
                x = real('x') if xkind == 'scalar' else SymArr([real('x0'), real('x1')])
                tag = 'opt%d,%s,n=%d,order=%d,%s:' % (gi, method, n, order, xkind)
                if kind != 'C' and o.get('use_exact_steps') and isinstance(o.get('step_ratio'), R):
                    pass

                def run():
                    gen = cls(**o)
                    if kind == 'C':
                        steps = list(gen(x))
                        return steps, gen.step_ratio
                    g = gen.step_generator_function(x, method, n, order)
                    return list(g()), g.step_ratio
                try:
                    if kind == 'C':
                        spec, sratio = spec_sequence(kind, o, x, 'forward', 1, 2, real_default_scale)
                    else:
                        spec, sratio = spec_sequence(kind, o, x, method, n, order, real_default_scale)
                except NeedsConcrete:
                    continue
                forced = None
                if len(spec) > 6 or (kind == 'C' and (isinstance(o.get('dtheta'), R) or isinstance(o.get('step_ratio'), R))):
                    # long or complex symbolic sequences: assume no generated step is zero (zero-dropping is covered by
                    # the loop group and by the short real-valued sequences); avoids 2^K paths through |step| > 0
                    def forced(cond):
                        if _is_plain_option_test(cond):
                            return None          # a comparison of an option with a constant: left to the path driver
                        return True
                try:
                    paths = explore(run, pre=hy, max_paths=64, forced=forced)
                except NeedsConcrete as e:
                    solve.record(tag + 'runs', 'unknown', 'NeedsConcrete', 0.0, None, 'vc', reason=str(e)[:200])
                    continue
                info['option_combinations'] += 1
                # engine cross-check: the symbolic run evaluated at a concrete point == the real generator run natively there
                if gi % 3 == 0:
                    vals = dict(base_step=Fraction(1, 8), step_ratio=Fraction(5, 2), step_nom=Fraction(3, 2), offset=Fraction(1), dtheta=Fraction(2, 5),
                                scale=Fraction(2), num_extrap=Fraction(2))
                    asg = {'x': Fraction(7, 10), 'x0': Fraction(3, 10), 'x1': Fraction(20)}
                    o_nat = {}
                    for k_, v_ in o.items():
                        if isinstance(v_, R):
                            asg['opt_' + k_] = vals.get(k_, Fraction(3, 2)); o_nat[k_] = float(asg['opt_' + k_])
                        else:
                            o_nat[k_] = v_
                    x_nat = 0.7 if xkind == 'scalar' else np.array([0.3, 20.0])

                    def native(o_nat=o_nat, x_nat=x_nat, method=method, n=n, order=order):
                        gen = cls(**o_nat)
                        if kind == 'C':
                            return list(gen(x_nat)), gen.step_ratio
                        g = gen.step_generator_function(x_nat, method, n, order)
                        return list(g()), g.step_ratio
                    NATIVE.append((tag, paths, asg, native))
                full = [p for p in paths if p.exc is None and len(p.value[0]) == len(spec)]
                solve.fact(tag + 'no-exception', all(p.exc is None for p in paths), note=str([repr(p.exc) for p in paths if p.exc][:1]))
                solve.fact(tag + 'a-path-yields-all-%d-steps' % len(spec), len(full) >= 1)
                for pi, p in enumerate(paths):
                    if p.exc is not None:
                        continue
                    got, gratio = p.value
                    if len(got) == len(spec):
                        for k, (gk, sk) in enumerate(zip(got, spec)):
                            ga, sa = asobj(gk), asobj(sk)
                            solve.fact(tag + 'path%d:step%d:shape-broadcastable-to-x' % (pi, k), ga.shape in ((), np.shape(x)))
                            gb = np.broadcast_to(ga, np.shape(x)) if np.shape(x) else ga
                            sb = np.broadcast_to(sa, np.shape(x)) if np.shape(x) else sa
                            for e, (u, v) in enumerate(zip(gb.ravel(), sb.ravel())):
                                pu, pv = parts(C.lift(lift(u))), parts(C.lift(lift(v)))
                                solve.prove(tag + 'path%d:step%d[%d]==closed-form' % (pi, k, e),
                                            z3.And(*[a == b for a, b in zip(pu, pv)]), p.hyps)
                        pr, ps_ = parts(C.lift(lift(gratio))), parts(C.lift(lift(sratio)))
                        solve.prove(tag + 'path%d:reported-step_ratio' % pi, z3.And(*[a == b for a, b in zip(pr, ps_)]), p.hyps)
                    else:
                        # fewer steps: only because a step with a zero element was dropped
                        solve.prove(tag + 'path%d:fewer-steps-only-when-some-step-is-zero' % pi,
                                    z3.Or(*[z3.Or(*[z3.And(*[t == 0 for t in parts(lift(e))]) for e in asobj(sk).ravel()]) for sk in spec]),
                                    p.hyps)
    from ndvc import xcheck
    for tag, paths, asg, native in NATIVE:
        xcheck.check(tag + 'engine==CPython', paths, asg, native, rtol=5e-3)     # make_exact ((h+1)-1) is the identity only in exact arithmetic
    return info


# ------------------------------------------------------------------------------------------------ loop cut
def run_loop():
    sg = mods()['sg']
    with installed(sg):
        pre_f, it_f, post_f, names, text = cut.split(sg.BasicMaxStepGenerator.__call__, 0)
        for clsname, sgn in (('BasicMaxStepGenerator', -1), ('BasicMinStepGenerator', 1)):
            cls = getattr(sg, clsname)
            for xkind in ('scalar', 'array'):
                for offkind in ('int', 'sym'):
                    CTX.reset()
                    base = real('b') if xkind == 'scalar' else SymArr([real('b0'), real('b1')])
                    ratio = real('r')
                    off = 2 if offkind == 'int' else real('off')
                    gen = cls(base_step=base, step_ratio=ratio, num_steps=5, offset=off)
                    tag = '%s,%s,offset-%s:' % (clsname, xkind, offkind)
                    g = pre_f(gen)
                    if isinstance(g, tuple):
                        loc, rng = g
                    else:
                        try:
                            next(g)
                            solve.fact(tag + 'prefix-yields-nothing', False)
                            continue
                        except StopIteration as e:
                            loc, rng = e.value
                    solve.fact(tag + 'sign-table', loc['sgn'] == sgn)
                    solve.fact(tag + 'iteration-order', list(rng) == (list(range(5)) if sgn == -1 else [4, 3, 2, 1, 0]))
                    i = integer('i')

                    def run():
                        args = {k: loc.get(k) for k in names}
                        args['i'] = i
                        gi = it_f(**args)
                        ys = []
                        try:
                            while True:
                                ys.append(next(gi))
                        except StopIteration as e:
                            return ys, e.value
                    paths = explore(run, pre=[i.t >= 0, ratio.t > 1])
                    solve.fact(tag + 'iteration-has-2-paths(yield/drop)', len(paths) == 2, note='%d' % len(paths))
                    for pi, p in enumerate(paths):
                        if p.exc is not None:
                            solve.fact(tag + 'path%d:no-exception' % pi, False, note=repr(p.exc)); continue
                        ys, (tg, l2) = p.value
                        spec = base * ratio ** (sgn * i + off)
                        sel = asobj(spec).ravel()
                        nonzero = z3.And(*[lift(e).t != 0 for e in sel])
                        if ys:
                            solve.fact(tag + 'path%d:yields-exactly-one-step' % pi, len(ys) == 1)
                            for e, (u, v) in enumerate(zip(asobj(ys[0]).ravel(), sel)):
                                solve.prove(tag + 'path%d:step[%d]==base*ratio**(sgn*i+offset)' % (pi, e), lift(u).t == lift(v).t, p.hyps)
                            solve.prove(tag + 'path%d:yielded-only-if-no-zero-element' % pi, nonzero, p.hyps)
                        else:
                            solve.prove(tag + 'path%d:dropped-only-if-some-element-is-zero' % pi, z3.Not(nonzero), p.hyps)
    return dict(cut_text=text[:800])


def run_exact():
    m = mods(); sg, fd = m['sg'], m['fd']
    with installed(sg, fd):
        for mod, nm in ((sg, 'step_generators'), (fd, 'finite_difference')):
            h = real('h')
            solve.prove('%s.make_exact(h)==h' % nm, lift(mod.make_exact(h)).t == h.t, [])
            ha = SymArr([real('h0'), real('h1')])
            out = mod.make_exact(ha)
            solve.prove('%s.make_exact(array)==array' % nm, z3.And(*[lift(u).t == v.t for u, v in zip(out, ha)]), [])
            z = cplx('z')
            out = mod.make_exact(z)
            solve.prove('%s.make_exact(complex)==complex' % nm, z3.And(out.re.t == z.re.t, out.im.t == z.im.t), [])
    return {}


def spec_scale(method, n, order):
    """independent model of the default scale per (method, n, order) (transcribed once from the pinned source; the property
    makes the table part of the documented defaults)"""
    high = n > 1 or order >= 4
    half = max(order // 2 - 1, 0)                       # orders 1, 2, 3 -> 0;  4, 5 -> 1;  6, 7 -> 2; ...
    q, r = divmod(n, 4)
    c = [q * (10 + (1.5 if n > 10 else 0)), 3.65 + q * (5 + 1.5 ** q), 3.65 + q * (5 + 1.7 ** q), 7.30 + q * (5 + 2.1 ** q)][r] if high else 0
    base = {'multicomplex': 1.06, 'complex': 1.06 + c}.get(method, 2.5)
    per_n = {'multicomplex': 0.0, 'complex': 0.0}.get(method, 1.3)
    per_order = {'central': 3, 'forward': 2, 'backward': 2}.get(method, 0)
    return base + (n - 1) * per_n + half * per_order


def run_scale(tier):
    from .common import defaults_facts
    defaults_facts(['step_generators.MinStepGenerator.__init__', 'step_generators.MaxStepGenerator.__init__', 'limits.CStepGenerator.__init__'])
    sg = mods()['sg']
    rng = range(1, 11)
    badt = [(m_, n_, o_, sg.default_scale(m_, n_, o_), spec_scale(m_, n_, o_)) for m_ in METHODS + ['central2'] for n_ in range(1, 13) for o_ in range(1, 11)
            if abs(sg.default_scale(m_, n_, o_) - spec_scale(m_, n_, o_)) > 1e-12]
    solve.fact('default_scale==documented-table[6 methods x n 1..12 x order 1..10]', not badt, note=str(badt[:3]))
    for method in METHODS:
        ok = True
        bad = None
        for n in rng:
            for order in rng:
                s = sg.default_scale(method, n, order)
                g = sg.MinStepGenerator()
                g._state = sg._STATE(np.asarray(1), method, n, order)
                if not (s > 0 and g.scale == s and g.base_step == EPS ** (1. / s)):
                    ok = False; bad = (n, order, s)
        solve.fact('default_scale>0-and-base_step==EPS**(1/scale)[%s,n,order in 1..10]' % method, ok, note=str(bad))
    g = sg.MinStepGenerator(scale=3.0)
    solve.fact('user-scale-overrides-default', g.scale == 3.0 and g.base_step == EPS ** (1 / 3.0))
    # one generator object used for several (method, n, order): every sequence is the one a fresh generator yields (defaults that
    # depend on n -- ratio 2 for n = 1 else 1.6, scale, count -- are recomputed per call, nothing is frozen at the first use)
    lm = mods()['lm']
    calls = [('forward', 1, 2), ('central', 3, 4), ('complex', 1, 2), ('central', 2, 2), ('forward', 1, 2), ('complex', 4, 4), ('backward', 1, 1),
             ('central', 4, 2), ('complex', 2, 4), ('forward', 3, 2), ('central', 1, 4)]        # same (method, order), another n
    for cname, mk in (('Min', lambda: sg.MinStepGenerator()), ('Min(num_steps=5)', lambda: sg.MinStepGenerator(num_steps=5)), ('Max', lambda: sg.MaxStepGenerator()),
                      ('Min(base_step=0.01)', lambda: sg.MinStepGenerator(base_step=0.01, num_extrap=2)),
                      ('Min(base_step=array-per-coordinate)', lambda: sg.MinStepGenerator(base_step=np.array([0.01, 0.02]), num_steps=3))):
        for xv in (0.7, np.array([0.3, -20.0])):
            if 'array-per-coordinate' in cname and np.ndim(xv) == 0:
                continue
            for order_of_calls in (calls, calls[::-1]):
                shared = mk()
                bad = None
                for (m_, n_, o_) in order_of_calls:
                    got = [np.asarray(s_) for s_ in shared(xv, m_, n_, o_)]
                    want = [np.asarray(s_) for s_ in mk()(xv, m_, n_, o_)]
                    g2 = shared.step_generator_function(xv, m_, n_, o_)
                    if len(got) != len(want) or not all(np.array_equal(a_, b_) for a_, b_ in zip(got, want)) or g2.step_ratio != mk().step_generator_function(xv, m_, n_, o_).step_ratio:
                        bad = (m_, n_, o_, [float(np.ravel(a_)[0]) for a_ in got[:3]], [float(np.ravel(b_)[0]) for b_ in want[:3]])
                        break
                solve.fact('reused-generator==fresh-generator:%s,x=%s,%s' % (cname, 'scalar' if np.ndim(xv) == 0 else 'array', 'forward-order' if order_of_calls is calls else 'reverse-order'),
                           bad is None, note=str(bad)[:300])
    # the caller's own array given as base_step is neither modified nor accumulated into
    user = np.array([0.01, 0.02]); keep = user.copy()
    gq = sg.MinStepGenerator(base_step=user, num_steps=3)
    first = [np.array(s_) for s_ in gq(np.array([0.3, -20.0]), 'forward', 1, 2)]
    second = [np.array(s_) for s_ in gq(np.array([0.3, -20.0]), 'forward', 1, 2)]
    solve.fact('array-base_step:the-caller-array-is-unchanged-and-a-second-call-yields-the-same-steps', np.array_equal(user, keep) and
               all(np.array_equal(a_, b_) for a_, b_ in zip(first, second)), note=str((user.tolist(), [a_.tolist() for a_ in second[:1]])))
    g = sg.MaxStepGenerator()
    solve.fact('Max-defaults(base_step=2,num_steps=15,use_exact_steps=False)', g.base_step == 2.0 and g._num_steps == 15 and g.use_exact_steps is False)
    return {}


def run_intx():
    """integer-typed x (python int, integer ndarray): the generated steps are those of the same x given as floats
    (object arrays hide dtype truncation, so this is executed on concrete data)"""
    m = mods(); sg, lm = m['sg'], m['lm']
    bad = []
    cnt = 0
    for cls in (sg.MinStepGenerator, sg.MaxStepGenerator, lm.CStepGenerator):
        for opt in [dict(), dict(step_nom=1.5), dict(step_nom=0.25, base_step=0.5), dict(step_nom=2.75, num_steps=4), dict(base_step=0.125, step_ratio=3.0)]:
            for xi in (3, np.array([1, 2, 7]), np.int64(5), np.array([[1, 2], [3, 40]])):
                xf = np.asarray(xi, dtype=float)
                cnt += 1
                try:
                    if cls is lm.CStepGenerator:
                        a = list(cls(**opt)(xi)); b = list(cls(**opt)(xf))
                    else:
                        a = list(cls(**opt)(xi, 'central', 2, 2)); b = list(cls(**opt)(xf, 'central', 2, 2))
                except Exception as e:
                    bad.append((cls.__name__, opt, repr(e)[:60])); continue
                if len(a) != len(b) or not all(np.array_equal(np.asarray(u, dtype=complex), np.asarray(v, dtype=complex)) for u, v in zip(a, b)):
                    bad.append((cls.__name__, opt, str(xi)[:20], [np.asarray(u).tolist() for u in a[:2]], [np.asarray(v).tolist() for v in b[:2]]))
    solve.fact('integer-typed-x-gives-the-same-steps-as-the-same-x-in-floating-point[%d cases]' % cnt, not bad, kind='bounded', note=str(bad[:2]))
    return {}


def run_group(args):
    if args[0] == 'intx':
        return run_intx()
    if args[0] == 'count':
        return run_count(args[1])
    if args[0] == 'count-hd':
        return run_count(args[1], hessdiag=True)
    if args[0] == 'seq':
        return run_seq(args[1], args[2], args[3])
    return {'loop': run_loop, 'exact': run_exact}[args[0]]() if args[0] != 'scale' else run_scale(args[1])


def replay_case(ob):
    import re
    nm = ob['name']
    mm = re.search(r'seq\[(\w+),(\d+)\]/opt(\d+),(\w+),n=(\d+),order=(\d+),(\w+):', nm)
    if nm.startswith('integer-x/'):
        return dict(kind='C10.intx')
    if mm and mm.group(1) == 'C':
        return dict(kind='C10.cseq', opt_index=int(mm.group(3)))
    if mm:
        return dict(kind='C10.seq', cls=mm.group(1), opt_index=int(mm.group(3)), method=mm.group(4), n=int(mm.group(5)),
                    order=int(mm.group(6)), tier='quick')
    mm = re.search(r'count\[(?:Hessdiag,)?(\w+)\]', nm)
    if mm:
        mdl = ob.get('model') or {}
        return dict(kind='C10.count', method=mm.group(1), hessdiag='Hessdiag' in nm, n=mdl.get('n'), order=mdl.get('order'))
    if 'reused-generator==fresh-generator' in nm or 'array-base_step:' in nm:
        return dict(kind='C10.reuse')
    if nm.startswith('loop/'):
        return dict(kind='C10.seq', cls='Max' if 'Max' in nm else 'Min', opt_index=None, method='forward', n=1, order=2)
    return dict(kind='C10.misc')
