"""C11 -- misuse fails loudly with ValueError instead of returning numbers.

Exceptional postconditions ("on every path the call ends in ValueError and returns nothing"):
  guard    Derivative._raise_error_if_any_is_complex(x, f_x) on symbolic complex arrays: raises ValueError IFF some
           imaginary part of x or of f_x is non-zero (both directions, every path)
  classes  for Derivative, Gradient, Jacobian, Hessdiag, Hessian x {complex, multicomplex}: the real _derivative(...) with a
           symbolic x whose imaginary part is non-zero (and, separately, a complex-valued f) ends in ValueError on every
           path; plus the concrete matrix classes x methods x {complex x, complex f, both} x n x full_output x fresh /
           re-configured object
  sizes    both _vstack's raise ValueError when fun returns the wrong number of values
  n>2      LogRule(method='multicomplex').diff raises ValueError for every integer n > 2 (symbolic n), also when the
           configuration is reached through the setters
  steps    LogRule._apply raises ValueError whenever the step table has no more rows than the rule needs
  others   directionaldiff size mismatch, fd_weights(_all)/fd_derivative length guards, Residue with order <= pole_order
           (symbolic integers), unknown Limit path
"""
import itertools
import warnings
import numpy as np
import z3
from ndvc import solve
from ndvc.sym import R, C, Z, real, cplx, integer, lift, CTX, explore, NeedsConcrete
from ndvc.arr import SymArr, asobj
from ndvc.overlay import installed
from .common import mods, fd_env, ALL

ID = 'C11'
TRUSTED = ['A2 object arrays == float arrays (np.iscomplex on symbolic data == "imaginary part != 0")',
           'exception types are discrete: the concrete misuse matrix replays exactly',
           'z3 as decider of the path conditions']
ASSUMPTIONS = ['"complex x" means some element has a non-zero imaginary part (numpy.iscomplex semantics)']
NOT_DECIDED = []
BOUNDED = ['shape / size misuse is enumerated over small concrete shapes (sizes are concrete in numpy)']
QUANTIFIED = 'real and imaginary parts of x and of f(x), n (multicomplex), order and pole_order (Residue): universally quantified'


def enumerated(tier):
    return '5 classes x {complex, multicomplex} x {complex x, complex f, both} x dims {1,2,3} x n {1,2,4} x full_output x {fresh, reconfigured}'


def groups(tier):
    return [('guard', ('guard',)), ('classes-symbolic', ('classes',)), ('matrix', ('matrix',)), ('sizes', ('sizes',)),
            ('multicomplex-n', ('mcn',)), ('steps', ('steps',)), ('others', ('others',))]


def functions_under_contract():
    m = mods(); core, fd, lm, fb = m['core'], m['fd'], m['lm'], m['fb']
    return [core.Derivative._raise_error_if_any_is_complex, core.Derivative._eval_first, core.Derivative._derivative_nonzero_order,
            core.Jacobian._derivative_nonzero_order, fd.LogRule._vstack, fd.LogJacobianRule._vstack, lm._Limit._vstack,
            fd.LogRule._multicomplex_middle_name, fd.LogRule._apply, core.directionaldiff, fb.fd_weights_all, fb.fd_derivative,
            lm.Residue.__init__, lm.CStepGenerator._check_path]


def run_guard():
    with fd_env(names=ALL) as m:
        core = m['core']
        d = core.Derivative(lambda x: x, method='complex')
        for shape in [(), (2,), (2, 2)]:
            def mk(nm):
                if shape == ():
                    return cplx(nm)
                a = np.empty(shape, dtype=object)
                for k, idx in enumerate(np.ndindex(shape)):
                    a[idx] = cplx('%s%d' % (nm, k))
                return a.view(SymArr)
            x, fx = mk('x'), mk('f')
            ims_x = [C.lift(lift(v)).im.t for v in asobj(x).ravel()]
            ims_f = [C.lift(lift(v)).im.t for v in asobj(fx).ravel()]
            anyc = z3.Or(*[t != 0 for t in ims_x + ims_f])
            paths = explore(lambda: d._raise_error_if_any_is_complex(x, fx), catch=(Exception,))
            solve.fact('guard%s:paths>=2' % (shape,), len(paths) >= 2, note='%d' % len(paths))
            for pi, p in enumerate(paths):
                if p.exc is None:
                    solve.prove('guard%s:path%d:returns-only-when-x-and-f(x)-are-real' % (shape, pi), z3.Not(anyc), p.hyps)
                else:
                    solve.fact('guard%s:path%d:raises-ValueError' % (shape, pi), isinstance(p.exc, ValueError), note=repr(p.exc)[:100])
                    solve.prove('guard%s:path%d:raises-only-when-something-is-complex' % (shape, pi), anyc, p.hyps)
    return {}


class Gen(object):
    step_ratio = 2.0

    def __init__(self, d, K=6):
        self.d, self.K = d, K

    def step_generator_function(self, x, method='forward', n=1, order=2):
        return self

    def __call__(self):
        return iter([SymArr([real('h_%d_%d' % (i, j)) for j in range(self.d)]) for i in range(self.K)])


def run_classes():
    with fd_env(names=ALL) as m:
        core, mc = m['core'], m['mc']
        dd = 2
        for klass in ['Derivative', 'Jacobian', 'Gradient', 'Hessdiag', 'Hessian']:
            K = getattr(core, klass)
            for method in ['complex', 'multicomplex']:
                for misuse in ['complex-x', 'complex-f']:
                    CTX.reset()
                    tag = '%s,%s,%s:' % (klass, method, misuse)

                    def f(z, *a, **k):
                        if isinstance(z, mc.Bicomplex):
                            raise NeedsConcrete('evaluation reached the difference quotient')
                        zz = asobj(z).ravel()
                        if misuse == 'complex-f':
                            val = C(real('fr'), real('fi'))
                        else:
                            val = real('fr')
                        if klass == 'Derivative':
                            return SymArr([val for _ in zz])
                        if klass == 'Jacobian':
                            return SymArr([val, val])
                        return val
                    if misuse == 'complex-x':
                        x = SymArr([C(real('x%d' % j), real('y%d' % j)) for j in range(dd)])
                        pre = [z3.Or(*[z3.Real('y%d' % j) != 0 for j in range(dd)])]
                    else:
                        x = SymArr([real('x%d' % j) for j in range(dd)])
                        pre = [z3.Real('fi') != 0]
                    kw = dict(step=Gen(dd), method=method)
                    with warnings.catch_warnings():
                        warnings.simplefilter('ignore')
                        try:
                            obj = K(f, **kw)
                        except ValueError as e:
                            solve.fact(tag + 'constructor-rejects', True, note=str(e)[:80])
                            continue
                        reached = []

                        def run():
                            try:
                                return obj._derivative(x, (), {})
                            except NeedsConcrete:
                                reached.append(1)
                                return 'REACHED-DIFFERENCE-QUOTIENT'
                        paths = explore(run, pre=pre, catch=(Exception,), max_paths=64)
                    ok = len(paths) >= 1 and all(isinstance(p.exc, ValueError) for p in paths)
                    solve.fact(tag + 'every-path-ends-in-ValueError', ok,
                               note=str([(repr(p.exc)[:80] if p.exc else str(p.value)[:40]) for p in paths if not isinstance(p.exc, ValueError)][:2]))
    return {}


def run_matrix():
    import numdifftools as nd
    cnt = 0
    fails = []
    with warnings.catch_warnings():
        warnings.simplefilter('ignore')
        for klass in ['Derivative', 'Jacobian', 'Gradient', 'Hessdiag', 'Hessian']:
            K = getattr(nd, klass)
            for method in ['complex', 'multicomplex']:
                for misuse in ['complex-x', 'complex-f', 'both']:
                    for dim in (1, 2, 3):
                        for n in ((1, 2, 4, 8) if klass == 'Derivative' else (None,)):
                            if method == 'multicomplex' and n is not None and n > 2:
                                continue
                            for full in (False, True):
                                for hist in ('fresh', 'reconfigured'):
                                    def f(z):
                                        s = np.sum(z * z) if klass in ('Gradient', 'Hessdiag', 'Hessian') else z * z
                                        return s * (1 + 0.5j) if misuse in ('complex-f', 'both') else s
                                    # (a small imaginary part is still an imaginary part: 1e-14 is above the default complex step)
                                    imx = 1e-14j if (dim == 2 and full) else 0.5j
                                    x = np.arange(1.0, dim + 1) + (imx if misuse in ('complex-x', 'both') else 0)
                                    if klass == 'Derivative' and dim == 1:
                                        x = x[0]
                                    kw = dict(method=method if hist == 'fresh' else 'central', full_output=full)
                                    if n is not None:
                                        kw['n'] = n
                                    cnt += 1
                                    try:
                                        obj = K(f, **kw)
                                        if hist == 'reconfigured':
                                            obj.method = method
                                        out = obj(x)
                                        fails.append((klass, method, misuse, dim, n, full, hist, 'returned'))
                                    except ValueError:
                                        pass
                                    except Exception as e:
                                        fails.append((klass, method, misuse, dim, n, full, hist, type(e).__name__))
    by = {}
    for fl in fails:
        by.setdefault(fl[0], []).append(fl)
    for klass in ['Derivative', 'Jacobian', 'Gradient', 'Hessdiag', 'Hessian']:
        solve.fact('matrix:%s:every-misuse-raises-ValueError' % klass, klass not in by, note=str(by.get(klass, [])[:3]))
    return dict(matrix_cases=cnt)


def run_sizes():
    m = mods(); fd, lm = m['fd'], m['lm']
    cases = 0
    for nm, vs in [('LogRule._vstack', fd.LogRule._vstack), ('_Limit._vstack', lm._Limit._vstack),
                   ('LogJacobianRule._vstack', fd.LogJacobianRule()._vstack)]:
        bad = []
        for a, b in itertools.product([1, 2, 3, 4], [1, 2, 3, 4]):
            if a == b:
                continue
            cases += 1
            seq = [np.ones(a), np.ones(a)]
            steps = [np.ones(b) * 0.5, np.ones(b) * 0.25]
            if nm.startswith('LogJacobian'):
                seq = [np.ones((3, a)), np.ones((3, a))]; steps = [np.ones((3, b)), np.ones((3, b))]
            try:
                vs(seq, steps)
                if not (a == 1 or b == 1) or nm.startswith('LogJacobian'):
                    bad.append((a, b, 'returned'))
            except ValueError:
                pass
            except Exception as e:
                bad.append((a, b, type(e).__name__))
        solve.fact('sizes:%s:size-mismatch-raises-ValueError' % nm, not bad, note=str(bad[:3]))
    # through the public classes: a function that is not vectorised
    import numdifftools as nd
    with warnings.catch_warnings():
        warnings.simplefilter('ignore')
        for method in ('central', 'forward', 'complex'):
            try:
                nd.Derivative(lambda x: np.array([1.0, 2.0, 3.0]), method=method)(np.array([1.0, 2.0]))
                solve.fact('sizes:Derivative(%s)-non-vectorised-fun-raises-ValueError' % method, False)
            except ValueError:
                solve.fact('sizes:Derivative(%s)-non-vectorised-fun-raises-ValueError' % method, True)
            except Exception as e:
                solve.fact('sizes:Derivative(%s)-non-vectorised-fun-raises-ValueError' % method, False, note=repr(e)[:100])
        # the n == 0 path (f itself) goes through the same size check
        for method in ('central', 'complex'):
            for nm_, f_ in (('np.sum', lambda x: np.sum(x ** 2)), ('first-two', lambda x: x[:2] ** 2)):
                for how in ('constructor', 'setter'):
                    try:
                        d = nd.Derivative(f_, method=method, n=0 if how == 'constructor' else 1)
                        d.n = 0
                        out = d(np.array([1.0, 2.0, 3.0]))
                        solve.fact('sizes:Derivative(%s,n=0 by %s),fun=%s-raises-ValueError' % (method, how, nm_), False, note='returned %r' % (out,))
                    except ValueError:
                        solve.fact('sizes:Derivative(%s,n=0 by %s),fun=%s-raises-ValueError' % (method, how, nm_), True)
                    except Exception as e:
                        solve.fact('sizes:Derivative(%s,n=0 by %s),fun=%s-raises-ValueError' % (method, how, nm_), False, note=repr(e)[:100])
    return dict(size_cases=cases)


def run_mcn():
    m = mods(); fd = m['fd']
    with installed(fd):
        for cls in ('LogRule', 'LogJacobianRule'):
            def run():
                n = integer('n')
                return getattr(fd, cls)(n=n, method='multicomplex', order=2).diff
            paths = explore(run, pre=[z3.Int('n') >= 3], catch=(Exception,))
            solve.fact('multicomplex-n:%s:n>2-raises-ValueError-on-every-path' % cls,
                       len(paths) >= 1 and all(isinstance(p.exc, ValueError) for p in paths),
                       note=str([repr(p.exc)[:60] if p.exc else 'returned' for p in paths][:3]))
            paths = explore(run, pre=[z3.Int('n') >= 1, z3.Int('n') <= (2 if cls == 'LogRule' else 1)], catch=(Exception,))
            solve.fact('multicomplex-n:%s:n<=2-accepted' % cls, len(paths) >= 1 and all(p.exc is None for p in paths))
    import numdifftools as nd
    with warnings.catch_warnings():
        warnings.simplefilter('ignore')
        seqs = [('ctor', lambda: nd.Derivative(np.exp, method='multicomplex', n=3)(1.0)),
                ('n-setter', lambda: _set(nd.Derivative(np.exp, method='multicomplex', n=2), n=3)(1.0)),
                ('method-setter', lambda: _set(nd.Derivative(np.exp, method='central', n=3), method='multicomplex')(1.0)),
                ('n-setter-after-call', lambda: _set(_called(nd.Derivative(np.exp, method='multicomplex', n=1), 1.0), n=4)(1.0))]
        for nm, fn in seqs:
            try:
                fn()
                solve.fact('multicomplex-n:Derivative:%s:raises-ValueError' % nm, False, note='returned a number')
            except ValueError:
                solve.fact('multicomplex-n:Derivative:%s:raises-ValueError' % nm, True)
            except Exception as e:
                solve.fact('multicomplex-n:Derivative:%s:raises-ValueError' % nm, False, note=repr(e)[:100])
    return {}


def _set(obj, **kw):
    for k, v in kw.items():
        setattr(obj, k, v)
    return obj


def _called(obj, x):
    obj(x)
    return obj


def run_steps():
    m = mods(); fd = m['fd']
    cnt = 0
    bad = []
    for method in ['central', 'forward', 'backward', 'complex']:
        for n in (1, 2, 3, 5):
            for order in (1, 2, 4, 6):
                rule = fd.LogRule(n=n, method=method, order=order)
                T = rule.rule(2.0).size
                for K in range(1, T + 2):
                    cnt += 1
                    fdel = np.ones((K, 2)); h = 0.5 ** np.arange(K)[:, None] * np.ones((K, 2))
                    try:
                        rule._apply(fdel, h, 2.0)
                        if K < T:
                            bad.append((method, n, order, K, T, 'returned'))
                    except ValueError:
                        if K >= T:
                            bad.append((method, n, order, K, T, 'raised although enough steps'))
                    except Exception as e:
                        bad.append((method, n, order, K, T, type(e).__name__))
    solve.fact('steps:_apply-raises-ValueError-iff-fewer-rows-than-the-rule-needs', not bad, note=str(bad[:3]))
    return dict(step_cases=cnt)


def run_others():
    import numdifftools as nd
    m = mods(); lm, fb = m['lm'], m['fb']
    with warnings.catch_warnings():
        warnings.simplefilter('ignore')
        bad = []
        for a, b in [(2, 3), (3, 2), (1, 2), (4, 1), (6, 4)]:
            try:
                nd.directionaldiff(lambda x: np.sum(x ** 2), np.ones(a), np.ones(b))
                bad.append((a, b))
            except ValueError:
                pass
            except Exception as e:
                bad.append((a, b, type(e).__name__))
        solve.fact('others:directionaldiff-size-mismatch-raises-ValueError', not bad, note=str(bad))
        bad = []
        for xs, n in [([0.0], 1), ([0.0, 1.0], 2), ([0.0, 1.0, 2.0], 5)]:
            for fn in (fb.fd_weights_all, fb.fd_weights):
                try:
                    fn(np.array(xs), 0.0, n); bad.append((fn.__name__, len(xs), n))
                except ValueError:
                    pass
        for fx, x, n in [(np.ones(3), np.arange(3.0), 3), (np.ones(4), np.arange(5.0), 1), (np.ones(10), np.arange(12.0), 1), (np.ones(12), np.arange(10.0), 1),
                         (np.ones(9), np.arange(12.0), 2)]:
            try:
                fb.fd_derivative(fx, x, n); bad.append(('fd_derivative', len(fx), len(x), n))
            except ValueError:
                pass
        solve.fact('others:fd_weights/fd_derivative-length-guards-raise-ValueError', not bad, note=str(bad))
        bad = []
        for path in ['xyz', 'Spiral', 'RADIAL', 'circle', 's', 'straight', 'random', 'ray', 'radial ', ' spiral', 'spiral2', 'r', '', None, 5]:
            try:
                lm.CStepGenerator(path=path); bad.append(path)
            except ValueError:
                pass
            except Exception as e:
                bad.append((path, type(e).__name__))
            try:
                lm.Limit(np.sin, path=path); bad.append(('Limit', path))
            except ValueError:
                pass
            except Exception as e:
                bad.append(('Limit', path, type(e).__name__))
        solve.fact('others:unknown-Limit-path-raises-ValueError', not bad, note=str(bad))
    # Residue: order <= pole_order for ALL integers
    with installed(lm):
        def run():
            return lm.Residue(np.sin, order=integer('order'), pole_order=integer('pole'))
        paths = explore(run, pre=[z3.Int('order') <= z3.Int('pole'), z3.Int('pole') >= 1], catch=(Exception,))
        solve.fact('others:Residue(order<=pole_order)-raises-ValueError-on-every-path',
                   len(paths) >= 1 and all(isinstance(p.exc, ValueError) for p in paths),
                   note=str([repr(p.exc)[:60] if p.exc else 'returned' for p in paths][:3]))
        paths = explore(run, pre=[z3.Int('order') > z3.Int('pole'), z3.Int('pole') >= 1], catch=(Exception,))
        solve.fact('others:Residue(order>pole_order)-accepted', len(paths) >= 1 and all(p.exc is None for p in paths),
                   note=str([repr(p.exc)[:80] for p in paths if p.exc][:2]))
    return {}


def run_group(args):
    return {'guard': run_guard, 'classes': run_classes, 'matrix': run_matrix, 'sizes': run_sizes, 'mcn': run_mcn,
            'steps': run_steps, 'others': run_others}[args[0]]()


def replay_case(ob):
    nm = ob['name']
    klass = None
    for k in ['Derivative', 'Jacobian', 'Gradient', 'Hessdiag', 'Hessian']:
        if k in nm:
            klass = k
    return dict(kind='C11.misuse', group=nm.split('/')[0], klass=klass)
