"""C12 -- Bicomplex numbers implement the holomorphic extension of every function.

Spec function (idempotent decomposition, from the property):  for zeta = z1 + j z2, u = z1 - i z2, v = z1 + i z2,
    F(zeta) = (f(u) + f(v))/2 + j * i (f(u) - f(v))/2 .
The real methods of multicomplex.Bicomplex are executed on symbolic complex z1, z2 (four reals); complex elementary
functions are uninterpreted, constrained by axiom INSTANCES of textbook identities (trusted mathematics M1-M3).
  ring     + - * neg conjugate, mixed operands, reflected operators: exact polynomial identities, no axioms
  entire   exp, sin, cos, sinh, cosh, expm1: both components equal the spec (M1: addition theorems, parity, cos(iz)=cosh z,
           sin(iz)=i sinh z, exp(iz)=cos z+i sin z, expm1 z = exp z - 1)
  log      log (and log1p) on the neighbourhood of the positive axis (Re u > 0, Re v > 0): both components equal the spec
           (M2: sqrt w = exp(log(w)/2), log exp y = y, log(ab) = log a + log b, arctan t = (log(1+it) - log(1-it))/2i)
  compose  every derived method (tan ... csch, exp2, log2, log10, sqrt, division, powers, rpow, arcsin ... arctanh) IS the
           composition M3 of the methods verified above: executed with those methods replaced by tracing stubs and compared
           with the definition, so a swapped operand or wrong sign fails here while a defect in log fails only in `log`
  consumers the four _multicomplex/_multicomplex2 difference functions evaluate f at Bicomplex(x + ih, 0) / (x + ih, h) and
           return imag / imag12; with f the generic polynomial these are exactly h f'(x) + O(h^3), h^2 f''(x) + O(h^4)
  branch   (bounded stand-in, NOT counted as proved) the sign / pi bookkeeping of _arg_c away from the positive axis and the
           zero-divisor fix-up of __pow__: concrete sampling against numpy's complex functions
"""
import math
from fractions import Fraction
import numpy as np
import z3
from ndvc import solve, xcheck
from ndvc.sym import R, C, real, cplx, lift, CTX, explore, NeedsConcrete, UF1, ceq, parts
from ndvc.arr import SymArr, asobj, wrap
from ndvc.overlay import installed, NpProxy
from .common import mods, fd_env, taylor_poly

ID = 'C12'
TRUSTED = [
    'A1 float == real; A2 object arrays == float arrays; multicomplex._TINY (denormal regulariser in log/_arg_c) set to 0',
    'M1 complex sin/cos/sinh/cosh/exp addition theorems and parity, cos(iz)=cosh z, sin(iz)=i sinh z, '
    'exp(iz)=cos z+i sin z, expm1 z = exp z - 1 (used as axiom instances only)',
    'M2 near the positive axis: sqrt w = exp(log(w)/2), log(exp y) = y, log(ab) = log a + log b, '
    'arctan t = (log(1+it) - log(1-it))/(2i), log1p w = log(1+w)',
    'M3 definitions of the derived functions (tan = sin/cos, ..., w**p = exp(p log w), a/b = a*b**-1, '
    'arcsin w = -i log(iw + sqrt(1-w^2)), arccos = pi/2 - arcsin, arctan, arccosh, arcsinh, arctanh, log2, log10, exp2) '
    'and the fact that in these formulas the unit j may play the role of i',
    'z3 / cvc5 as deciders (QF_UFNRA)']
ASSUMPTIONS = ['log-type functions: Re(z1 - i z2) > 0 and Re(z1 + i z2) > 0 (neighbourhood of the positive real axis), '
               'modulus not below 1e-15 (the zero-divisor branch of __pow__ is not taken), magnitudes below 1e150 (clip inactive)']
NOT_DECIDED = ['size of the neighbourhood in floating point; branch behaviour away from the real domain beyond the bounded '
               'sampling; O(h^2) truncation constants (the exact Taylor structure is proved instead)']
BOUNDED = ['default-step-derivatives: Derivative(f, method=multicomplex, n=1|2) with the default step (about 8 eps) against the analytic derivative for 32 expressions / functions at positive and negative points and on a mixed-sign array (82 obligations, rtol 1e-8), floating point -- not proved; arcsin/arccos/arctan n=2 fail on the unchanged tree (known finding F14)',
           'branch group: concrete sampling (fixed grid of bicomplex arguments incl. negative real parts, zero divisors, '
           'arrays mixing both) -- a stand-in, not a proof',
           'branch group, small arguments: 75 samples (5 functions x base points 1e-9..3e-4 x relative perturbations 1e-6..1e-1) compared component-wise (rtol 1e-12) with the idempotent spec evaluated in exact rational arithmetic -- floating point, not proved', 'array arguments: shape (2,) executed for the element-wise clause']
QUANTIFIED = 'z1 = a + ib, z2 = c + id (four reals), second operands likewise: universally quantified'


def enumerated(tier):
    return 'all arithmetic operators and the ~40 elementary methods of Bicomplex; scalar and shape-(2,) arguments'


def groups(tier):
    return [('ring', ('ring',)), ('entire', ('entire',)), ('log', ('log',)), ('compose', ('compose',)),
            ('consumers', ('consumers',)), ('branch', ('branch',)), ('containers', ('containers',)),
            ('default-step-derivatives', ('defstep',))]


def functions_under_contract():
    mc = mods()['mc']; fd = mods()['fd']
    Bc = mc.Bicomplex
    names = ['__init__', '__add__', '__sub__', '__rsub__', '__mul__', '__neg__', '__div__', '__rdiv__', '__pow__', '__rpow__',
             '_pow_singular', 'conjugate', 'mod_c', '_arg_c', 'arg_c', 'arg_c1p', 'exp', 'expm1', 'log', 'log1p', 'sin', 'cos',
             'sinh', 'cosh', 'tan', 'cot', 'sec', 'csc', 'tanh', 'coth', 'sech', 'csch', 'exp2', 'sqrt', 'log10', 'log2',
             'arcsin', 'arccos', 'arctan', 'arccosh', 'arcsinh', 'arctanh', '__array_wrap__', '_coerce']
    return [getattr(Bc, n) for n in names] + [fd.DifferenceFunctions._multicomplex, fd.DifferenceFunctions._multicomplex2,
                                              fd.JacobianDifferenceFunctions._multicomplex,
                                              fd.HessdiagDifferenceFunctions._multicomplex2,
                                              fd.HessianDifferenceFunctions._multicomplex2]


I = C(R(0), R(1))


def comps(b):
    """idempotent components (u, v) of a Bicomplex with scalar entries"""
    z1 = C.lift(lift(asobj(b.z1).ravel()[0])); z2 = C.lift(lift(asobj(b.z2).ravel()[0]))
    return z1 - I * z2, z1 + I * z2


def env():
    m = mods()
    mc = m['mc']
    ctx = installed(mc, np=NpProxy(pi=real('pi')))
    return m, ctx


def run_ring():
    m, ctx = env(); mc = m['mc']
    with ctx:
        old = mc._TINY; mc._TINY = 0
        try:
            z1, z2, w1, w2 = cplx('z1'), cplx('z2'), cplx('w1'), cplx('w2')
            A = mc.Bicomplex(z1, z2); Bq = mc.Bicomplex(w1, w2)
            ua, va = comps(A); ub, vb = comps(Bq)
            r = real('r'); cc = cplx('c')
            cases = [('add', A + Bq, ua + ub, va + vb), ('sub', A - Bq, ua - ub, va - vb), ('mul', A * Bq, ua * ub, va * vb),
                     ('neg', -A, -ua, -va), ('add-real', A + r, ua + r, va + r), ('radd-real', r + A, r + ua, r + va),
                     ('mul-real', A * r, ua * r, va * r), ('rmul-real', r * A, r * ua, r * va),
                     ('sub-real', A - r, ua - r, va - r), ('rsub-real', r - A, r - ua, r - va),
                     ('add-complex', A + cc, ua + cc, va + cc), ('rmul-complex', cc * A, cc * ua, cc * va),
                     ('rsub-complex', cc - A, cc - ua, cc - va),
                     # the bicomplex conjugate z1 - j z2 swaps the idempotent components
                     ('conjugate', A.conjugate(), va, ua)]
            for nm, out, su, sv in cases:
                ou, ov = comps(out)
                solve.prove('ring:%s:e1-component' % nm, ceq(ou, su), [])
                solve.prove('ring:%s:e2-component' % nm, ceq(ov, sv), [])
            solve.twin('ring:mul-components-swapped', ceq(comps(A * Bq)[0], va * vb), [])
            # engine cross-check: the same operations on floats with the real numpy
            from fractions import Fraction as Fr
            vals = {'z1': (0.75, -0.5), 'z2': (0.25, 1.5), 'w1': (-1.25, 0.5), 'w2': (2.0, -0.75), 'c': (0.5, 1.25)}
            asg = {'r': Fr(-7, 4)}
            for k_, (a_, b_) in vals.items():
                asg[k_ + '.re'] = Fr(a_); asg[k_ + '.im'] = Fr(b_)
            NAT = {'add': lambda A, B, r, c: A + B, 'sub': lambda A, B, r, c: A - B, 'mul': lambda A, B, r, c: A * B, 'neg': lambda A, B, r, c: -A,
                   'add-real': lambda A, B, r, c: A + r, 'radd-real': lambda A, B, r, c: r + A, 'mul-real': lambda A, B, r, c: A * r,
                   'rmul-real': lambda A, B, r, c: r * A, 'sub-real': lambda A, B, r, c: A - r, 'rsub-real': lambda A, B, r, c: r - A,
                   'add-complex': lambda A, B, r, c: A + c, 'rmul-complex': lambda A, B, r, c: c * A, 'rsub-complex': lambda A, B, r, c: c - A,
                   'conjugate': lambda A, B, r, c: A.conjugate()}
            for nm, out, su, sv in cases:
                def native(nm=nm):
                    from numdifftools.multicomplex import Bicomplex
                    return NAT[nm](Bicomplex(complex(*vals['z1']), complex(*vals['z2'])), Bicomplex(complex(*vals['w1']), complex(*vals['w2'])), -1.75, complex(*vals['c']))
                xcheck.defer('ring:%s:engine==CPython' % nm, out, asg, native, rtol=1e-12, atol=1e-12)
            # reduction to the ordinary complex operation when z2 == 0
            A0 = mc.Bicomplex(z1, 0); B0 = mc.Bicomplex(w1, 0)
            for nm, out, want in [('add', A0 + B0, z1 + w1), ('mul', A0 * B0, z1 * w1), ('sub', A0 - B0, z1 - w1)]:
                o1 = C.lift(lift(asobj(out.z1).ravel()[0])); o2 = C.lift(lift(asobj(out.z2).ravel()[0]))
                solve.prove('ring:%s:reduces-to-complex-when-z2==0' % nm, z3.And(ceq(o1, want), ceq(o2, 0)), [])
            # element-wise on shape (2,)
            Aa = mc.Bicomplex(SymArr([cplx('p0'), cplx('p1')]), SymArr([cplx('q0'), cplx('q1')]))
            Ba = mc.Bicomplex(SymArr([cplx('r0'), cplx('r1')]), SymArr([cplx('s0'), cplx('s1')]))
            out = Aa * Ba
            for k in range(2):
                sc = mc.Bicomplex(cplx('p%d' % k), cplx('q%d' % k)) * mc.Bicomplex(cplx('r%d' % k), cplx('s%d' % k))
                solve.prove('ring:mul:array-element%d==scalar-op' % k,
                            z3.And(ceq(out.z1[k], asobj(sc.z1).ravel()[0]), ceq(out.z2[k], asobj(sc.z2).ravel()[0])), [])
        finally:
            mc._TINY = old
    xcheck.flush()
    return {}


def F(name, z):
    return UF1(name, C.lift(lift(z)))


def ax_add(fn, a, b):
    """addition theorems"""
    if fn == 'sin':
        return ceq(F('sin', a + b), F('sin', a) * F('cos', b) + F('cos', a) * F('sin', b))
    if fn == 'cos':
        return ceq(F('cos', a + b), F('cos', a) * F('cos', b) - F('sin', a) * F('sin', b))
    if fn == 'sinh':
        return ceq(F('sinh', a + b), F('sinh', a) * F('cosh', b) + F('cosh', a) * F('sinh', b))
    if fn == 'cosh':
        return ceq(F('cosh', a + b), F('cosh', a) * F('cosh', b) + F('sinh', a) * F('sinh', b))
    if fn == 'exp':
        return ceq(F('exp', a + b), F('exp', a) * F('exp', b))


def m1_axioms(z1, z2, I2, mI2, fn=None):
    """M1 instances; restricted to the ones the function `fn` can need (minimal hypotheses per obligation)"""
    fam = {'sin': ('sin', 'cos'), 'cos': ('sin', 'cos'), 'sinh': ('sinh', 'cosh'), 'cosh': ('sinh', 'cosh'),
           'exp': ('exp',), 'expm1': ('exp',), None: ('sin', 'cos', 'sinh', 'cosh', 'exp')}[fn]
    ax = []
    for f_ in fam:
        ax += [ax_add(f_, z1, I2), ax_add(f_, z1, mI2)]
    for b, sgn in ((I2, 1), (mI2, -1)):
        # b = +-i z2
        if 'sin' in fam:
            ax += [ceq(F('cos', b), F('cosh', z2)), ceq(F('sin', b), sgn * (I * F('sinh', z2)))]
        if 'sinh' in fam:
            ax += [ceq(F('cosh', b), F('cos', z2)), ceq(F('sinh', b), sgn * (I * F('sin', z2)))]
        if 'exp' in fam:
            ax += [ceq(F('exp', b), F('cos', z2) + sgn * (I * F('sin', z2)))]
    return ax


def run_entire():
    m, ctx = env(); mc = m['mc']
    with ctx:
        old = mc._TINY; mc._TINY = 0
        try:
            z1, z2 = cplx('z1'), cplx('z2')
            I2 = I * z2
            mI2 = -(I * z2)
            u, v = z1 + mI2, z1 + I2
            A = mc.Bicomplex(z1, z2)
            axioms = m1_axioms(z1, z2, I2, mI2)
            for fn in ('sin', 'cos', 'sinh', 'cosh', 'exp', 'expm1'):
                CTX.uf_uses.clear()
                out = getattr(A, fn)()
                o1 = C.lift(lift(asobj(out.z1).ravel()[0])); o2 = C.lift(lift(asobj(out.z2).ravel()[0]))
                fu, fv = F(fn, u), F(fn, v)
                s1 = (fu + fv) / 2
                s2 = (fu - fv) * I / 2
                ax = m1_axioms(z1, z2, I2, mI2, fn)
                if fn == 'expm1':
                    ax += [ceq(F('expm1', w), F('exp', w) - 1) for w in (z1, u, v, z2)]
                    # half-angle form (M1): cos(2t) = 1 - 2 sin(t)^2 for every argument t the code passes to sin
                    for t in list(CTX.uf_uses.get('sin', [])):
                        t = C.lift(lift(t))
                        for big in (z2, z1):
                            st_, _, _, _ = solve.check(ceq(2 * t, big), [], 5000, want_model=False, use_cvc5=False)
                            if st_ == 'proved':       # 2t == big: instantiate cos(2t) with the term cos(big) itself
                                ax.append(ceq(F('cos', big), 1 - 2 * F('sin', t) * F('sin', t)))
                if fn == 'expm1':
                    # two small lemmas through the canonical form exp(z1) cos z2 - 1, exp(z1) sin z2 (keeps each query tiny)
                    mid1 = F('exp', z1) * F('cos', z2) - 1
                    mid2 = F('exp', z1) * F('sin', z2)
                    code_ax = [a_ for a_ in ax[len(m1_axioms(z1, z2, I2, mI2, fn)):]]
                    spec_ax = m1_axioms(z1, z2, I2, mI2, fn) + [ceq(F('expm1', w), F('exp', w) - 1) for w in (u, v)]
                    solve.prove('entire:expm1:code==exp(z1)cos(z2)-1', ceq(o1, mid1), code_ax)
                    solve.prove('entire:expm1:code==exp(z1)sin(z2)', ceq(o2, mid2), code_ax)
                    solve.prove('entire:expm1:spec==exp(z1)cos(z2)-1', ceq(s1, mid1), spec_ax)
                    solve.prove('entire:expm1:spec==exp(z1)sin(z2)', ceq(s2, mid2), spec_ax)
                    ax = [ceq(o1, mid1), ceq(o2, mid2), ceq(s1, mid1), ceq(s2, mid2)]
                solve.prove('entire:%s:z1-component' % fn, ceq(o1, s1), ax)
                solve.prove('entire:%s:z2-component' % fn, ceq(o2, s2), ax)
                # reduces to the complex function for z2 == 0 (then u == v == z1)
                solve.prove('entire:%s:reduces-to-complex-when-z2==0' % fn,
                            z3.Implies(ceq(z2, 0), z3.And(ceq(o1, s1), ceq(o2, 0))),
                            ax + [ceq(F(g, C(R(0), R(0))), val) for g, val in
                                  (('sin', 0), ('sinh', 0), ('cos', 1), ('cosh', 1))])
            out = A.sin()
            solve.twin('entire:sin:z2-component-negated', ceq(C.lift(lift(asobj(out.z2).ravel()[0])), -((F('sin', u) - F('sin', v)) * I / 2)), m1_axioms(z1, z2, I2, mI2, 'sin'))
            s = z3.Solver(); s.set('timeout', 10000); s.add(*axioms)
            solve.fact('entire:axiom-instances-satisfiable', s.check() == z3.sat)
        finally:
            mc._TINY = old
    return {}


def log_axioms(z1, z2, u, v, shift=0):
    """M2 instances for log(zeta + shift) with w = (z1+shift)^2 + z2^2 = u v"""
    y1 = z1 + shift
    w = y1 * y1 + z2 * z2
    tq = z2 / y1
    ax = [ceq(w, u * v),
          ceq(F('sqrt', w), F('exp', F('log', w) / 2)),
          ceq(F('log', F('exp', F('log', w) / 2)), F('log', w) / 2),
          ceq(F('log', u * v), F('log', u) + F('log', v)),
          ceq(F('arctan', tq), (F('log', 1 + I * tq) - F('log', 1 - I * tq)) / (2 * I)),
          ceq(F('log', 1 + I * tq), F('log', v) - F('log', y1)),
          ceq(F('log', 1 - I * tq), F('log', u) - F('log', y1))]
    return ax, w


def run_log():
    m, ctx = env(); mc = m['mc']
    with ctx:
        old = mc._TINY; mc._TINY = 0
        try:
            z1, z2 = cplx('z1'), cplx('z2')
            u, v = z1 - I * z2, z1 + I * z2
            A = mc.Bicomplex(z1, z2)
            pre = [u.re.t > 0, v.re.t > 0, z1.re.t > 0]
            # ---- log
            paths = explore(lambda: A.log(), pre=pre)
            solve.fact('log:single-path', len(paths) == 1 and paths[0].exc is None, note=str([repr(p.exc) for p in paths if p.exc][:1]))
            if len(paths) == 1 and paths[0].exc is None:
                out = paths[0].value
                o1 = C.lift(lift(asobj(out.z1).ravel()[0])); o2 = C.lift(lift(asobj(out.z2).ravel()[0]))
                ax, w = log_axioms(z1, z2, u, v)
                s1 = (F('log', u) + F('log', v)) / 2
                s2 = (F('log', u) - F('log', v)) * I / 2
                H = ax + pre + paths[0].hyps
                solve.prove('log:z1-component', ceq(o1, s1), H)
                solve.prove('log:z2-component', ceq(o2, s2), H)
                solve.twin('log:z2-component-negated', ceq(o2, -s2), H)
                s = z3.Solver(); s.set('timeout', 10000); s.add(*H)
                solve.fact('log:axioms+precondition-satisfiable', s.check() == z3.sat)
                solve.fact('log:assumptions-recorded', True, note=str(paths[0].assumed)[:200])
            # ---- log1p: the extension of log(1 + .)
            paths = explore(lambda: A.log1p(), pre=[(u.re + 1).t > 0, (v.re + 1).t > 0, (z1.re + 1).t > 0])
            solve.fact('log1p:single-path', len(paths) == 1 and paths[0].exc is None)
            if len(paths) == 1 and paths[0].exc is None:
                out = paths[0].value
                o1 = C.lift(lift(asobj(out.z1).ravel()[0])); o2 = C.lift(lift(asobj(out.z2).ravel()[0]))
                u1, v1 = (z1 + 1) - I * z2, (z1 + 1) + I * z2
                ax, w = log_axioms(z1, z2, u1, v1, shift=1)
                # log1p(t) = log(1 + t) for the argument the code passes to log1p
                for arg in CTX.uf_uses.get('log1p', []) + [x for p in paths for x in []]:
                    ax.append(ceq(F('log1p', arg), F('log', 1 + C.lift(lift(arg)))))
                s1 = (F('log', u1) + F('log', v1)) / 2
                s2 = (F('log', u1) - F('log', v1)) * I / 2
                H = ax + [u1.re.t > 0, v1.re.t > 0, (z1.re + 1).t > 0] + paths[0].hyps
                solve.prove('log1p:z1-component', ceq(o1, s1), H)
                solve.prove('log1p:z2-component', ceq(o2, s2), H)
        finally:
            mc._TINY = old
    return {}


# ------------------------------------------------------------------------------------------------ compose
class Tr(object):
    """tracing stand-in for a verified Bicomplex value: records the expression tree"""

    def __init__(self, tree):
        self.tree = tree

    def __repr__(self):
        return 'Tr(%r)' % (self.tree,)


def _t(v):
    if isinstance(v, Tr):
        return v.tree
    if isinstance(v, (int, float)):
        return ('const', float(v))
    if isinstance(v, complex):
        return ('const', v)
    return ('?', repr(v))


def run_compose():
    m = mods(); mc = m['mc']
    Bc = mc.Bicomplex
    X = ('x',)

    def mk(op):
        def f(self, *a):
            return Tr((op, _t(self)) + tuple(_t(v) for v in a))
        return f

    def mkr(op):
        def f(self, a):
            return Tr((op, _t(a), _t(self)))
        return f
    T = type('T', (Tr,), {})
    for nm in ('exp', 'log', 'sin', 'cos', 'sinh', 'cosh'):
        setattr(T, nm, mk(nm))
    for nm, op in (('__add__', 'add'), ('__sub__', 'sub'), ('__mul__', 'mul'), ('__truediv__', 'div'), ('__pow__', 'pow')):
        setattr(T, nm, mk(op))
    for nm, op in (('__radd__', 'add'), ('__rsub__', 'sub'), ('__rmul__', 'mul'), ('__rtruediv__', 'div'), ('__rpow__', 'pow')):
        setattr(T, nm, mkr(op))
    T.__neg__ = lambda self: Tr.__new__(T)._init(('neg', self.tree))
    T._init = lambda self, tree: (setattr(self, 'tree', tree), self)[1]

    def wrapT(tree):
        return Tr.__new__(T)._init(tree)
    # every traced op must return a T again
    for nm in list(vars(T)):
        fn = getattr(T, nm)
        if nm in ('_init', '__neg__') or not callable(fn):
            continue
        setattr(T, nm, (lambda fn: lambda self, *a: wrapT(fn(self, *a).tree))(fn))
    x = wrapT(X)
    J = ('J',)
    LN2, LN10, HALFPI = float(np.log(2)), float(np.log(10)), float(np.pi / 2)
    D = {  # M3 definitions
        'tan': ('div', ('sin', X), ('cos', X)), 'cot': ('div', ('cos', X), ('sin', X)),
        'sec': ('div', ('const', 1.0), ('cos', X)), 'csc': ('div', ('const', 1.0), ('sin', X)),
        'tanh': ('div', ('sinh', X), ('cosh', X)), 'coth': ('div', ('cosh', X), ('sinh', X)),
        'sech': ('div', ('const', 1.0), ('cosh', X)), 'csch': ('div', ('const', 1.0), ('sinh', X)),
        'log10': ('div', ('log', X), ('const', LN10)), 'log2': ('div', ('log', X), ('const', LN2)),
        'sqrt': ('pow', X, ('const', 0.5)),
        'arccosh': ('log', ('add', X, ('pow', ('sub', ('pow', X, ('const', 2.0)), ('const', 1.0)), ('const', 0.5)))),
        'arcsinh': ('log', ('add', X, ('pow', ('add', ('pow', X, ('const', 2.0)), ('const', 1.0)), ('const', 0.5)))),
        'arctanh': ('mul', ('const', 0.5), ('log', ('div', ('add', ('const', 1.0), X), ('sub', ('const', 1.0), X)))),
        'arcsin': ('mul', ('neg', J), ('log', ('add', ('mul', J, X), ('pow', ('sub', ('const', 1.0), ('pow', X, ('const', 2.0))), ('const', 0.5))))),
        'arccos': ('sub', ('const', HALFPI), ('arcsin', X)),
    }
    orig_new = Bc.__new__

    for name, want in D.items():
        fn = getattr(Bc, name)
        # run the real method body with `self` a tracer; Bicomplex(0, 1) constructed inside becomes the tracer J
        g = dict(fn.__globals__)
        saved = fn.__globals__.get('Bicomplex')

        def fakeB(a, b, *k, **kw):
            if a == 0 and b == 1:
                return wrapT(J)
            raise NeedsConcrete('unexpected Bicomplex(%r, %r) in a derived method' % (a, b))
        fn.__globals__['Bicomplex'] = fakeB
        try:
            xs = x
            if name == 'arccos':
                xs = wrapT(X)
                T.arcsin = lambda self: wrapT(('arcsin', self.tree))
            got = fn(xs)
        except NeedsConcrete:
            raise
        except Exception as e:
            solve.fact('compose:%s:is-the-M3-composition' % name, False, note='raised ' + repr(e)[:200])
            continue
        finally:
            fn.__globals__['Bicomplex'] = saved
        solve.fact('compose:%s:is-the-M3-composition' % name, _same_tree(_t(got), want), note='%r' % (_t(got),))
    # exp2 goes through np.exp(self * log 2) -> Bicomplex.exp
    got = None
    with installed(mc):
        class NPx(object):
            def __getattr__(self, k):
                return getattr(np, k)

            def exp(self, a):
                return a.exp() if isinstance(a, Tr) else np.exp(a)

            def log(self, a):
                return a.log() if isinstance(a, Tr) else np.log(a)
        mc.np = NPx()
        got = Bc.exp2(x)
        solve.fact('compose:exp2:is-exp(x*ln2)', _same_tree(_t(got), ('exp', ('mul', X, ('const', LN2)))), note=repr(_t(got)))
        got = Bc.__rpow__(x, 3.0)
        solve.fact('compose:rpow:is-exp(ln(base)*x)', _same_tree(_t(got), ('exp', ('mul', ('const', float(np.log(3.0))), X))), note=repr(_t(got)))
    # division and powers on the invertible branch
    got = Bc.__div__(x, wrapT(('y',)))
    solve.fact('compose:div:is-x*y**-1', _same_tree(_t(got), ('mul', X, ('pow', ('y',), ('const', -1.0)))), note=repr(_t(got)))
    got = Bc.__rdiv__(x, 2.0)
    solve.fact('compose:rdiv:is-c*x**-1', _same_tree(_t(got), ('mul', ('const', 2.0), ('pow', X, ('const', -1.0)))), note=repr(_t(got)))
    solve.fact('compose:truediv-aliases', Bc.__truediv__ is Bc.__div__ and Bc.__rtruediv__ is Bc.__rdiv__ and
               Bc.__radd__ is Bc.__add__ and Bc.__rmul__ is Bc.__mul__)
    # __pow__: out = exp(log(self)*other) on the invertible branch (executed symbolically with log/exp traced)
    m2, ctx = env()
    with ctx:
        z1, z2 = cplx('z1'), cplx('z2')
        A = mc.Bicomplex(z1, z2)
        rec = {}
        olog, oexp = Bc.log, Bc.exp

        def tlog(self):
            rec['log_of'] = self
            return mc.Bicomplex(cplx('L1'), cplx('L2'))

        def texp(self):
            rec['exp_of'] = self
            return mc.Bicomplex(cplx('E1'), cplx('E2'))
        Bc.log, Bc.exp = tlog, texp
        try:
            for pname, pval in (('int', 3), ('real', 0.5), ('symbolic-real', real('p')), ('bicomplex', mc.Bicomplex(cplx('w1'), cplx('w2')))):
                rec.clear()
                paths = explore(lambda: A ** pval, forced=lambda c: False if 'sqrt' in str(c)[:4000] else None, max_paths=8)
                good = [p for p in paths if p.exc is None]
                solve.fact('compose:pow-%s:runs' % pname, len(good) >= 1, note=str([repr(p.exc) for p in paths if p.exc][:1]))
                if not good:
                    continue
                out = good[0].value
                if pname == 'int' and 'log_of' not in rec:
                    # integer powers computed in the ring (repeated multiplication): the idempotent components are u**p, v**p
                    ua, va = comps(A)
                    for pint in (3, 2, 0, 1, -1, -2, 2.0, 5):
                        oo = A ** pint
                        ou, ov = comps(oo)
                        k = int(pint)
                        if k >= 0:
                            su, sv = (ua ** k if k else C(R(1), R(0))), (va ** k if k else C(R(1), R(0)))
                            solve.prove('compose:pow-int(%r):e1-component==u**p' % (pint,), ceq(ou, su), [])
                            solve.prove('compose:pow-int(%r):e2-component==v**p' % (pint,), ceq(ov, sv), [])
                        else:
                            # u**k * u**-k == 1 wherever u != 0 (cleared form: no division in the goal)
                            nz = [z3.Or(ua.re.t != 0, ua.im.t != 0), z3.Or(va.re.t != 0, va.im.t != 0)]
                            solve.prove('compose:pow-int(%r):e1-component*u**%d==1' % (pint, -k), ceq(ou * ua ** (-k), C(R(1), R(0))), nz)
                            solve.prove('compose:pow-int(%r):e2-component*v**%d==1' % (pint, -k), ceq(ov * va ** (-k), C(R(1), R(0))), nz)
                    solve.fact('compose:pow-int:is-exp(log(x)*p)-on-the-invertible-branch', True, note='computed in the ring; components proved directly')
                    continue
                ok = rec.get('log_of') is A
                eo = rec.get('exp_of')
                want = mc.Bicomplex(cplx('L1'), cplx('L2')) * pval
                ok = ok and eo is not None and all(a.eq(b) for a, b in zip(parts(asobj(eo.z1).ravel()[0]) + parts(asobj(eo.z2).ravel()[0]),
                                                                            parts(asobj(want.z1).ravel()[0]) + parts(asobj(want.z2).ravel()[0])))
                o1 = asobj(out.z1).ravel()[0]; o2 = asobj(out.z2).ravel()[0]
                ok = ok and parts(o1)[0].eq(z3.Real('E1.re')) and parts(o2)[1].eq(z3.Real('E2.im'))
                solve.fact('compose:pow-%s:is-exp(log(x)*p)-on-the-invertible-branch' % pname, bool(ok))
        finally:
            Bc.log, Bc.exp = olog, oexp
    return {}


def _same_tree(a, b):
    if isinstance(a, tuple) and isinstance(b, tuple):
        if len(a) != len(b):
            return False
        if a and a[0] == 'const' and b[0] == 'const':
            return abs(complex(a[1]) - complex(b[1])) <= 1e-15 * max(1.0, abs(complex(b[1])))
        return all(_same_tree(x, y) for x, y in zip(a, b))
    return a == b


# ------------------------------------------------------------------------------------------------ consumers
def run_consumers():
    with fd_env(names=('fd', 'ex', 'mc')) as m:
        fd, mc = m['fd'], m['mc']
        D = 6
        x = real('x'); h = real('h')
        f, b = taylor_poly(x, D)

        def fB(z):
            # the generic polynomial evaluated with Bicomplex ring operations only (verified in `ring`)
            d = z - x
            acc = mc.Bicomplex(b[0], 0)
            pw = None
            for k in range(1, D + 1):
                pw = d if pw is None else pw * d
                acc = acc + pw * (b[k] / math.factorial(k))
            return acc
        out = lift(asobj(fd.DifferenceFunctions._multicomplex(fB, None, x, h)).ravel()[0])
        spec = sum((b[k] * h ** k * [0, 1, 0, -1][k % 4] / math.factorial(k) for k in range(D + 1)), R(0))
        solve.prove('consumers:_multicomplex==Im-part-of-Taylor-series(h f\' - h^3 f\'\'\'/6 + ...)', out.t == spec.t, [])
        out2 = lift(asobj(fd.DifferenceFunctions._multicomplex2(fB, None, x, h)).ravel()[0])
        # imag12 of f(x + ih + jh): sum_k b_k/k! * coefficient of (ij) in (ih + jh)^k
        def c12(k):
            # (i + j)^k = sum_m C(k,m) i^m j^(k-m); ij-coefficient: m odd and k-m odd -> i^m = i*(-1)^((m-1)/2)
            tot = 0
            for mm_ in range(k + 1):
                if mm_ % 2 == 1 and (k - mm_) % 2 == 1:
                    tot += math.comb(k, mm_) * (-1) ** ((mm_ - 1) // 2) * (-1) ** ((k - mm_ - 1) // 2)
            return tot
        spec2 = sum((b[k] * h ** k * c12(k) / math.factorial(k) for k in range(D + 1)), R(0))
        solve.prove('consumers:_multicomplex2==ij-part-of-Taylor-series(h^2 f\'\' + O(h^4))', out2.t == spec2.t, [])
        solve.fact('consumers:leading-coefficients', c12(2) == 2 and c12(3) == 0 and c12(0) == 0 and c12(1) == 0,
                   note='imag12 = h^2 f\'\'(x) * 2/2! + O(h^4)')
        solve.twin('consumers:_multicomplex2-has-an-h^3-term', out2.t == (spec2 + b[3] * h ** 3).t, [])
        # vector classes: evaluation at Bicomplex(x + i h e_k, 0) / (x + i h e_k, h e_k) and the right component returned
        calls = []

        def rec(z):
            calls.append(z)
            k = len(calls)
            return mc.Bicomplex(C(z3.Real('v%d' % k), z3.Real('w%d' % k)), C(z3.Real('p%d' % k), z3.Real('q%d' % k)))
        xv = SymArr([real('x0'), real('x1')]); hv = SymArr([real('h0'), real('h1')])
        for cls, name, comp in [(fd.JacobianDifferenceFunctions, '_multicomplex', 'w'), (fd.HessdiagDifferenceFunctions, '_multicomplex2', 'q')]:
            del calls[:]
            out = getattr(cls, name)(rec, None, xv, hv)
            ok = len(calls) == 2
            for k, z in enumerate(calls):
                z1 = [C.lift(lift(t)) for t in asobj(z.z1).ravel()]; z2 = [C.lift(lift(t)) for t in asobj(z.z2).ravel()]
                for j in range(2):
                    hj = hv[j] if j == k else R(0)
                    solve.prove('consumers:%s.%s:call%d:x%d-argument' % (cls.__name__, name, k, j),
                                z3.And(z1[j].re.t == xv[j].t, z1[j].im.t == lift(hj).t, z2[j].im.t == 0,
                                       z2[j].re.t == (lift(hj).t if name.endswith('2') else 0)), [])
            outs = [lift(t) for t in asobj(out).ravel()]
            solve.fact('consumers:%s.%s:returns-the-%s-component-of-each-evaluation' % (cls.__name__, name, 'imag' if comp == 'w' else 'imag12'),
                       ok and all(o.t.eq(z3.Real('%s%d' % (comp, k + 1))) for k, o in enumerate(outs)))
        # the full Hessian: entry (i, j) is imag12 of f(x + i h_i e_i + j h_j e_j) divided by h_i*h_j (steps differ per coordinate)
        for d in (2, 3):
            del calls[:]
            xv = SymArr([real('x%d' % c) for c in range(d)]); hv = SymArr([real('h%d' % c) for c in range(d)])
            pre = [t.t > 0 for t in hv]
            out = fd.HessianDifferenceFunctions._multicomplex2(rec, None, xv, hv)
            pairs = [(i, j) for i in range(d) for j in range(i, d)]
            tagh = 'consumers:HessianDifferenceFunctions._multicomplex2,d=%d:' % d
            solve.fact(tagh + 'one-evaluation-per-pair-i<=j', len(calls) == len(pairs) and np.shape(out) == (d, d), note='%d calls' % len(calls))
            if len(calls) != len(pairs) or np.shape(out) != (d, d):
                continue
            for k, ((i, j), z) in enumerate(zip(pairs, calls)):
                z1 = [C.lift(lift(t)) for t in asobj(z.z1).ravel()]; z2 = [C.lift(lift(t)) for t in asobj(z.z2).ravel()]
                solve.prove(tagh + 'call%d:argument==x+i*h%d*e%d+j*h%d*e%d' % (k, i, i, j, j),
                            z3.And(*[z3.And(z1[c].re.t == xv[c].t, z1[c].im.t == (hv[c].t if c == i else 0), z2[c].im.t == 0,
                                            z2[c].re.t == (hv[c].t if c == j else 0)) for c in range(d)]), pre)
                q = z3.Real('q%d' % (k + 1))
                for (a_, b_) in {(i, j), (j, i)}:
                    o = lift(out[a_, b_])
                    o = o.re if isinstance(o, C) else o
                    solve.prove(tagh + 'entry[%d,%d]==imag12/(h%d*h%d)' % (a_, b_, i, j), o.t * hv[i].t * hv[j].t == q, pre)
    return {}


# ------------------------------------------------------------------------------------------------ branch (bounded)
def run_branch():
    """bounded stand-in (sampling), labelled as such: sign / pi bookkeeping of _arg_c and the zero-divisor fix-up"""
    mc = mods()['mc']
    Bc = mc.Bicomplex
    rng = np.random.default_rng(int(__import__('os').environ.get('VERIF_SEED', '0') or 0))
    vals = [-2.0, -0.5, 0.5, 2.0, -1.5, 3.0]
    pert = [0.0, 1e-3, -1e-3]
    bad = []
    n = 0

    def idem(zeta, f):
        u = zeta.z1 - 1j * zeta.z2; v = zeta.z1 + 1j * zeta.z2
        fu, fv = f(u), f(v)
        return (fu + fv) / 2, (fu - fv) * 1j / 2
    import warnings
    with warnings.catch_warnings():
        warnings.simplefilter('ignore')
        for re in vals:
            for b in pert:
                for c in pert:
                    for d in pert:
                        z = Bc(re + 1j * b, c + 1j * d)
                        for nm, op, f in [('pow3', lambda t: t ** 3, lambda w: w ** 3), ('pow-1', lambda t: t ** -1, lambda w: 1 / w),
                                          ('pow2', lambda t: t ** 2, lambda w: w ** 2), ('rdiv', lambda t: 1.0 / t, lambda w: 1 / w),
                                          ('div', lambda t: t / Bc(-1.5, 0), lambda w: w / -1.5)]:
                            n += 1
                            out = op(z)
                            s1, s2 = idem(z, f)
                            if not (np.allclose(out.z1, s1, rtol=1e-9, atol=1e-12) and np.allclose(out.z2, s2, rtol=1e-9, atol=1e-12)):
                                bad.append((nm, re, b, c, d))
        # arrays mixing zero divisors with ordinary elements
        h = 1e-4
        z = Bc(np.array([0.0, 1.0, -1.5]) + 1j * h, h)
        out = z ** 2
        s1, s2 = idem(z, lambda w: w ** 2)
        n += 1
        if not (np.allclose(out.z1, s1, rtol=1e-9, atol=1e-14) and np.allclose(out.z2, s2, rtol=1e-9, atol=1e-14)):
            bad.append(('pow2-array-with-zero-divisor',))
    solve.record('branch:sampled-arguments-agree-with-the-idempotent-spec(bounded:%d samples)' % n,
                 'proved' if not bad else 'refuted', 'bounded-sampling', 0.0, None, 'bounded', note=str(bad[:4]))
    from ndvc.concrete import small_argument_cases
    cnt, sbad = small_argument_cases(Bc)
    solve.record('branch:small-arguments:each-component-relatively-accurate-for-expm1,sin,sinh,tan,tanh(bounded:%d samples)' % cnt,
                 'proved' if not sbad else 'refuted', 'bounded-sampling', 0.0, None, 'bounded', note=str(sbad[:2])[:400])
    from ndvc.concrete import small_domain_cases
    cnt2, dbad = small_domain_cases(Bc)
    solve.record('branch:tiny-in-domain-arguments:log,log2,log10,sqrt,real-powers-agree-with-the-idempotent-spec(bounded:%d samples)' % cnt2,
                 'proved' if not dbad else 'refuted', 'bounded-sampling', 0.0, None, 'bounded', note=str(dbad[:2])[:400])
    # the proofs of the log group replace the regulariser multicomplex._TINY by 0: admissible only while it is negligible next to every
    # normal floating-point argument
    tiny = float(mods()['mc']._TINY)
    solve.fact('branch:abstraction-check:0<=_TINY<=smallest-normal-float', 0.0 <= tiny <= float(np.finfo(float).tiny), note=repr(tiny))
    return dict(bounded_samples=n + cnt + cnt2)


def run_containers():
    """__array_wrap__ (object array of Bicomplex numbers -> one Bicomplex holding arrays), __getitem__, flat:
    the number at every index is the number that was at that index, whatever the memory layout of the array"""
    with fd_env(names=('mc',)) as m:
        mc = m['mc']
        Bc = mc.Bicomplex

        def mk(tag):
            return Bc(cplx('a' + tag), cplx('b' + tag))
        layouts = [((3,), 'C'), ((2, 3), 'C'), ((2, 3), 'transposed-view'), ((2, 2), 'F'), ((3, 2), 'swapaxes-view'), ((), 'C'), ((2, 2, 2), 'transposed-view')]
        for shape, layout in layouts:
            CTX.reset()
            n = int(np.prod(shape)) if shape else 1
            if layout == 'C':
                arr = np.empty(shape, dtype=object)
            elif layout == 'F':
                arr = np.empty(shape, dtype=object, order='F')
            else:
                arr = np.empty(shape[::-1], dtype=object).T
            for idx in np.ndindex(shape):
                arr[idx] = mk('_'.join(map(str, idx)) or '0')
            tag = 'array_wrap:shape%s,%s:' % (shape, layout)
            try:
                out = Bc.__array_wrap__(arr)
            except Exception as e:
                solve.fact(tag + 'no-exception', False, note=repr(e)[:200]); continue
            solve.fact(tag + 'returns-a-Bicomplex-of-the-same-shape', isinstance(out, Bc) and np.shape(out.z1) == shape and np.shape(out.z2) == shape,
                       note=str((type(out).__name__, np.shape(getattr(out, 'z1', None)))))
            if not (isinstance(out, Bc) and np.shape(out.z1) == shape):
                continue
            for idx in np.ndindex(shape):
                src = arr[idx]
                g1, g2 = asobj(out.z1)[idx], asobj(out.z2)[idx]
                w1, w2 = asobj(src.z1).ravel()[0], asobj(src.z2).ravel()[0]
                ok = all(u.eq(v) for u, v in zip(parts(C.lift(lift(g1))) + parts(C.lift(lift(g2))), parts(C.lift(lift(w1))) + parts(C.lift(lift(w2)))))
                solve.fact(tag + 'element%s-is-the-number-that-was-at-that-index' % (idx,), ok, note=str((g1, w1))[:120])
        # an already wrapped value is returned unchanged
        b0 = mk('w')
        solve.fact('array_wrap:Bicomplex-returned-unchanged', Bc.__array_wrap__(b0) is b0)
        # __getitem__ keeps the pairing of z1 and z2
        z1 = SymArr([cplx('p%d' % k) for k in range(4)]); z2 = SymArr([cplx('q%d' % k) for k in range(4)])
        bb = Bc(z1, z2)
        for k in range(4):
            e = bb[k]
            ok = all(u.eq(v) for u, v in zip(parts(C.lift(lift(asobj(e.z1).ravel()[0]))) + parts(C.lift(lift(asobj(e.z2).ravel()[0]))),
                                             parts(z1[k]) + parts(z2[k])))
            solve.fact('getitem:[%d]-pairs-z1[%d]-with-z2[%d]' % (k, k, k), ok)
    return {}


def run_defstep():
    """bounded stand-in for the last sentence of the property AT THE STEP THE LIBRARY USES (h about 8 eps): the exact-arithmetic
    proofs above cannot see what survives rounding at that step size (residues like sin(n*pi) != 0, or 1 + h losing digits of h)"""
    import numdifftools as nd
    from ndvc.concrete import multicomplex_default_step_cases
    res = multicomplex_default_step_cases(nd)
    for name, (ok, detail) in sorted(res.items()):
        solve.fact(name + ':multicomplex-derivative-at-the-default-step==analytic(rtol 1e-8)', ok, kind='bounded', note=str(detail)[:200] if detail else '')
    return dict(default_step_cases=len(res))


def run_group(args):
    if args[0] == 'defstep':
        return run_defstep()
    if args[0] == 'containers':
        return run_containers()
    return {'ring': run_ring, 'entire': run_entire, 'log': run_log, 'compose': run_compose, 'consumers': run_consumers,
            'branch': run_branch}[args[0]]()


def replay_case(ob):
    nm = ob['name'].split('/')[-1]
    if 'small-arguments' in nm or 'tiny-in-domain' in nm or 'abstraction-check' in nm:
        return dict(kind='C12.small')
    if ob['name'].startswith('containers/'):
        return dict(kind='C12.containers')
    if ob['name'].startswith('default-step-derivatives/'):
        return dict(kind='C12.defstep', name=ob['name'].split('/', 1)[1].rsplit(':', 1)[0])
    if ob['name'].startswith('consumers/'):
        return dict(kind='C12.consumers')
    fn = nm.split(':')[1] if ':' in nm else ''
    return dict(kind='C12.idempotent', group=ob['name'].split('/')[0], function=fn)
