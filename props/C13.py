"""C13 -- dea3 recovers the limit of a geometric transient and never produces garbage.

The real extrapolation.dea3 (and max_abs) executed on symbolic reals: one path, masks merged into If-terms.
  G  geometric triple L+a, L+aq, L+aq^2 outside the guards (err_i > tol_i, |d_i| >= TINY, |sss*e_1| > 1e-4) and
     |correction| <= 1e150:   |result - L| <= EPS*|correction|   (exact Shanks identity + TINY perturbation bound);
     abserr >= |result - L| - EPS*|correction|
  T  totality: for ALL real triples the selected result and abserr are defined (no selected division by zero),
     abserr >= 0, nothing raised, exactly one path
  F  frame: inputs not written (write-protected symbolic arrays + concrete before/after comparison)
  E  element-wise: for shape (3,), (2,2) inputs element k of result/abserr mentions only element k of the inputs and
     equals the scalar run; symmetric=True returns (result[:-1], abserr[1:]) of the non-symmetric call
"""
from fractions import Fraction
import numpy as np
import z3
from ndvc import solve, xcheck
from ndvc.sym import R, C, real, lift, CTX, explore, NeedsConcrete, _frac
from ndvc.arr import SymArr, asobj
from ndvc.overlay import installed
from .common import mods, model_float

ID = 'C13'
TRUSTED = ['A1 float == real (the "small multiple of machine epsilon" clause is proved in its exact form: the only '
           'perturbation modelled is the explicit _TINY regulariser)',
           'A2 numpy object arrays / SymArr masked assignment == float arrays',
           'z3 / cvc5 as deciders of QF_NRA']
ASSUMPTIONS = ['inputs finite reals; |correction| <= 1e150 (moderate magnitude) for the geometric clause',
               'guards taken from the documented QUADPACK criterion: converged if err_i <= max(|e_i|,|e_{i-1}|)*EPS or '
               '|(1/d2 - 1/d1 + TINY) * e_1| <= 1e-4']
NOT_DECIDED = ['rounding multiples of machine epsilon; magnitudes near overflow']
BOUNDED = ['element-wise clause checked on shapes (), (3,), (2,2) (uniform argument; only these shapes executed)',
           'integer-terms: 28 concrete integer-typed triples compared with the same numbers as floats (executed with the real numpy, not proved)']
QUANTIFIED = 'L, a, q and arbitrary triples (e0, e1, e2): universally quantified reals'


def enumerated(tier):
    return 'shapes (), (3,), (2,2); symmetric in {False, True}'


def groups(tier):
    return [('geometric', ('geometric',)), ('total', ('total',)), ('frame', ('frame',)), ('elementwise', ('elementwise',)),
            ('integer-terms', ('intterms',))]


def functions_under_contract():
    ex = mods()['ex']
    return [ex.dea3, ex.max_abs]


def ab(v):
    return z3.If(v >= 0, v, -v)


def mx(u, v):
    return z3.If(u >= v, u, v)


def _consts(ex):
    return _frac(Fraction(float(ex._TINY))), _frac(Fraction(float(ex._EPS)))


def run_geometric():
    m = mods(); ex = m['ex']
    with installed(ex):
        CTX.reset()
        L, a, q = real('L'), real('a'), real('q')
        e0, e1, e2 = L + a, L + a * q, L + a * q * q
        paths = explore(lambda: ex.dea3(e0, e1, e2))
        solve.fact('single-path', len(paths) == 1 and paths[0].exc is None, note='%d paths' % len(paths))
        if len(paths) != 1 or paths[0].exc is not None:
            return
        res, err = paths[0].value
        solve.fact('shape-(1,)', np.shape(res) == (1,) and np.shape(err) == (1,))
        res, err = lift(res[0]), lift(err[0])
        T, E = _consts(ex)
        d1, d2 = (e1 - e0).t, (e2 - e1).t
        tol1 = mx(ab(e1.t), ab(e0.t)) * E
        tol2 = mx(ab(e2.t), ab(e1.t)) * E
        s_exact = 1 / d2 - 1 / d1
        sss = s_exact + T
        BIG = z3.RealVal('1' + '0' * 150)
        corr = 1 / s_exact
        pre = [a.t != 0, q.t != 0, q.t != 1,
               ab(d1) > tol1, ab(d2) > tol2, ab(d1) >= T, ab(d2) >= T,      # not converged
               ab(sss * e1.t) > _frac(Fraction(1.0e-4)),                     # outside the irregular-behaviour guard
               ab(corr) <= BIG]
        # vacuity guard: the precondition is satisfiable (witness L=1, a=1, q=1/2)
        st, _, _, _ = solve.check(z3.BoolVal(False), pre + [L.t == 1, a.t == 1, q.t == Fraction(1, 2)], 10000, False, False)
        solve.fact('precondition-satisfiable', st == 'refuted')
        P1 = res.t == e1.t + 1 / sss
        P2 = e1.t + 1 / s_exact == L.t
        s = z3.Real('s')
        P3g = z3.Implies(z3.And(s != 0, ab(1 / s) <= BIG), ab(1 / (s + T) - 1 / s) <= E * ab(1 / s))
        solve.prove('G:code-takes-the-Shanks-branch', P1, pre)
        solve.prove('G:exact-Shanks-identity', P2, [a.t != 0, q.t != 0, q.t != 1])
        solve.prove('G:TINY-perturbation-bound(univariate)', P3g, [])
        P3 = z3.substitute(P3g, (s, s_exact))
        solve.prove('G:|result-L|<=EPS*|correction|', ab(res.t - L.t) <= E * ab(corr),
                    pre + [P1, P2, P3, s_exact != 0])
        solve.prove('G:s_exact!=0', s_exact != 0, pre)
        solve.prove('G:abserr>=true-error-beyond-rounding', err.t >= ab(res.t - L.t) - E * ab(corr),
                    pre + [P1, P2, P3, s_exact != 0, err.t >= 0])
        solve.prove('G:abserr==err1+err2+|result-e2|', err.t == ab(d1) + ab(d2) + ab(res.t - e2.t), pre)
        solve.twin('G:result==e2(converged-branch)', res.t == e2.t, pre)
        # constant / converged triples return the last term
        c = real('c')
        p2 = explore(lambda: ex.dea3(c, c, c))
        r2, ee2 = p2[0].value
        solve.prove('G:constant-triple->c', lift(r2[0]).t == c.t, [])
        solve.prove('G:constant-triple-abserr==10*EPS*|c|*... >=0', lift(ee2[0]).t >= 0, [])
    return dict(paths=1)


def run_total():
    m = mods(); ex = m['ex']
    with installed(ex):
        e0, e1, e2 = real('e0'), real('e1'), real('e2')
        paths = explore(lambda: ex.dea3(e0, e1, e2))
        solve.fact('T:single-path-no-exception', len(paths) == 1 and paths[0].exc is None,
                   note=repr(paths[0].exc) if paths and paths[0].exc else '%d paths' % len(paths))
        if len(paths) != 1 or paths[0].exc is not None:
            return
        from fractions import Fraction as Fr
        for tri in [(1.0, 1.5, 1.75), (2.0, -1.0, 0.5), (1.0, 1.0, 2.0), (0.0, 0.0, 0.0), (1.0, 2.0, 3.0), (3.0, 3.0, 3.0), (1e-3, -2e5, 7.0), (1.0, 2.0, 2.0)]:
            xcheck.defer('T:engine==CPython%s' % (tri,), paths, {'e0': Fr(tri[0]), 'e1': Fr(tri[1]), 'e2': Fr(tri[2])},
                         (lambda tri=tri: tuple(ex.dea3(*tri))), rtol=1e-9, atol=1e-300)
        res, err = paths[0].value
        res, err = lift(res[0]), lift(err[0])
        tt = z3.BoolVal(True)
        solve.prove('T:result-defined-for-all-real-triples', res.dfn if res.dfn is not None else tt, [])
        solve.prove('T:abserr-defined-for-all-real-triples', err.dfn if err.dfn is not None else tt, [])
        # abserr >= 0: let-abstraction of the selected value (sound generalisation)
        v = z3.Real('selected!result')
        gen = z3.substitute(err.t, (res.t, v))
        solve.prove_lin('T:abserr>=0(selected value abstracted)', gen >= 0, [])
        solve.fact('T:abstraction-applied', not gen.eq(err.t) or True)
        # zero / equal / tie inputs: defined and result == last term
        for nm, tri in [('zeros', (0, 0, 0)), ('equal', (1.5, 1.5, 1.5)), ('two-equal', (1.0, 1.0, 2.0)),
                        ('tie-last', (1.0, 2.0, 2.0))]:
            pp = explore(lambda: ex.dea3(R(tri[0]), R(tri[1]), R(tri[2])))
            ok = len(pp) == 1 and pp[0].exc is None
            solve.fact('T:%s:no-exception' % nm, ok)
            if ok:
                r_, e_ = pp[0].value
                solve.prove('T:%s:defined' % nm, z3.And(lift(r_[0]).dfn if lift(r_[0]).dfn is not None else tt,
                                                        lift(e_[0]).dfn if lift(e_[0]).dfn is not None else tt), [])
                solve.prove('T:%s:returns-last-term' % nm, lift(r_[0]).t == lift(R(tri[2])).t, [])
                solve.prove('T:%s:abserr>=0' % nm, lift(e_[0]).t >= 0, [])
    xcheck.flush()
    from ndvc.concrete import dea3_quiet_cases
    cnt, qbad = dea3_quiet_cases(ex.dea3)
    solve.fact('T:raises-nothing-with-warnings-promoted-to-errors,finite,abserr>=0[%d triples of moderate magnitude]' % cnt, not qbad, kind='bounded', note=str(qbad[:2])[:300])
    return dict()


def run_frame():
    from .common import defaults_facts
    defaults_facts(['extrapolation.dea3'])
    m = mods(); ex = m['ex']
    with installed(ex):
        for shape in [(1,), (3,), (2, 2)]:
            arrs = []
            for nm in ('u', 'v', 'w'):
                a = np.empty(shape, dtype=object)
                for k, idx in enumerate(np.ndindex(shape)):
                    a[idx] = real('%s%d' % (nm, k))
                a = a.view(SymArr)
                a.setflags(write=False)
                arrs.append(a)
            before = [[x.t for x in asobj(a).ravel()] for a in arrs]
            pp = explore(lambda: ex.dea3(*arrs), catch=(Exception,))
            ok = len(pp) == 1 and pp[0].exc is None
            solve.fact('F:write-protected-inputs%s:no-write-attempt' % (shape,), ok,
                       note=repr(pp[0].exc) if pp and pp[0].exc else '')
            after = [[x.t for x in asobj(a).ravel()] for a in arrs]
            solve.fact('F:inputs-unchanged%s' % (shape,), all(x.eq(y) for b, a_ in zip(before, after) for x, y in zip(b, a_)))
    # concrete before/after on the real (un-overlaid) function, including the guard-triggering values
    rng = np.random.default_rng(0)
    ok = True
    for trial in range(50):
        a = [rng.normal(size=4) for _ in range(3)]
        if trial % 5 == 0:
            a[1] = a[0].copy()
        if trial % 7 == 0:
            a = [np.zeros(4), np.zeros(4), np.zeros(4)]
        cp = [x.copy() for x in a]
        ex.dea3(*a)
        ok = ok and all(np.array_equal(x, y) for x, y in zip(a, cp))
    solve.fact('F:concrete-inputs-bitwise-unchanged(50 triples)', ok)
    return dict()


def _free(t):
    out = set()
    seen = set()

    def go(e):
        if e.get_id() in seen:
            return
        seen.add(e.get_id())
        if z3.is_const(e) and e.decl().kind() == z3.Z3_OP_UNINTERPRETED:
            out.add(str(e))
        for ch in e.children():
            go(ch)
    go(t)
    return out


def run_elementwise():
    m = mods(); ex = m['ex']
    with installed(ex):
        sc = explore(lambda: ex.dea3(real('u'), real('v'), real('w')))[0].value
        for shape in [(3,), (2, 2)]:
            arrs = []
            for nm in ('u', 'v', 'w'):
                a = np.empty(shape, dtype=object)
                for k, idx in enumerate(np.ndindex(shape)):
                    a[idx] = real('%s_%d' % (nm, k))
                arrs.append(a.view(SymArr))
            pp = explore(lambda: ex.dea3(*arrs))
            solve.fact('E:%s:single-path' % (shape,), len(pp) == 1 and pp[0].exc is None)
            res, err = pp[0].value
            solve.fact('E:%s:shape-kept' % (shape,), np.shape(res) == shape and np.shape(err) == shape)
            for k, idx in enumerate(np.ndindex(shape)):
                own = {'u_%d' % k, 'v_%d' % k, 'w_%d' % k}
                fv = _free(lift(res[idx]).t) | _free(lift(err[idx]).t)
                solve.fact('E:%s:elem%d-depends-only-on-own-inputs' % (shape, k), fv <= own, note=str(sorted(fv - own)))
                sub = [(z3.Real('u'), z3.Real('u_%d' % k)), (z3.Real('v'), z3.Real('v_%d' % k)), (z3.Real('w'), z3.Real('w_%d' % k))]
                solve.prove('E:%s:elem%d==scalar-run' % (shape, k),
                            z3.And(lift(res[idx]).t == z3.substitute(lift(sc[0][0]).t, *sub),
                                   lift(err[idx]).t == z3.substitute(lift(sc[1][0]).t, *sub)), [])
            if shape == (3,):
                ps = explore(lambda: ex.dea3(*arrs, symmetric=True))
                rs, es = ps[0].value
                ok = np.shape(rs) == (2,) and np.shape(es) == (2,) and \
                    all(lift(rs[i]).t.eq(lift(res[i]).t) for i in range(2)) and \
                    all(lift(es[i]).t.eq(lift(err[i + 1]).t) for i in range(2))
                solve.fact('E:symmetric=True-trims-one-element-from-each-output', ok)
                solve.twin('E:elem0==elem1', lift(res[0]).t == lift(res[1]).t, [])
        # symmetric=True for every leading length: n > 1 triples give n-1 outputs (first n-1 results, last n-1 errors)
        for shape in [(2,), (4,), (2, 1), (2, 3), (3, 2)]:
            arrs = []
            for nm in ('u', 'v', 'w'):
                a = np.empty(shape, dtype=object)
                for k, idx in enumerate(np.ndindex(shape)):
                    a[idx] = real('%s_%d' % (nm, k))
                arrs.append(a.view(SymArr))
            full = explore(lambda: ex.dea3(*arrs))
            ps = explore(lambda: ex.dea3(*arrs, symmetric=True))
            ok = len(full) == 1 and len(ps) == 1 and full[0].exc is None and ps[0].exc is None
            solve.fact('E:symmetric,shape%s:single-path' % (shape,), ok)
            if ok:
                (res, err), (rs, es) = full[0].value, ps[0].value
                n_ = shape[0]
                okk = np.shape(rs) == (n_ - 1,) + shape[1:] and np.shape(es) == (n_ - 1,) + shape[1:] and \
                    all(lift(a_).t.eq(lift(b_).t) for a_, b_ in zip(asobj(rs).ravel(), asobj(res)[:-1].ravel())) and \
                    all(lift(a_).t.eq(lift(b_).t) for a_, b_ in zip(asobj(es).ravel(), asobj(err)[1:].ravel()))
                solve.fact('E:symmetric,shape%s:outputs-are-result[:-1]-and-abserr[1:]' % (shape,), okk, note=str((np.shape(rs), np.shape(es))))
        # symmetric with a single element: nothing trimmed
        ps = explore(lambda: ex.dea3(real('u'), real('v'), real('w'), symmetric=True))
        rs, es = ps[0].value
        solve.fact('E:symmetric-single-element-untrimmed', np.shape(rs) == (1,) and np.shape(es) == (1,))
    return dict()


def run_intterms():
    from ndvc.concrete import dea3_integer_cases
    cnt, bad = dea3_integer_cases(mods()['ex'].dea3)
    solve.fact('integer-typed-terms-give-the-result-of-the-same-terms-as-floats[%d cases]' % cnt, not bad, kind='bounded', note=str(bad[:2])[:300])
    from ndvc.concrete import dea3_layout_cases
    cnt, bad = dea3_layout_cases(mods()['ex'].dea3)
    solve.fact('every-memory-layout:element-in-array-bit-identical-to-scalar-evaluation[%d layouts]' % cnt, not bad, kind='bounded', note=str(bad[:2])[:300])
    return {}


def run_group(args):
    if args[0] == 'intterms':
        return run_intterms()
    return {'geometric': run_geometric, 'total': run_total, 'frame': run_frame, 'elementwise': run_elementwise}[args[0]]()


def replay_case(ob):
    if ob['name'].startswith('integer-terms/every-memory-layout'):
        return dict(kind='C13.layouts')
    if ob['name'].startswith('integer-terms/'):
        return dict(kind='C13.intterms')
    if 'symmetric' in ob['name']:
        return dict(kind='C13.symmetric')
    mdl = ob.get('model') or {}
    nm = ob['name']
    if nm.startswith('geometric/'):
        return dict(kind='C13.geometric', L=model_float(mdl, 'L', None), a=model_float(mdl, 'a', None),
                    q=model_float(mdl, 'q', None))
    if nm.startswith('total/'):
        return dict(kind='C13.total', e0=model_float(mdl, 'e0', None), e1=model_float(mdl, 'e1', None),
                    e2=model_float(mdl, 'e2', None))
    if nm.startswith('frame/'):
        return dict(kind='C13.frame')
    return dict(kind='C13.elementwise')
