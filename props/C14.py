"""C14 -- streaming epsilon algorithms: EpsAlg matches the Shanks/Wynn table; Dea is total.

EpsAlg (real code on symbolic terms, under "no table difference vanishes", i.e. |difference| > 1e-60 for every difference
of the ghost table):
  T   after each term the internal list holds the current anti-diagonal of Wynn's table
      eps_{k+1}^{(n)} = eps_{k-1}^{(n+1)} + 1/(eps_k^{(n+1)} - eps_k^{(n)}) and the returned value is the entry of highest
      even order                                                  [sequence length bounded: <= 9 in both tiers]
  G   L + a q^n (three terms) -> L exactly (k = 1); k >= 2 rests on Shanks' exactness theorem for Wynn's table (M5)
Dea -- object invariant J: 0 <= _n <= limexp-1, len(epstab) == limexp+5, _nres >= 0.  For every enumerated limexp, every n
admitted by J, _nres in 0..3, with the CONTENTS of epstab havoc'd and the element loop of _dea cut from the AST (loop
invariant k_1 == n-2i, n unchanged, result/abserr arbitrary), one call on every data path:
  D1  raises nothing (index errors would surface natively: indices are concrete, data symbolic)
  D2  result and abserr are defined (every selected division has a non-zero denominator on that path)
  D3  abserr >= 5*EPS*|result| from the third term on: in every state with n >= 2 or _nres >= 1 (the latter covers the calls
      that follow a guard-triggered truncation of the table to fewer than three elements -- finding F11)
  D4  re-establishes J   => by induction over calls: sequences of ANY length are accepted
  D6  element rule (loop body cut from the AST, arbitrary iteration i, havoc'd table, continuing = no-guard paths): the new
      element is Wynn's cross rule e_1 + 1/(1/(e_1-e_3) + 1/(e_2-e_1) - 1/(e_1-e_0)) of its four neighbours, nothing else is
      written, and (result, abserr) is replaced by (new, |e_2-e_1|+|new-e_2|+|e_1-e_0|) exactly when that error is not larger.
      With the shift contract S (_shift_table == qelg's table shift, every admissible (limexp, old_n, n)) this gives by
      induction (by hand): outside the guards the table holds the even columns of Wynn's epsilon table, HUGE boundary
  D7  on a path where no guard fires the table is shifted with n unchanged, and a full table (n == limexp-1) drops exactly its
      oldest element (n -> limexp-2): the extrapolation keeps running over the most recent limexp-1 terms
  D5  the first three terms: Dea == e_1 + 1/(1/d2 - 1/d1 + 1/(e_1 - HUGE)) outside the guards (dea3's formula with the
      1/HUGE regulariser in place of TINY); first and second call return the term itself
"""
from fractions import Fraction
import numpy as np
import z3
from ndvc import solve, cut, xcheck
from ndvc.sym import R, real, lift, CTX, explore, NeedsConcrete, _frac, hyps
from ndvc.arr import SymArr, asobj
from ndvc.overlay import installed
from .common import mods

ID = 'C14'
TRUSTED = ['A1 float == real; A2 object arrays == float arrays',
           'M5 Shanks: the even columns of Wynn\'s epsilon table are exact for a limit plus k geometric transients from '
           '2k+1 terms (proved here for k = 1 only; the code is shown to BE Wynn\'s table)',
           'induction over calls from the per-call obligations D1-D4 (by hand)',
           'z3 / cvc5 as deciders']
ASSUMPTIONS = ['EpsAlg: no difference of the epsilon table is within 1e-60 of zero', 'finite real input']
NOT_DECIDED = ['behaviour inside the convergence / irregularity guards beyond totality; rounding']
BOUNDED = ['dea-concrete (second obligation): EpsAlg and Dea fed integer-typed terms (python ints, numpy integers, integer partial sums) compared with the same terms as floats, 15 cases -- executed, not proved',
           'dea-concrete: Dea on 49 concrete (sequence, limexp) cases incl. sequences that hit the guards on the first terms (floating point; finite values, error floor, agreement with dea3, transients recovered) -- executed, not proved (non-finite sentinels such as inf cannot be represented as reals in the symbolic harness)',
           'EpsAlg table identity: sequence length <= 9 (both tiers) -- the state grows with the length',
           'Dea: limexp enumerated (3,5,7,9,11,21,61 in both tiers with all admitted n for limexp <= 11 and '
           'n in {2,3,limexp-3,limexp-2,limexp-1}, cut positions {0,1,mid,last} for the large tables); table contents '
           'universally quantified']
QUANTIFIED = 'all sequence terms and all table contents: universally quantified reals'


def lim_grid(tier):
    # the whole grid runs in about 30 s on 16 cores, so the quick tier is no longer a sub-grid of the thorough one
    return [3, 5, 7, 9, 11, 21, 61]


def enumerated(tier):
    return 'limexp in %s x n x _nres in 0..3 x cut position; EpsAlg lengths 1..%d' % (lim_grid(tier), 9)


def groups(tier):
    out = [('epsalg', ('epsalg', 9)), ('epsalg-geometric', ('geo',))]
    for L in lim_grid(tier):
        ns = list(range(0, L)) if L <= 11 else sorted({0, 1, 2, 3, L - 3, L - 2, L - 1})
        for n in ns:
            out.append(('dea[limexp=%d,n=%d]' % (L, n), ('dea', L, n)))
    out.append(('dea-first-terms', ('first',)))
    out.append(('shift-table', ('shift', tier)))
    out.append(('dea-concrete', ('dconc',)))
    return out


def functions_under_contract():
    ex = mods()['ex']
    return [ex.EpsAlg.__call__, ex.Dea.__init__, ex.Dea.limexp, ex.Dea._dea, ex.Dea._shift_table, ex.Dea._update_res3la,
            ex.Dea.__call__]


def ab(v):
    return z3.If(v >= 0, v, -v)


# ------------------------------------------------------------------------------------------------ EpsAlg
def wynn_table(s):
    """ghost spec: eps[k][n], k = -1..; returns dict (k, n) -> R and the list of all differences used"""
    N = len(s)
    eps = {}
    diffs = []
    for n in range(N + 1):
        eps[(-1, n)] = R(0)
    for n in range(N):
        eps[(0, n)] = s[n]
    for k in range(0, N - 1):
        for n in range(0, N - k - 1):
            d = eps[(k, n + 1)] - eps[(k, n)]
            diffs.append(d)
            eps[(k + 1, n)] = eps[(k - 1, n + 1)] + 1.0 / d
    return eps, diffs


def _match_forced(diffs):
    """the precondition |d| > 1e-60 for every ghost-table difference d decides the code's guard `abs(delta) <= 1e-60`
    whenever delta is (structurally) one of those differences: answer False without a solver call; any other
    condition (e.g. a changed threshold) goes to the path driver"""
    conds = []
    for d in diffs:
        conds.append(z3.simplify((abs(d) <= 1.0e-60).t))

    def forced(cond):
        c = z3.simplify(cond)
        for k in conds:
            if c.eq(k):
                return False
        return None
    return forced


def run_epsalg(N):
    ex = mods()['ex']
    with installed(ex):
        s = [real('s%d' % k) for k in range(N)]
        eps, diffs = wynn_table(s)
        tiny = _frac(Fraction(1.0e-60))
        pre = [z3.Or(d.t > tiny, d.t < -tiny) for d in diffs]

        def run():
            ea = ex.EpsAlg()
            outs = []
            tabs = []
            for k in range(N):
                outs.append(ea(s[k]))
                tabs.append(list(ea.epstab))
            return outs, tabs
        paths = explore(run, pre=pre, max_paths=16, forced=_match_forced(diffs))
        solve.fact('epsalg:single-path-under-the-no-vanishing-difference-precondition', len(paths) == 1 and paths[0].exc is None,
                   note='%d paths %s' % (len(paths), [repr(p.exc) for p in paths if p.exc][:1]))
        if len(paths) != 1 or paths[0].exc is not None:
            return {}
        outs, tabs = paths[0].value
        H = pre
        from fractions import Fraction as Fr
        for sd, seq in enumerate([[1.0, 0.5, 0.875, 0.5625, 0.8125, 0.59375, 0.7890625, 0.61, 0.77][:N], [0.5, -1.25, 2.0, 0.75, -0.125, 1.5, 3.25, -2.0, 0.25][:N]]):
            def native(seq=seq):
                ea = ex.EpsAlg()
                o_, t_ = [], []
                for v in seq:
                    o_.append(ea(v)); t_.append(list(ea.epstab))
                return o_, t_
            xcheck.defer('epsalg:engine==CPython[sequence%d]' % sd, paths, {'s%d' % k: Fr(seq[k]) for k in range(N)}, native, rtol=1e-7, atol=1e-9)
        for n in range(N):
            kk = 2 * (n // 2)
            want = eps[(kk, n - kk)]
            same = lift(outs[n]).t.eq(want.t)
            if same:
                solve.fact('epsalg:term%d:returns-eps_%d^(%d)' % (n, kk, n - kk), True, note='structurally identical')
            else:
                solve.prove('epsalg:term%d:returns-eps_%d^(%d)' % (n, kk, n - kk), lift(outs[n]).t == want.t, H)
            # the list holds the anti-diagonal: epstab[j] == eps_{n-j}^{(j)}
            ok = len(tabs[n]) == n + 1
            for j in range(n + 1):
                if not ok:
                    break
                w2 = eps[(n - j, j)]
                if not lift(tabs[n][j]).t.eq(w2.t):
                    st, _, _, _ = solve.check(lift(tabs[n][j]).t == w2.t, H, 10000, want_model=False)
                    ok = ok and st == 'proved'
            solve.fact('epsalg:term%d:list-holds-the-anti-diagonal' % n, ok)
        if N >= 3:
            solve.twin('epsalg:term2-returns-the-raw-term', lift(outs[2]).t == s[2].t, H)
    xcheck.flush()
    return {}


def run_geo():
    ex = mods()['ex']
    with installed(ex):
        L, a, q = real('L'), real('a'), real('q')
        s = [L + a, L + a * q, L + a * q * q]
        eps, diffs = wynn_table(s)
        tiny = _frac(Fraction(1.0e-60))
        pre = [z3.Or(d.t > tiny, d.t < -tiny) for d in diffs] + [a.t != 0, q.t != 0, q.t != 1]

        def run():
            ea = ex.EpsAlg()
            return [ea(v) for v in s]
        paths = explore(run, pre=pre, max_paths=16, forced=_match_forced(diffs))
        solve.fact('epsalg:geometric:single-path', len(paths) == 1 and paths[0].exc is None)
        if len(paths) == 1 and paths[0].exc is None:
            out = paths[0].value
            solve.prove('epsalg:L+a*q^n(3-terms)->L', lift(out[2]).t == L.t, pre)
            solve.prove('epsalg:first-two-terms-returned-as-is', z3.And(lift(out[0]).t == s[0].t, lift(out[1]).t == s[1].t), pre)
    return {}


# ------------------------------------------------------------------------------------------------ Dea
class InvOK(Exception):
    pass


def run_dea(limexp, n):
    ex = mods()['ex']
    info = dict(paths=0, J_broken=[])
    cntr = [0]

    def fresh(tag):
        cntr[0] += 1
        return real('%s_%d' % (tag, cntr[0]))
    with installed(ex):
        pre_f, it_f, post_f, names, text = cut.split(ex.Dea._dea, 0)
        EPS = _frac(Fraction(float(ex._EPS)))
        Lodd = 2 * (limexp // 2) + 1
        solve.fact('J:init', (lambda d: d._n == 0 and d._nres == 0 and len(d.epstab) == Lodd + 5 and d.limexp == Lodd)(ex.Dea(limexp=limexp)))
        if n > Lodd - 1:
            return info
        newelm = n // 2
        if n < 2:
            cuts = [('direct',)]
        else:
            pos = list(range(newelm))
            if limexp > 11 and len(pos) > 4:
                pos = sorted({0, 1, newelm // 2, newelm - 1})
            cuts = [('exit',)] + [('iter', i) for i in pos]
        for nres in (0, 1, 2, 3):
            for where in cuts:
                tag = 'nres=%d,%s:' % (nres, '-'.join(str(w) for w in where))

                def one_call():
                    d = ex.Dea(limexp=limexp)
                    d._n = n
                    d._nres = nres
                    d.epstab = SymArr([fresh('t') for _ in range(len(d.epstab))])
                    s_value = fresh('s')

                    def dea_cut(epstab, n_):
                        loc, rng = pre_f(d, epstab, n_)
                        loc = dict(loc)
                        if where[0] == 'iter':
                            i = where[1]
                            if i not in rng:
                                raise NeedsConcrete('cut position outside the loop range')
                            for k in range(len(epstab)):
                                epstab[k] = fresh('t')
                            loc.update(k_1=n_ - 2 * i, abserr=fresh('abserr'), result=fresh('result'), all_converged=False)
                            before = list(epstab)
                            res_before, err_before = loc['result'], loc['abserr']
                            args = {k: loc.get(k) for k in names}
                            args['i'] = i
                            tag_, loc2 = it_f(**args)
                            if tag_ == 'next':
                                ok = loc2['k_1'] == n_ - 2 * (i + 1) and loc2['n'] == loc['old_n'] and loc2['all_converged'] is False \
                                    and loc2['epstab'] is epstab
                                raise InvOK(ok, dict(k_1=n_ - 2 * i, before=before, after=list(epstab), result=(res_before, loc2['result']),
                                                     abserr=(err_before, loc2['abserr']), hyps=hyps()))
                            return post_f(**{k: loc2.get(k) for k in names})
                        for k in range(len(epstab)):
                            epstab[k] = fresh('t')
                        loc.update(k_1=n_ - 2 * len(rng), abserr=fresh('abserr'), result=fresh('result'), all_converged=False,
                                   i=len(rng) - 1)
                        return post_f(**{k: loc.get(k) for k in names})
                    shifts = []
                    orig_shift = d._shift_table
                    d._shift_table = lambda epstab_, n_arg, newelm_, old_n_: (shifts.append((n_arg, old_n_)), orig_shift(epstab_, n_arg, newelm_, old_n_))[1]
                    if where[0] != 'direct':
                        d._dea = dea_cut
                    try:
                        r = ex.Dea.__call__(d, s_value)
                    except InvOK as e:
                        return ('loop-invariant', e.args[0], e.args[1] if len(e.args) > 1 else None, None)
                    return ('returned', (d._n, d._nres, len(d.epstab), d.limexp, tuple(shifts)), r, hyps())
                paths = explore(one_call, catch=(IndexError, ValueError, TypeError, KeyError, AttributeError, ZeroDivisionError), max_paths=4096)
                info['paths'] += len(paths)
                solve.fact(tag + 'D1:no-exception-on-any-of-%d-paths' % len(paths), all(p.exc is None for p in paths),
                           note=str([repr(p.exc)[:100] for p in paths if p.exc][:2]))
                okJ = True
                okInv = True
                badJ = None
                for pi, p in enumerate(paths):
                    if p.exc is not None:
                        continue
                    kind, st, r, _ = p.value
                    if kind == 'loop-invariant':
                        okInv = okInv and bool(st)
                        if r is not None:
                            # D6 element rule on a continuing (no guard fired) path: the new table element is Wynn's cross rule
                            #   1/(new - C) + 1/(W - C) == 1/(N - C) + 1/(S - C)   with  C = epstab[k_1-1] (e_1),
                            #   W = old epstab[k_1] (e_3), N = epstab[k_1-2] (e_0), S = epstab[k_1+2] (e_2)
                            # written for `new`; every other table element keeps its value except epstab[k_1] (frame)
                            k1 = r['k_1']; bf, af = r['before'], r['after']
                            e0, e1, e2, e3 = [lift(bf[j]).t for j in (k1 - 2, k1 - 1, k1 + 2, k1)]
                            sss = 1 / (e1 - e3) + 1 / (e2 - e1) - 1 / (e1 - e0)
                            H = r['hyps']
                            solve.prove(tag + 'path%d:D6:new-element==cross-rule(e_1+1/(1/(e_1-e_3)+1/(e_2-e_1)-1/(e_1-e_0)))' % pi,
                                        lift(af[k1]).t == e1 + 1 / sss, H)
                            # D2 inside the loop: on a continuing path every division had a non-zero denominator
                            tt_ = z3.BoolVal(True)
                            dfs = [lift(af[k1]).dfn, lift(r['result'][1]).dfn, lift(r['abserr'][1]).dfn]
                            solve.prove(tag + 'path%d:D2:new-element,result,abserr-defined-on-the-continuing-path' % pi,
                                        z3.And(*[d_ if d_ is not None else tt_ for d_ in dfs]), H)
                            solve.fact(tag + 'path%d:D6:frame:only-epstab[k_1]-is-written' % pi,
                                       all(lift(a_).t.eq(lift(b_).t) for j, (a_, b_) in enumerate(zip(af, bf)) if j != k1))
                            # result / abserr: either kept, or replaced by the new element with error |e2-e1| + |new-e2| + |e1-e0|
                            rb, ra = lift(r['result'][0]).t, lift(r['result'][1]).t
                            eb, ea = lift(r['abserr'][0]).t, lift(r['abserr'][1]).t
                            errn = ab(e2 - e1) + ab(lift(af[k1]).t - e2) + ab(e1 - e0)
                            solve.prove(tag + 'path%d:D6:result-is-the-element-with-the-smaller-error-estimate' % pi,
                                        z3.Or(z3.And(ra == rb, ea == eb, errn > eb), z3.And(ra == lift(af[k1]).t, ea == errn, errn <= eb)), H)
                        continue
                    n2, nres2, ln, lx, shifts_ = st
                    if where[0] in ('exit', 'direct') and n >= 2 and shifts_:
                        # D7 no guard fired on this path (the loop ran to its end): the table is shifted by one element; when it is full
                        # (n == limexp-1) exactly the oldest element is dropped (n -> limexp-2), otherwise nothing is dropped
                        want_n = Lodd - 2 if n == Lodd - 1 else n
                        solve.fact(tag + 'path%d:D7:full-table-drops-exactly-its-oldest-element(_shift_table(n=%d,old_n=%d))' % (pi, want_n, n),
                                   shifts_ == ((want_n, n),), note=str(shifts_))
                    J = (0 <= n2 <= lx - 1) and nres2 >= 0 and ln == lx + 5 and lx == Lodd
                    if not J:
                        okJ = False
                        badJ = (n2, nres2, ln, lx)
                    res, abserr = r
                    res, abserr = lift(res), lift(abserr)
                    tt = z3.BoolVal(True)
                    solve.prove(tag + 'path%d:D2:result-and-abserr-defined' % pi,
                                z3.And(res.dfn if res.dfn is not None else tt, abserr.dfn if abserr.dfn is not None else tt), p.hyps)
                    if n >= 2 or nres >= 1:
                        # at least three terms have been fed: n >= 2 elements in the table, or an earlier call already ran the
                        # extrapolation (_nres >= 1) and a guard has since cut the table back to fewer than three elements
                        solve.prove_lin(tag + 'path%d:D3:abserr>=5*EPS*|result|' % pi, abserr.t >= 5 * EPS * ab(res.t), p.hyps)
                    solve.prove_lin(tag + 'path%d:abserr>=0' % pi, abserr.t >= 0, p.hyps)
                solve.fact(tag + 'D4:J-re-established-on-every-returning-path', okJ, note=str(badJ))
                solve.fact(tag + 'loop-invariant-re-established-on-every-continuing-path', okInv)
                if not okJ:
                    info['J_broken'].append([limexp, n, nres, list(where), list(badJ)])
    return info


def run_first():
    ex = mods()['ex']
    with installed(ex):
        s0, s1, s2 = real('s0'), real('s1'), real('s2')
        EPS = _frac(Fraction(float(ex._EPS)))
        HUGE = _frac(Fraction(float(ex._HUGE)))
        d1, d2 = (s1 - s0).t, (s2 - s1).t
        tol1 = z3.If(ab(s1.t) >= ab(s0.t), ab(s1.t), ab(s0.t)) * EPS
        tol2 = z3.If(ab(s2.t) >= ab(s1.t), ab(s2.t), ab(s1.t)) * EPS

        def run():
            d = ex.Dea(limexp=7)
            return [d(v) for v in (s0, s1, s2)], d._n
        # outside the guards: differences not converged, HUGE regulariser far away, not irregular
        HUGE_R = R(Fraction(float(ex._HUGE)))
        sssR = 1.0 / (s1 - HUGE_R) + 1.0 / (s2 - s1) - 1.0 / (s1 - s0)      # same operation order as _dea
        specR = s1 + 1.0 / sssR
        sss = sssR.t
        pre = [ab(d1) > tol1, ab(d2) > tol2, ab(s1.t) < HUGE / 4, ab(s0.t) < HUGE / 4, ab(s2.t) < HUGE / 4,
               ab(sss * s1.t) > _frac(Fraction(1e-4))]
        paths = explore(run, pre=pre, max_paths=64)
        solve.fact('first:no-exception', all(p.exc is None for p in paths), note=str([repr(p.exc) for p in paths if p.exc][:1]))
        from fractions import Fraction as Fr
        for tri in [(1.0, 1.5, 1.75), (2.0, -1.0, 0.5), (0.5, 4.0, -3.0)]:
            def native(tri=tri):
                d = ex.Dea(limexp=7)
                return [tuple(d(v)) for v in tri], d._n
            xcheck.defer('first:engine==CPython%s' % (tri,), paths, {'s0': Fr(tri[0]), 's1': Fr(tri[1]), 's2': Fr(tri[2])}, native, rtol=1e-9, atol=1e-300)
        got_shanks = []
        for pi, p in enumerate(paths):
            if p.exc is not None:
                continue
            (r0, r1, r2), n_after = p.value
            solve.prove('first:path%d:term1-returned-with-abserr==|s0|' % pi, z3.And(lift(r0[0]).t == s0.t, lift(r0[1]).t == ab(s0.t)), p.hyps)
            solve.prove('first:path%d:term2-returned-with-abserr==6|s1-s0|' % pi, z3.And(lift(r1[0]).t == s1.t, lift(r1[1]).t == 6 * ab(d1)), p.hyps)
            is_shanks = lift(r2[0]).t.eq(specR.t)
            got_shanks.append(is_shanks)
            # the only other admissible outcome is the raw term (taken when the error estimate exceeds HUGE: outside
            # the moderate-magnitude domain)
            solve.fact('first:path%d:term3-is-Shanks-with-1/HUGE-regulariser-or-the-raw-term' % pi,
                       is_shanks or lift(r2[0]).t.eq(s2.t))
            solve.prove_lin('first:path%d:term3:abserr>=5*EPS*|result|' % pi, lift(r2[1]).t >= 5 * EPS * ab(lift(r2[0]).t), p.hyps)
            solve.fact('first:path%d:n-advanced-to-3' % pi, n_after == 3)
        solve.fact('first:some-path-returns-the-Shanks-value', any(got_shanks))
        # exact Shanks identity shared with dea3 (C13): e1 + 1/(1/d2 - 1/d1) is the limit of a geometric triple
        L, a, q = real('L'), real('a'), real('q')
        e0, e1, e2 = L + a, L + a * q, L + a * q * q
        solve.prove('first:exact-Shanks-identity(shared-with-dea3)', e1.t + 1 / (1 / (e2 - e1).t - 1 / (e1 - e0).t) == L.t,
                    [a.t != 0, q.t != 0, q.t != 1])
    xcheck.flush()
    return {}


def qelg_shift(tab, n0, newelm, old_n0):
    """reference: the table shift of QUADPACK's qelg (labels 50-80), transcribed with its 1-based indices.
    num = number of elements before the call's adjustment, n = number kept:  after the stride-2 shift the LAST n
    elements of the shifted table (those ending with the newest one, epstab(num)) are moved to the front."""
    e = {i + 1: tab[i] for i in range(len(tab))}          # 1-based view
    num, n = old_n0 + 1, n0 + 1
    ib = 2 if (num // 2) * 2 == num else 1
    ie = newelm + 1
    for _ in range(ie):
        ib2 = ib + 2
        e[ib] = e[ib2]
        ib = ib2
    if num != n:
        indx = num - n + 1
        for i in range(1, n + 1):
            e[i] = e[indx]
            indx += 1
    return [e[i + 1] for i in range(len(tab))]


def run_shift(tier):
    """contract of Dea._shift_table: for every table size, every element count old_n admitted by J and every n the call can
    pass (old_n itself, the truncations n = 2i of the guards, the cap limexp-2), on a table of distinct opaque symbols
    the result is the table produced by qelg's shift; in particular the newest entry is retained at position n"""
    ex = mods()['ex']
    cnt = 0
    bad = []
    sizes = list(range(3, 22, 2)) + ([] if tier == 'quick' else list(range(23, 62, 2)))
    for L in sizes:
        for old_n in range(0, L):
            newelm = old_n // 2
            ns = sorted({old_n} | {2 * i for i in range(newelm)} | ({L - 2} if old_n == L - 1 else set()))
            for n in ns:
                tab = SymArr([real('t%d' % k) for k in range(L + 5)])
                ref = qelg_shift(list(tab), n, newelm, old_n)
                got = ex.Dea._shift_table(tab, n, newelm, old_n)
                cnt += 1
                same = got is tab and all(lift(a).t.eq(lift(b).t) for a, b in zip(list(got), ref))
                # the block the next call reads, epstab[0..n], ends with the newest entry of the shifted table
                newest = ref[n]
                if not same:
                    bad.append((L, old_n, n, [str(x) for x in list(got)[:n + 1]], [str(x) for x in ref[:n + 1]]))
    solve.fact('_shift_table==qelg-table-shift-on-opaque-tables[%d (limexp, old_n, n) combinations]' % cnt, not bad, note=str(bad[:1])[:400])
    info = dict(shift_combinations=cnt)
    return info


def run_dconc():
    from .common import defaults_facts
    defaults_facts(['extrapolation.Dea.__init__'])
    from ndvc.concrete import dea_cases
    cnt, bad = dea_cases(mods()['ex'])
    solve.fact('Dea-on-concrete-sequences:finite,floor,first-three-terms==dea3,transients-recovered,limit-kept-with-a-full-table[%d cases]' % cnt, not bad, kind='bounded', note=str(bad[:2])[:400])
    from ndvc.concrete import epsilon_integer_cases
    cnt, bad = epsilon_integer_cases(mods()['ex'])
    solve.fact('integer-typed-terms:EpsAlg-and-Dea-return-what-the-same-terms-as-floats-give[%d cases]' % cnt, not bad, kind='bounded', note=str(bad[:2])[:400])
    return {}

def run_group(args):
    if args[0] == 'dconc':
        return run_dconc()
    if args[0] == 'shift':
        return run_shift(args[1])
    if args[0] == 'epsalg':
        return run_epsalg(args[1])
    if args[0] == 'geo':
        return run_geo()
    if args[0] == 'dea':
        return run_dea(args[1], args[2])
    return run_first()


def replay_case(ob):
    if ob['name'].startswith('dea-concrete/'):
        return dict(kind='C14.dconc')
    if ob['name'].startswith('shift-table/'):
        return dict(kind='C14.shift')
    import re
    nm = ob['name']
    mm = re.search(r'dea\[limexp=(\d+),n=(\d+)\]', nm)
    if mm:
        return dict(kind='C14.dea', limexp=int(mm.group(1)), n=int(mm.group(2)))
    if nm.startswith('epsalg'):
        return dict(kind='C14.epsalg')
    return dict(kind='C14.dea', limexp=7, n=2)
