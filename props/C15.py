"""C15 -- fd_weights equal the exact Lagrange-derivative weights for any distinct nodes.

Inductive proof over the outer loop of the real fornberg._fd_weights_all, cut mechanically from the AST on every run:
  base   after the real prefix: weights[0,0] == 1, everything else 0, c_1 == 1, c_4 == x[0]-x0, the loop runs i = 1..m-1
  step   for ARBITRARY old weights (rows < i havoc'd, zero pattern of the invariant) one execution of the extracted loop
         body for index i yields, entry by entry, the Taylor coefficients at x0 of
             l_v(x0+t) * (x0+t-x_i)/(x_v-x_i)                     (v < i: old basis polynomial times the new linear factor)
             l_{i-1}(x0+t) * (x0+t-x_{i-1}) * c_1/prod_{v<i}(x_i-x_v)   (the new node)
         computed in the contract by generic truncated polynomial multiplication (the DEFINITION of the Lagrange basis
         on one more node: trusted lemma M5), and the carried scalars c_1' == prod_{v<i}(x_i-x_v), c_4' == x_i-x0
  exit   the real suffix after the loop changes nothing; fd_weights_all allocates zeros((m, n+1)), hands the caller's x,
         x0, n unchanged to _fd_weights_all, returns the transpose; fd_weights returns row n; n >= len(x) raises ValueError
  direct for m <= 3 the moment identities sum_v W[k,v](x_v-x0)^d == k! [d==k] are proved on the real fd_weights_all
"""
import math
import numpy as np
import z3
from ndvc import solve, cut, xcheck
from ndvc.sym import R, real, lift, CTX, explore, NeedsConcrete
from ndvc.arr import SymArr, asobj
from ndvc.overlay import installed
from .common import mods

ID = 'C15'
TRUSTED = ['A1 float == real; A2 object arrays == float arrays',
           'M5 (definition of the Lagrange basis): the basis polynomial of node v on nodes 0..i is the one on nodes 0..i-1 '
           'times (t-x_i)/(x_v-x_i); the one of the new node i is prod_{v<i}(t-x_v)/prod_{v<i}(x_i-x_v).  The induction '
           'from the proved base/step/exit obligations to "row k == k-th derivative of the Lagrange basis" is by hand.',
           'z3 / cvc5 as deciders of polynomial identities (denominators cleared, node differences != 0)']
ASSUMPTIONS = ['nodes pairwise distinct (property precondition); any order, any spacing, any x0']
NOT_DECIDED = ['rounding scaled by the conditioning of the node set']
BOUNDED = ['exact-weights: fd_weights_all / fd_weights on floats against exact rational Lagrange weights for 120 (node set, x0, n) cases: up to 14 nodes and order 13, node sets at scale 2**-30 and 2**20, nearly equidistant nodes -- executed, not proved',
           'call-history: sequences of calls in one process on nearly coinciding node sets (spacings 1e-13, shifts of 1e-13, translated stencils, same nodes with another x0), each answer against the exact rational weights of its own nodes -- executed, not proved (the proved step/base/exit obligations are per call; that nothing is carried between calls is the frame:shared-state obligation)',
           'integer-nodes: integer-typed node lists / arrays with fractional x0 compared with float nodes on concrete cases (executed with the real numpy, not proved)',
           'the loop index i must be concrete for numpy (np.arange): the step is checked for every i <= m-1 with m up to 14 '
           '(the property\'s range); the state is havoc\'d, so each step is independent of how many iterations precede']
QUANTIFIED = 'all nodes x_v, x0, and all old weights W[v,k] of the invariant: universally quantified reals'


def grid(tier):
    if tier == 'quick':
        # every node count up to 9 with every order (each group < 10 s); 10..14 nodes stay in the thorough tier
        return [(m, n) for m in range(2, 10) for n in range(1, m)] + [(2, 0), (5, 0)]
    return [(m, n) for m in range(2, 15) for n in range(1, m)] + [(m, 0) for m in (2, 5, 14)]


def enumerated(tier):
    g = grid(tier)
    return '(m, n) in %s... (%d pairs) x every loop index i < m' % (g[:6], len(g))


def groups(tier):
    out = []
    byM = {}
    for m, n in grid(tier):
        byM.setdefault(m, []).append(n)
    for m, ns in sorted(byM.items()):
        out.append(('step[m=%d]' % m, ('step', m, ns)))
    out.append(('base+exit', ('base',)))
    out.append(('wrappers', ('wrappers',)))
    out.append(('direct', ('direct',)))
    out.append(('exact-weights', ('exactw',)))
    out.append(('integer-nodes', ('intnodes',)))
    out.append(('call-history', ('history',)))
    return out


def functions_under_contract():
    fb = mods()['fb']
    return [fb._fd_weights_all, fb.fd_weights_all, fb.fd_weights]


def polymul_trunc(p, q, n):
    out = [R(0)] * (n + 1)
    for ai, a in enumerate(p):
        for bi, b in enumerate(q):
            if ai + bi <= n:
                out[ai + bi] = out[ai + bi] + a * b
    return out


def run_step(m, ns):
    fb = mods()['fb']
    info = dict(cut_text=None)
    with installed(fb):
        pre_f, it_f, post_f, names, text = cut.split(fb._fd_weights_all, 0)
        info['cut_text'] = text[:1500]
        for n in ns:
            for i in range(1, m):
                solve.GROUP[0] = 'step[m=%d]/n=%d,i=%d/' % (m, n, i)
                CTX.reset()
                xs = SymArr([real('x%d' % k) for k in range(m)])
                x0 = real('xe')
                W = np.empty((m, n + 1), dtype=object)
                for v in range(m):
                    for k in range(n + 1):
                        W[v, k] = real('W_%d_%d' % (v, k)) if (v < i and k <= min(i - 1, n)) else R(0)
                W = W.view(SymArr)
                Wold = np.asarray(W).copy()
                c1 = real('c1')
                c4 = xs[i - 1] - x0
                state = dict(weights=W, x=xs, x0=x0, n=n, m=m, c_1=c1, c_4=c4, i=i)
                args = {k: state.get(k) for k in names}
                tag, loc = it_f(**args)
                solve.fact('body-falls-through', tag == 'next')
                Wn = loc['weights']
                solve.fact('weights-updated-in-place', Wn is W)

                def taylor(row):
                    return [row[k] / math.factorial(k) for k in range(n + 1)]
                for v in range(i):
                    den = (xs[v] - xs[i])
                    new = polymul_trunc(taylor(Wold[v]), [(x0 - xs[i]) / den, 1 / den], n)
                    for k in range(n + 1):
                        solve.ident('row%d,k=%d' % (v, k), lift(Wn[v, k]).t, (new[k] * math.factorial(k)).t, [den.t])
                prod = R(1)
                for v in range(i):
                    prod = prod * (xs[i] - xs[v])
                c2 = loc['c_2']
                solve.prove('c_2==prod(x_i-x_v)', lift(c2).t == prod.t, [])
                P = z3.Real('P')
                new = polymul_trunc(taylor(Wold[i - 1]), [(x0 - xs[i - 1]) * c1 / R(P), c1 / R(P)], n)
                for k in range(n + 1):
                    got = z3.substitute(lift(Wn[i, k]).t, (lift(c2).t, P))
                    solve.ident('newrow,k=%d' % k, got, (new[k] * math.factorial(k)).t, [P])
                solve.prove('carried:c_1==c_2', lift(loc['c_1']).t == lift(c2).t, [])
                solve.prove('carried:c_4==x_i-x0', lift(loc['c_4']).t == (xs[i] - x0).t, [])
                # rows beyond i untouched (stay zero)
                ok = True
                for v in range(i + 1, m):
                    for k in range(n + 1):
                        ok = ok and z3.is_rational_value(z3.simplify(lift(Wn[v, k]).t)) and z3.simplify(lift(Wn[v, k]).t).as_fraction() == 0
                for k in range(min(i, n) + 1, n + 1):
                    for v in range(i + 1):
                        ok = ok and z3.simplify(lift(Wn[v, k]).t).eq(z3.RealVal(0))
                solve.fact('zero-pattern-preserved', ok)
                if n == ns[0] and i == 1:
                    solve.twin('row0,k=0-unchanged', lift(Wn[0, 0]).t == Wold[0, 0].t, [(xs[0] - xs[1]).t != 0])
    return info


def run_base():
    fb = mods()['fb']
    with installed(fb):
        pre_f, it_f, post_f, names, text = cut.split(fb._fd_weights_all, 0)
        for m, n in [(2, 1), (4, 2), (5, 4), (7, 3)]:
            CTX.reset()
            xs = SymArr([real('x%d' % k) for k in range(m)])
            x0 = real('xe')
            W = fb.np.zeros((m, n + 1))
            loc, rng = pre_f(W, xs, x0, n)
            tag = 'm=%d,n=%d:' % (m, n)
            solve.fact(tag + 'loop-range==1..m-1', list(rng) == list(range(1, m)))
            solve.prove(tag + 'base:c_1==1', lift(loc['c_1']).t == 1, [])
            solve.prove(tag + 'base:c_4==x[0]-x0', lift(loc['c_4']).t == (xs[0] - x0).t, [])
            Wb = asobj(loc['weights'])
            ok = all((z3.simplify(lift(Wb[v, k]).t).eq(z3.RealVal(1 if (v, k) == (0, 0) else 0))) for v in range(m) for k in range(n + 1))
            solve.fact(tag + 'base:weights==e_00', ok)
            # exit: suffix leaves the table unchanged (havoc'd full table)
            Wf = np.empty((m, n + 1), dtype=object)
            for v in range(m):
                for k in range(n + 1):
                    Wf[v, k] = real('F_%d_%d' % (v, k))
            Wf = Wf.view(SymArr)
            before = [t.t for t in np.asarray(Wf).ravel()]
            st = dict(weights=Wf, x=xs, x0=x0, n=n, m=m, c_1=real('c1'), c_4=real('c4'), i=m - 1, c_2=real('c2'),
                      c_3=real('c3'), c_5=real('c5'), c_6=SymArr([real('c6')]), c_7=SymArr([real('c7')]), v=m - 2,
                      j=np.arange(0, min(m - 1, n) + 1))
            paths = explore(lambda: post_f(**{k: st.get(k) for k in names}))
            solve.fact(tag + 'exit:single-path', len(paths) == 1 and paths[0].exc is None,
                       note=str([repr(p.exc) for p in paths if p.exc][:1]))
            after = [lift(t).t for t in np.asarray(Wf).ravel()]
            solve.fact(tag + 'exit:suffix-leaves-weights-unchanged', all(a.eq(b) for a, b in zip(before, after)))
            solve.fact(tag + 'exit:returns-None', paths[0].value is None if paths and paths[0].exc is None else False)
    return dict()


def run_wrappers():
    from .common import defaults_facts
    defaults_facts(['fornberg.fd_weights', 'fornberg.fd_weights_all'])
    fb = mods()['fb']
    with installed(fb):
        seen = {}
        orig = fb._fd_weights_all

        def spy(weights, x, x0, n):
            seen['args'] = (weights, x, x0, n)
            seen['init'] = np.asarray(weights).copy()
            for v in range(weights.shape[0]):
                for k in range(weights.shape[1]):
                    weights[v, k] = real('S_%d_%d' % (v, k))
        fb._fd_weights_all = spy
        try:
            # concrete, deliberately unsorted nodes: the wrapper must hand them on in the caller's order
            for nodes in ([0.0, 0.5, -0.5, 1.0, -1.0], [3.0, 2.0, 1.0, 0.5], [2.0, 1.0]):
                out = fb.fd_weights_all(np.array(nodes), 0.25, 1)
                w, xa, x0a, na = seen['args']
                solve.fact('concrete-nodes%s-passed-unchanged-in-caller-order' % (nodes,),
                           [float(v) for v in xa] == nodes and float(x0a) == 0.25 and na == 1)
            for m, n in [(2, 1), (3, 1), (5, 2), (6, 5), (4, 0)]:
                CTX.reset()
                xs = SymArr([real('x%d' % k) for k in range(m)])
                x0 = real('xe')
                pp = explore(lambda: fb.fd_weights_all(xs, x0, n), max_paths=8)
                tag = 'm=%d,n=%d:' % (m, n)
                solve.fact(tag + 'wrapper-single-path', len(pp) == 1 and pp[0].exc is None)
                out = pp[0].value
                w, xa, x0a, na = seen['args']
                solve.fact(tag + 'table-allocated-(m,n+1)-zeros', seen['init'].shape == (m, n + 1) and
                           all(z3.simplify(lift(t).t).eq(z3.RealVal(0)) for t in seen['init'].ravel()))
                solve.fact(tag + 'nodes-passed-unchanged-in-caller-order', len(xa) == m and all(lift(a).t.eq(b.t) for a, b in zip(xa, xs)))
                solve.fact(tag + 'x0,n-passed-unchanged', lift(x0a).t.eq(x0.t) and na == n)
                solve.fact(tag + 'returns-transpose-(n+1,m)', np.shape(out) == (n + 1, m) and
                           all(lift(out[k, v]).t.eq(z3.Real('S_%d_%d' % (v, k))) for v in range(m) for k in range(n + 1)))
                row = fb.fd_weights(xs, x0, n)
                solve.fact(tag + 'fd_weights==row-n', np.shape(row) == (m,) and all(lift(row[v]).t.eq(z3.Real('S_%d_%d' % (v, n))) for v in range(m)))
            for m, n in [(1, 1), (3, 3), (3, 7), (2, 2)]:
                xs = SymArr([real('x%d' % k) for k in range(m)])
                for fn in ('fd_weights_all', 'fd_weights'):
                    try:
                        getattr(fb, fn)(xs, real('xe'), n)
                        solve.fact('guard:%s(m=%d,n=%d)-raises-ValueError' % (fn, m, n), False)
                    except ValueError:
                        solve.fact('guard:%s(m=%d,n=%d)-raises-ValueError' % (fn, m, n), True)
                    except Exception as e:
                        solve.fact('guard:%s(m=%d,n=%d)-raises-ValueError' % (fn, m, n), False, note=repr(e))
        finally:
            fb._fd_weights_all = orig
    return dict()


def run_direct():
    fb = mods()['fb']
    with installed(fb):
        for m in (2, 3):
            for n in range(0, m):
                CTX.reset()
                xs = SymArr([real('x%d' % k) for k in range(m)])
                x0 = real('xe')
                W = fb.fd_weights_all(xs, x0, n)
                dens = [(xs[a] - xs[b]).t for a in range(m) for b in range(a)]
                for k in range(n + 1):
                    for d in range(m):
                        mom = sum((lift(W[k, v]) * (xs[v] - x0) ** d for v in range(m)), R(0))
                        solve.ident('m=%d,n=%d:row%d-moment%d' % (m, n, k, d), mom.t,
                                    z3.RealVal(math.factorial(k) if d == k else 0), dens)
        # results are values, not views of shared storage: a table held by the caller is not changed by later calls
        for m, n in [(3, 1), (4, 2)]:
            CTX.reset()
            xs = SymArr([real('x%d' % k) for k in range(m)]); ys = SymArr([real('y%d' % k) for k in range(m)])
            x0 = real('xe')
            W1 = fb.fd_weights_all(xs, x0, n)
            r1 = fb.fd_weights(xs, x0, n)
            held = [lift(v).t for v in asobj(W1).ravel()]; held_r = [lift(v).t for v in asobj(r1).ravel()]
            W2 = fb.fd_weights_all(ys, x0, n)
            r2 = fb.fd_weights(ys, x0, n)
            solve.fact('m=%d,n=%d:a-held-table-is-unchanged-by-a-later-call-with-other-nodes' % (m, n),
                       all(a.eq(lift(b).t) for a, b in zip(held, asobj(W1).ravel())) and all(a.eq(lift(b).t) for a, b in zip(held_r, asobj(r1).ravel())) and
                       not np.shares_memory(np.asarray(W1), np.asarray(W2)) and not np.shares_memory(np.asarray(r1), np.asarray(r2)))
        # engine cross-check: the recursion on floats with the real numpy (larger tables than the identities above)
        from fractions import Fraction as Fr
        for m, n in [(2, 1), (3, 2), (5, 3), (6, 2), (7, 4)]:
            CTX.reset()
            xs = SymArr([real('x%d' % k) for k in range(m)])
            x0 = real('xe')
            W = fb.fd_weights_all(xs, x0, n)
            nodes = [((5 * k * k + 3 * k) % 17 - 8) / 4.0 for k in range(m)]
            asg = {'x%d' % k: Fr(nodes[k]) for k in range(m)}; asg['xe'] = Fr(3, 8)
            xcheck.defer('m=%d,n=%d:engine==CPython(fd_weights_all)' % (m, n), W, asg, (lambda nodes=nodes, n=n: fb.fd_weights_all(np.array(nodes), 0.375, n)),
                         rtol=1e-9, atol=1e-10)
    xcheck.flush()
    return dict()


def run_intnodes():
    from ndvc.concrete import fd_weights_integer_cases
    cnt, bad = fd_weights_integer_cases(mods()['fb'])
    solve.fact('integer-typed-nodes-give-the-weights-of-the-same-nodes-as-floats[%d cases]' % cnt, not bad, kind='bounded', note=str(bad[:2])[:300])
    return {}


def run_exactw():
    from ndvc.concrete import fd_weights_exact_cases
    cnt, bad = fd_weights_exact_cases(mods()['fb'])
    solve.fact('fd_weights_all-and-fd_weights==exact-rational-Lagrange-weights(up-to-14-nodes,order-13,scales-2**-30..2**20,nearly-equidistant)[%d cases]' % cnt,
               not bad, kind='bounded', note=str(bad[:1])[:400])
    return {}

def run_history():
    from ndvc.concrete import fd_weights_history_cases
    cnt, bad = fd_weights_history_cases(mods()['fb'])
    solve.fact('every-call-of-a-sequence-on-nearly-coinciding-node-sets==exact-rational-Lagrange-weights-of-its-own-nodes[%d calls]' % cnt,
               not bad, kind='bounded', note=str(bad[:1])[:400])
    return {}


def run_group(args):
    if args[0] == 'history':
        return run_history()
    if args[0] == 'exactw':
        return run_exactw()
    if args[0] == 'intnodes':
        return run_intnodes()
    if args[0] == 'step':
        return run_step(args[1], args[2])
    return {'base': run_base, 'wrappers': run_wrappers, 'direct': run_direct}[args[0]]()


def replay_case(ob):
    if ob['name'].startswith('call-history/') or '/T:' in ob['name']:
        # also for a refuted frame obligation (new module-level state): the observable consequence is history dependence
        return dict(kind='C15.history')
    if ob['name'].startswith('exact-weights/'):
        return dict(kind='C15.exactw')
    if ob['name'].startswith('integer-nodes/'):
        return dict(kind='C15.intnodes')
    if 'held-table' in ob['name']:
        return dict(kind='C15.held')
    import re
    mm = re.search(r'm=(\d+)', ob['name'])
    nn = re.search(r'n=(\d+)', ob['name'])
    return dict(kind='C15.weights', m=int(mm.group(1)) if mm else 5, n=int(nn.group(1)) if nn else 2)
