"""C16 -- fd_derivative is exact on polynomials at every point of any grid, for a grid of ANY length N >= 2*mm+2.

The real fornberg.fd_derivative is executed with grid x and samples fx as vectors of SYMBOLIC length N (SymVec:
elements X(j), FX(j) of uninterpreted functions, every access with an in-bounds obligation).  fd_weights is a contract
stub (C15's postcondition: fresh w with sum_v w_v (x_v - x0)^d == n! [d == n] for d < number of nodes; call-site
obligation n < number of nodes).  The boundary loop runs natively (concrete i < mm); the interior loop is cut from the
AST and its body is executed for an ARBITRARY index mm <= i < N - mm.
  per written element:  expansion point is the grid point written; the window is a run of consecutive grid points of
      length >= degree+1, inside the grid (no silent clipping); the same window is applied to fx; n is forwarded;
      du[idx] == p^(n)(x[idx]) for the generic polynomial of degree 2*mm (linear-combination certificate with the Taylor
      re-expansion of p about x[idx] as multipliers, checked coefficient-wise in the havoc'd weights)
  cover: the boundary indices and the interior range together cover 0..N-1;  output is the length-N vector
  guards: n >= len(x) and len(x) != len(fx) raise ValueError
"""
import math
import numpy as np
import z3
from ndvc import solve, cut
from ndvc.sym import R, Z, real, integer, lift, CTX, explore, NeedsConcrete, hyps
from ndvc.arr import SymArr, asobj
from ndvc.overlay import installed, NpProxy, is_sym
from ndvc.vec import SymVec, SymRange, vc_len, vc_range, in_bounds_obligations
from .common import mods

ID = 'C16'
TRUSTED = ['A1 float == real; A2 object arrays == float arrays',
           'fd_weights by its contract (C15; its obligations are re-discharged in this check as contract:fd_weights[..]): for distinct nodes, sum_v w_v (x_v - x0)^d == n! [d == n] for every '
           'd < number of nodes',
           'grid vectors of symbolic length modelled as uninterpreted functions Int -> Real with explicit in-bounds '
           'obligations (python/numpy negative-index and slice-clipping rules encoded in ndvc.vec.SymVec)',
           'z3 / cvc5 as deciders (polynomial identities; linear integer arithmetic for index obligations)']
ASSUMPTIONS = ['grid points distinct (strict monotonicity of the property is stronger than needed)',
               'N >= 2*(n//2+m)+2 ("long enough for the stencil")']
NOT_DECIDED = ['conditioning-scaled rounding']
BOUNDED = ['grids-and-sample-types: 44 concrete cases (spacings 2**-30 .. 2**20, nearly equidistant, integer-typed, complex samples, strided / reversed / table-column views of the inputs) executed with the real numpy -- not proved; the symbolic harness treats the grid as reals (A1) and cannot see dtype or tolerance effects']
QUANTIFIED = 'grid length N (integer), all grid values X(j), all polynomial coefficients a_d, the interior index i: ' \
             'universally quantified; n, m enumerated over the property\'s range'


def grid(tier):
    # both tiers cover the property's whole (n, m) range (every deriv group takes < 6 s); the tiers differ only in how
    # much of fd_weights' own contract (C15) is re-discharged next to it
    return [(n, m) for n in range(1, 7) for m in range(1, 5)]


def stencils(tier):
    """(number of nodes, derivative order) pairs fd_derivative actually passes to fd_weights on grid(tier)"""
    need = {}
    for n, m in grid(tier):
        need.setdefault(2 * (n // 2 + m) + 2, set()).add(n)
    return sorted((size, sorted(ns)) for size, ns in need.items())


def enumerated(tier):
    return '(n, m) in %s' % (grid(tier),)


def groups(tier):
    out = [('deriv[n=%d,m=%d]' % (n, m), ('deriv', n, m)) for n, m in grid(tier)]
    out.append(('guards', ('guards',)))
    out.append(('grids-and-sample-types', ('grids',)))
    # the deriv groups take fd_weights by its contract (C15): the obligations of that contract are discharged here as well
    from . import C15
    for g, a in C15.groups(tier):
        out.append(('contract:fd_weights[%s]' % g, ('dep', 'C15', 'run_group', (a,), {})))
    # ... and for exactly the stencil sizes and orders fd_derivative asks for (up to 16 nodes at n=6, m=4, which is past
    # C15's own range of 14): the recursion step of _fd_weights_all at that size, for those orders
    for size, ns in stencils(tier):
        out.append(('contract:fd_weights[stencil[nodes=%d]]' % size, ('dep', 'C15', 'run_group', (('step', size, ns),), {})))
    return out


def functions_under_contract():
    return [mods()['fb'].fd_derivative]


class Proxy(NpProxy):
    def zeros_like(self, a, dtype=None, **kw):
        if isinstance(a, SymVec):
            return SymVec('DU', a.n)
        return NpProxy.zeros_like(self, a, dtype=dtype, **kw)


def _env(fb, calls):
    cnt = [0]

    def fd_weights_stub(x, x0=0, n=1):
        nodes = list(asobj(x).ravel())
        cnt[0] += 1
        w = SymArr([real('w%d_%d' % (cnt[0], v)) for v in range(len(nodes))])
        calls.append(dict(w=w, nodes=nodes, x0=x0, n=n, hyps=hyps()))
        return w
    return installed(fb, np=Proxy(), len=vc_len, range=vc_range, fd_weights=fd_weights_stub)


def xarg(t, fname):
    """index argument of an application fname(arg), else None"""
    if z3.is_app(t) and t.decl().name() == fname and t.num_args() == 1:
        return t.arg(0)
    return None


def run_deriv(n, m):
    fb = mods()['fb']
    mm = n // 2 + m
    deg = 2 * mm
    calls = []
    info = {}
    with _env(fb, calls):
        pre_f, it_f, post_f, names, text = cut.split(fb.fd_derivative, 1)
        info['cut_text'] = text[:1200]
        N = integer('N')
        pre = [N.t >= 2 * mm + 2]
        a = [real('a%d' % d) for d in range(deg + 1)]

        def p(t):
            acc = R(0)
            for d in range(deg, -1, -1):
                acc = acc * t + a[d]
            return acc

        def dp(t, k):
            acc = R(0)
            for d in range(deg, k - 1, -1):
                acc = acc * t + a[d] * (math.factorial(d) // math.factorial(d - k))
            return acc
        X = SymVec('X', N)
        FX = SymVec('FX', N)
        state = {}

        def run_prefix():
            del calls[:]
            X.log[:] = []; FX.log[:] = []
            loc, rng = pre_f(FX, X, n, m)
            state['loc'] = loc; state['rng'] = rng
            return loc, rng
        paths = explore(run_prefix, pre=pre)
        solve.fact('prefix:single-path', len(paths) == 1, note='%d paths' % len(paths))
        bad = [q for q in paths if q.exc is not None]
        for q in bad:
            # a grid that is long enough must be accepted: the path condition is a failing class of inputs
            solve.prove('prefix:no-exception-for-N>=2mm+2', z3.Not(z3.And(*q.path)), [], note=repr(q.exc)[:200])
        if bad or not paths:
            return info
        loc, rng = paths[0].value
        du = loc['du']
        solve.fact('du-is-a-length-N-vector', isinstance(du, SymVec) and du.n.t.eq(N.t))
        solve.fact('interior-loop-is-a-range', isinstance(rng, SymRange))
        if not isinstance(du, SymVec) or not isinstance(rng, SymRange):
            return info
        bcalls = list(calls)
        bwrites = list(du.writes)
        solve.fact('boundary:%d-writes-%d-weight-calls' % (2 * mm, 2 * mm), len(bwrites) == 2 * mm and len(bcalls) == 2 * mm,
                   note='%d writes %d calls' % (len(bwrites), len(bcalls)))
        # ---- one arbitrary interior iteration
        i = integer('i')
        ipre = pre + [i.t >= rng.lo.t, i.t < rng.hi.t]
        prefix_path = list(paths[0].path)

        def run_iter():
            del calls[:]
            du.writes[:] = []
            args = {k: loc.get(k) for k in names}
            args['i'] = i
            return it_f(**args)
        ipaths = explore(run_iter, pre=prefix_path + ipre)
        solve.fact('interior:single-path-no-exception', len(ipaths) == 1 and ipaths[0].exc is None,
                   note=str([repr(q.exc) for q in ipaths if q.exc][:1]))
        if len(ipaths) != 1 or ipaths[0].exc is not None:
            return info
        icalls = list(calls)
        iwrites = list(du.writes)
        solve.fact('interior:one-write-one-weight-call', len(iwrites) == 1 and len(icalls) == 1)
        tag_, iloc = ipaths[0].value
        solve.fact('interior:falls-through', tag_ == 'next')
        # ---- suffix
        du.writes[:] = []
        ret = post_f(**{k: iloc.get(k, loc.get(k)) for k in names})
        solve.fact('exit:returns-du-without-further-writes', ret is du and not du.writes)

        # ---- per written element
        def element_obligations(tag, write, call, H):
            t, val, _ = write
            w, nodes, x0, nn = call['w'], call['nodes'], call['x0'], call['n']
            solve.fact(tag + 'n-forwarded', nn == n)
            solve.fact(tag + 'window>=degree+1-nodes(and>n)', len(nodes) >= deg + 1 and len(nodes) > n, note='%d nodes' % len(nodes))
            xa = xarg(lift(x0).t, 'X')
            solve.fact(tag + 'expansion-point-is-a-grid-point', xa is not None)
            if xa is None:
                return
            solve.prove(tag + 'expansion-point-is-the-point-written', xa == t, H)
            args_ = [xarg(lift(v).t, 'X') for v in nodes]
            ok = all(x is not None for x in args_)
            solve.fact(tag + 'window-is-made-of-grid-points', ok)
            if not ok:
                return
            solve.fact(tag + 'window-is-a-run-of-consecutive-grid-points',
                       all(z3.is_int_value(z3.simplify(args_[v] - args_[0])) and z3.simplify(args_[v] - args_[0]).as_long() == v
                           for v in range(len(nodes))))
            # value with fx[j] := p(x[j])  (samples of the polynomial)
            vt = lift(val).t
            subs = []
            seen = set()

            def collect(e):
                if e.get_id() in seen:
                    return
                seen.add(e.get_id())
                if z3.is_app(e) and e.decl().name() == 'FX' and e.num_args() == 1:
                    subs.append((e, p(R(X.f(e.arg(0)))).t))
                for ch in e.children():
                    collect(ch)
            collect(vt)
            solve.fact(tag + 'uses-%d-samples' % len(nodes), len(subs) == len(nodes), note='%d FX terms' % len(subs))
            vt = z3.substitute(vt, *subs) if subs else vt
            goal = R(vt) - dp(lift(x0), n)
            cert = R(0)
            for d in range(deg + 1):
                mom = sum((w[v] * (lift(nodes[v]) - lift(x0)) ** d for v in range(len(nodes))), R(0)) - (math.factorial(n) if d == n else 0)
                cert = cert + dp(lift(x0), d) / math.factorial(d) * mom
            ws = [w[v].t for v in range(len(nodes))]
            diff = (goal - cert).t
            g0 = z3.substitute(diff, *[(s, z3.RealVal(0)) for s in ws])
            solve.prove(tag + 'certificate:constant-part', z3.simplify(g0, som=True, som_blowup=10000000) == 0, [])
            for v in range(len(nodes)):
                gv = z3.substitute(diff, *[(s, z3.RealVal(1 if k == v else 0)) for k, s in enumerate(ws)])
                solve.prove(tag + 'certificate:coefficient-of-w%d' % v, z3.simplify(gv - g0, som=True, som_blowup=10000000) == 0, [])
            # linearity in w: second differences vanish
            if len(ws) >= 2:
                g2 = z3.substitute(diff, *[(s, z3.RealVal(2 if k == 0 else 0)) for k, s in enumerate(ws)])
                g1 = z3.substitute(diff, *[(s, z3.RealVal(1 if k == 0 else 0)) for k, s in enumerate(ws)])
                solve.prove(tag + 'certificate:linear-in-w', z3.simplify(g2 - 2 * g1 + g0, som=True, som_blowup=10000000) == 0, [])
        for k, (wr, cl) in enumerate(zip(bwrites, bcalls)):
            element_obligations('boundary%d:' % k, wr, cl, pre + prefix_path)
        element_obligations('interior:', iwrites[0], icalls[0], prefix_path + ipre + list(ipaths[0].path))
        # must-fail twin: the interior element is NOT the (n+1)-th derivative
        if n + 1 <= deg:
            t, val, _ = iwrites[0]
            solve.twin('interior-value==0', lift(val).t == 0, [])
        # ---- in-bounds for every access (prefix accesses under pre; interior accesses carry their own path)
        k = 0
        for vec in (X, FX, du):
            for desc, goal, H in in_bounds_obligations(vec):
                k += 1
                solve.prove('bounds%d:%s' % (k, desc[:60]), goal, list(H) + ipre)
        # ---- cover
        j = z3.Int('j')
        written = [j == t for t, _, _ in bwrites] + [z3.And(j >= rng.lo.t, j < rng.hi.t)]
        solve.prove('cover:every-index-0..N-1-is-written', z3.Implies(z3.And(j >= 0, j < N.t), z3.Or(*written)), pre + prefix_path)
        solve.prove('cover:interior-range-is-[mm,N-mm)', z3.And(rng.lo.t == mm, rng.hi.t == N.t - mm), pre + prefix_path)
    return info


def run_guards():
    from .common import defaults_facts
    defaults_facts(['fornberg.fd_derivative'])
    fb = mods()['fb']
    calls = []
    with _env(fb, calls):
        for n, m in [(1, 1), (2, 2), (3, 1)]:
            N = integer('N')
            X = SymVec('X', N); FX = SymVec('FX', N)
            paths = explore(lambda: fb.fd_derivative(FX, X, n, m), pre=[N.t >= 0, N.t <= n], catch=(Exception,))
            solve.fact('guard:n=%d,m=%d:len(x)<=n-raises-ValueError-on-every-path' % (n, m),
                       len(paths) >= 1 and all(isinstance(q.exc, ValueError) for q in paths),
                       note=str([repr(q.exc) for q in paths][:2]))
            M = integer('M')
            FX2 = SymVec('FX', M)
            paths = explore(lambda: fb.fd_derivative(FX2, X, n, m), pre=[N.t >= 2 * (n // 2 + m) + 2, M.t >= 0, M.t != N.t],
                            catch=(Exception,))
            solve.fact('guard:n=%d,m=%d:len(fx)!=len(x)-raises-ValueError-on-every-path' % (n, m),
                       len(paths) >= 1 and all(isinstance(q.exc, ValueError) for q in paths),
                       note=str([repr(q.exc) for q in paths][:2]))
    # concrete
    import numpy as np
    for args in [(np.arange(3.0), np.arange(3.0), 3, 1), (np.arange(5.0), np.arange(6.0), 1, 1)]:
        try:
            mods()['fb'].fd_derivative(*args)
            solve.fact('guard:concrete%s' % (tuple(len(a) if hasattr(a, '__len__') else a for a in args),), False)
        except ValueError:
            solve.fact('guard:concrete%s' % (tuple(len(a) if hasattr(a, '__len__') else a for a in args),), True)
    return {}


def run_grids():
    from ndvc.concrete import fd_derivative_grid_cases
    cnt, bad = fd_derivative_grid_cases(mods()['fb'].fd_derivative)
    solve.fact('exact-on-polynomials-for-tiny/huge/nearly-equidistant-spacings,integer-typed-grids,complex-samples[%d concrete grids]' % cnt, not bad,
               kind='bounded', note=str(bad[:2])[:400])
    return {}


def run_group(args):
    if args[0] == 'dep':
        import importlib
        return getattr(importlib.import_module('props.' + args[1]), args[2])(*args[3], **args[4])
    if args[0] == 'grids':
        return run_grids()
    if args[0] == 'deriv':
        return run_deriv(args[1], args[2])
    return run_guards()


def replay_case(ob):
    import re
    if ob['name'].startswith('contract:fd_weights['):
        from . import C15
        # (group names of C15 may themselves contain brackets: step[m=3])
        nm = ob['name'][len('contract:fd_weights['):]
        k = nm.rfind(']/')
        return C15.replay_case(dict(ob, name=nm[:k] + '/' + nm[k + 2:]))
    if ob['name'].startswith('grids-and-sample-types/'):
        return dict(kind='C16.grids')
    mm = re.search(r'deriv\[n=(\d+),m=(\d+)\]', ob['name'])
    mdl = ob.get('model') or {}
    N = None
    try:
        N = int(mdl.get('N'))
    except (TypeError, ValueError):
        pass
    if mm:
        return dict(kind='C16.deriv', n=int(mm.group(1)), m=int(mm.group(2)), N=N)
    return dict(kind='C16.guards')
