"""C17 -- FFT Taylor coefficients (decided core).

  M   _num_taylor_coefficients(n) >= n+1 and a power of two for every n in 1..192 (finite domain, exhaustive evaluation)
  S   derivative(fun, z0, n) == taylor coefficients * k! with error estimates scaled the same way and every other status field
      unchanged (taylor stubbed by symbolic coefficients; factorial by its exact contract)
  F   `failed` is set exactly when the iteration cap was reached: Taylor.__call__ with _check_convergence replaced by a
      scripted oracle (every convergence position 0..max_iter-1 and "never"), iterations / function_count / final_radius
      bookkeeping
  I   per-call initialisation: every private attribute that _check_convergence / _get_m1_m2 read is (re)assigned by
      _initialize() (AST frame scan + poison), so a second call on the same object starts from the same search state
  P   polynomials of degree < m = 8: for symbolic complex coefficients a_j, symbolic complex z0 and ANY positive radius, the
      real FFT pipeline bn = fft(f(circle))/m, bs = bn * r**-k reproduces a_k exactly (DFT over the exact 8-th roots of unity,
      contract of np.fft.fft and np.exp(i theta)); with equal rows the real _extrapolate (richardson) returns them unchanged
      (distinct radii), and dea3 / _get_best_estimate of equal rows return that value (C13, C08)
Not decided: all accuracy / degeneracy clauses for non-polynomial f (behaviour of the radius search on real data).
"""
import ast
import inspect
import itertools
import math
import warnings
from fractions import Fraction
import numpy as np
import z3
from ndvc import solve, xcheck
from ndvc.sym import R, C, real, cplx, lift, CTX, explore, NeedsConcrete, SQRT, parts
from ndvc.arr import SymArr, asobj, wrap
from ndvc.overlay import installed, NpProxy
from .common import mods, fd_env, ALL

ID = 'C17'
TRUSTED = ['A1 float == real', 'dependency contract np.fft.fft (length 8): X_k = sum_n x_n w^(-k n), w the exact 8-th root of unity; '
           'np.exp(2 pi i k/8) == w^k (conformance-tested to 1e-15)', 'scipy.special.factorial == exact k!',
           'C13 (dea3(c,c,c) == c) and C08 (selection returns an entry of its column) for the last step of P']
ASSUMPTIONS = ['radii positive and pairwise distinct', 'the scripted convergence oracle ranges over every outcome of _check_convergence']
NOT_DECIDED = ['coefficient accuracy within the reported error for non-polynomial f; "never degenerate/failed for functions analytic '
               'within distance 1.5" (behaviour of a heuristic search on rounded data)']
BOUNDED = ['taylor-concrete: 95 (function, z0, options) cases x 11 values of n executed in floating point against the known series (n+1 coefficients; with default options never degenerate / failed; error <= 100*estimate + 100*rounding floor), plus 10 cases at the edges of the range (entire functions with vanishing low-order derivatives at z0; n = 53, 60 with a pole 0.002 from z0 started from r = 1e-4, 1e-3) -- a stand-in for the undecided accuracy clauses, never counted as proved; the complex-z0 Nyquist-coefficient cases that fail on the unchanged tree are known finding F16',
           'P: m = 8 only (n <= 6); m = 16 needs the algebraic numbers cos(pi/8), sin(pi/8) and is not attempted']
QUANTIFIED = 'polynomial coefficients, z0 (complex), radii: universally quantified; n enumerated exhaustively for M'


def enumerated(tier):
    return 'n in 1..192 (M); convergence position 0..max_iter (F); m = 8 (P)'


def groups(tier):
    return [('num-coefficients', ('num',)), ('derivative-scaling', ('scale',)), ('failed-flag', ('failed',)), ('initialise', ('init',)),
            ('polynomial[m=8]', ('poly',)), ('acceleration-stages', ('stages',)), ('documented-defaults', ('defaults',)), ('taylor-concrete', ('tconc',)), ('aliasing-removed', ('alias',))]


def functions_under_contract():
    fb = mods()['fb']
    T = fb.Taylor
    return [fb._num_taylor_coefficients, fb._get_logn, fb.derivative, fb.taylor, T.__init__, T._initialize, T.__call__, T._check_convergence,
            fb._circle, fb._extrapolate, fb.richardson, fb._get_best_taylor_coefficients]


def run_num():
    fb = mods()['fb']
    bad = []
    for n in range(1, 193):
        m = int(fb._num_taylor_coefficients(n))
        if not (m >= n + 1 and m & (m - 1) == 0 and m >= 8):
            bad.append((n, m))
    solve.fact('M:m>=n+1-and-power-of-two-for-n-in-1..192(exhaustive)', not bad, note=str(bad[:5]))
    # (the docstring's table -- 32 for 12 < n <= 25, 64 for 25 < n <= 51, 128 for 51 < n <= 103 -- is NOT what the code does at
    # n = 13, 26, 27, 52, where it returns the next smaller power of two, still >= n+1; the property asks for n+1 coefficients only,
    # so the break points are not pinned here.)  m is non-decreasing in n and never more than 8 times n+1:
    ms = [int(fb._num_taylor_coefficients(n)) for n in range(1, 193)]
    solve.fact('M:m(n)-non-decreasing-and-m<=8*(n+1)-for-n-in-1..192', all(a_ <= b_ for a_, b_ in zip(ms, ms[1:])) and all(m_ <= 8 * (n_ + 2) for n_, m_ in enumerate(ms)))
    # (outside the property's range n <= 100; only that a request beyond the largest transform is refused rather than answered)
    try:
        fb._num_taylor_coefficients(193)
        solve.fact('M:n>=193-raises-ValueError', False)
    except Exception:
        solve.fact('M:n>=193-raises-ValueError', True)
    return dict(exhaustive=True)


def run_scale():
    fb = mods()['fb']
    with installed(fb):
        if hasattr(fb, 'factorial') and hasattr(fb.factorial, '__self__'):
            fb.factorial.__self__.exact = True        # dependency contract: exact k!
        for n in (1, 6, 7, 13, 25, 30):
            m = int(fb._num_taylor_coefficients(n))
            coefs = SymArr([cplx('c%d' % k) for k in range(m)])
            errs = SymArr([real('e%d' % k) for k in range(m)])
            info = fb._INFO(errs, 'DEG', final_radius='RAD', function_count='FC', iterations='IT', failed='FAILED')
            seen = {}

            def fake_taylor(fun, z0=0, n=1, **kw):
                seen['args'] = (fun, z0, n, kw)
                return (coefs, info) if kw.get('full_output') else coefs
            old = fb.taylor
            fb.taylor = fake_taylor
            try:
                for full in (True, False):
                    tag = 'S:n=%d,full_output=%s:' % (n, full)
                    fun = object()
                    out = fb.derivative(fun, real('z0'), n=n, full_output=full, r=0.01)
                    der, inf = out if full else (out, None)
                    solve.fact(tag + 'arguments-forwarded-to-taylor', seen['args'][0] is fun and seen['args'][2] == n and seen['args'][3].get('r') == 0.01)
                    ok = len(asobj(der)) == m
                    solve.fact(tag + 'one-derivative-per-coefficient', ok)
                    if not ok:
                        continue
                    for k in sorted({0, 1, 2, m // 2, 20 if m > 20 else m - 1, 21 if m > 21 else m - 1, m - 1}):
                        fk = math.factorial(k)
                        got = C.lift(lift(asobj(der)[k])); want = coefs[k] * fk
                        solve.prove(tag + 'derivative[%d]==coefficient*%d!' % (k, k), z3.And(got.re.t == want.re.t, got.im.t == want.im.t), [])
                        if full:
                            solve.prove(tag + 'error_estimate[%d]==error*%d!' % (k, k), lift(asobj(inf.error_estimate)[k]).t == (errs[k] * fk).t, [])
                    if full:
                        solve.fact(tag + 'other-status-fields-unchanged', tuple(inf[1:]) == ('DEG', 'RAD', 'FC', 'IT', 'FAILED'))
            finally:
                fb.taylor = old
    return {}


def run_failed():
    fb = mods()['fb']
    for max_iter in (1, 3, 30):
        for conv_at in list(range(min(max_iter, 5))) + ([max_iter - 1] if max_iter > 5 else []) + [None]:
            T = fb.Taylor(lambda z: z, n=3, max_iter=max_iter, full_output=True)
            state = dict(i=0)

            def oracle(i, z0, r, m, bn):
                state['i'] = i
                return (conv_at is not None and i == conv_at), r * 0.5
            T._check_convergence = oracle
            old = fb._get_best_taylor_coefficients
            fb._get_best_taylor_coefficients = lambda bs, rs, m, mm: (('COEFS', len(bs)), 'ERR')
            try:
                coefs, info = T(0.25)
            finally:
                fb._get_best_taylor_coefficients = old
            tag = 'F:max_iter=%d,converged-at=%s:' % (max_iter, conv_at)
            solve.fact(tag + 'failed<=>cap-reached-without-convergence', info.failed == (conv_at is None))
            nit = (conv_at if conv_at is not None else max_iter - 1)
            solve.fact(tag + 'iterations-and-function_count', info.iterations == nit and info.function_count == nit * 8 and coefs[1] == nit + 1)
    return {}


def run_init():
    fb = mods()['fb']
    src = inspect.getsource(fb.Taylor)
    tree = ast.parse(src).body[0]

    def attrs(fn, ctx):
        out = set()
        for nd in ast.walk(fn):
            if isinstance(nd, ast.Attribute) and isinstance(nd.value, ast.Name) and nd.value.id == 'self' and isinstance(nd.ctx, ctx) \
                    and nd.attr.startswith('_') and not nd.attr.startswith('__'):
                out.add(nd.attr)
        return out
    fns = {f.name: f for f in tree.body if isinstance(f, ast.FunctionDef)}
    reads = attrs(fns['_check_convergence'], ast.Load) | attrs(fns['_get_m1_m2'], ast.Load) | attrs(fns['_get_max_m1m2'], ast.Load)
    reads = {a for a in reads if a not in fns}        # methods are not state
    writes = attrs(fns['_initialize'], ast.Store)
    solve.fact('I:every-search-state-attribute-read-during-the-search-is-reset-by-_initialize', reads <= writes,
               note='read-not-reset=%s' % sorted(reads - writes))
    # dynamic confirmation with poison values
    T = fb.Taylor(np.exp, n=3)
    T(0.1)
    sent = object()
    for a in reads:
        setattr(T, a, sent)
    T._initialize()
    left = [a for a in reads if getattr(T, a) is sent]
    solve.fact('I:no-stale-search-state-survives-_initialize(poison)', not left, note=str(left))
    # and a reused object returns what a fresh one returns (concrete instances)
    bad = []
    with warnings.catch_warnings():
        warnings.simplefilter('ignore')
        for f in (np.exp, np.cos, lambda z: 1.0 / (2.0 - z)):
            T = fb.Taylor(f, n=6, full_output=True)
            for z0 in (0.0, 0.3, 0.1j, 0.7 + 0.2j, -0.4):
                c1, i1 = T(z0)
                c2, i2 = fb.Taylor(f, n=6, full_output=True)(z0)
                if not (np.array_equal(c1, c2) and i1.final_radius == i2.final_radius and i1.iterations == i2.iterations):
                    bad.append((getattr(f, '__name__', 'f'), z0))
    solve.fact('I:reused-Taylor-object==fresh-object(15-concrete-calls)', not bad, note=str(bad[:3]))
    return dict(state_read=sorted(reads), state_reset=sorted(writes))


class FFT8(object):
    """dependency contract of np.fft.fft for length 8 over the exact roots of unity"""

    def __init__(self, s2):
        h = 1 / s2            # 1/sqrt(2)
        self.w = [C(R(1), R(0)), C(h, h), C(R(0), R(1)), C(-h, h), C(R(-1), R(0)), C(-h, -h), C(R(0), R(-1)), C(h, -h)]

    def fft(self, x):
        x = list(asobj(x).ravel())
        assert len(x) == 8
        out = []
        for k in range(8):
            acc = C(R(0), R(0))
            for n_, v in enumerate(x):
                acc = acc + C.lift(lift(v)) * self.w[(-k * n_) % 8]
            out.append(acc)
        return SymArr(out)


def run_poly():
    fb = mods()['fb']
    proxy = NpProxy(algebraic_sqrt=True)
    with installed(fb, np=proxy):
        s2 = SQRT(R(2))
        S2 = list(CTX.const_facts.values())
        fft8 = FFT8(s2)
        # conformance of the two dependency contracts on concrete data
        th = np.linspace(0.0, 2.0 * np.pi, num=8, endpoint=False)
        exact = np.array([complex(float(z3.simplify(z3.substitute(w.re.t, (s2.t, z3.RealVal(str(Fraction(2 ** 0.5)))))).as_fraction()),
                                  float(z3.simplify(z3.substitute(w.im.t, (s2.t, z3.RealVal(str(Fraction(2 ** 0.5)))))).as_fraction())) for w in fft8.w])
        solve.fact('P:contract-conformance:np.exp(i*theta_k)==w^k-to-1e-15', bool(np.max(np.abs(np.exp(th * 1j) - exact)) < 1e-15))
        xr = np.random.default_rng(0).normal(size=8) + 1j * np.random.default_rng(1).normal(size=8)
        dft = np.array([sum(xr[n_] * exact[(-k * n_) % 8] for n_ in range(8)) for k in range(8)])
        solve.fact('P:contract-conformance:np.fft.fft==DFT-definition', bool(np.max(np.abs(np.fft.fft(xr) - dft)) < 1e-13))

        class FFTNS(object):
            fft = staticmethod(fft8.fft)
        proxy.fft = FFTNS
        old_circle = fb._circle

        def circle(z, r, m):
            assert m == 8
            return SymArr([lift(z) + lift(r) * w for w in fft8.w])
        # the real _circle on concrete data agrees with the contract version
        zc = old_circle(0.3 + 0.1j, 0.5, 8)
        solve.fact('P:contract-conformance:_circle==z+r*w^k', bool(np.max(np.abs(zc - (0.3 + 0.1j + 0.5 * exact))) < 1e-15))
        fb._circle = circle
        try:
            m = 8
            a = [cplx('a%d' % j) for j in range(m)]
            z0 = cplx('z0')

            def f(z):
                def one(w):
                    d = C.lift(lift(w)) - z0
                    acc = a[0]
                    pw = None
                    for j in range(1, m):
                        pw = d if pw is None else pw * d
                        acc = acc + a[j] * pw
                    return acc
                return SymArr([one(w) for w in asobj(z).ravel()])
            nrad = 5
            rs_script = [real('r%d' % i) for i in range(nrad)]
            T = fb.Taylor(f, n=6, max_iter=nrad, full_output=True)
            it = dict(i=0)

            def oracle(i, z0_, r, m_, bn):
                it['i'] = i
                return (i == nrad - 1), (rs_script[i + 1] if i + 1 < nrad else r)
            T._check_convergence = oracle
            T.r = rs_script[0]
            cap = {}
            old_best = fb._get_best_taylor_coefficients

            def spy(bs, rs, m_, mm):
                cap['bs'] = bs; cap['rs'] = rs
                cap['extrap'] = fb._extrapolate(bs, rs, m_)
                return SymArr(bs[-1]), SymArr([R(0)] * m_)
            fb._get_best_taylor_coefficients = spy
            pre = [r.t > 0 for r in rs_script] + [rs_script[i].t != rs_script[j].t for i in range(nrad) for j in range(i)]
            try:
                with warnings.catch_warnings():
                    warnings.simplefilter('ignore')
                    paths = explore(lambda: T(z0), pre=pre + S2, max_paths=8, catch=(Exception,))
            finally:
                fb._get_best_taylor_coefficients = old_best
            ok = len(paths) == 1 and paths[0].exc is None
            solve.fact('P:single-path-no-exception', ok, note=str([repr(p.exc)[:200] for p in paths if p.exc][:1]))
            if ok:
                H = paths[0].hyps + S2 + pre
                bs, rs = cap['bs'], cap['rs']
                # engine cross-check: the same scripted search on floats with numpy's own fft / exp
                from fractions import Fraction as Fr
                an = [complex(((3 * j + 1) % 7 - 3) / 2.0, ((5 * j) % 4 - 1) / 4.0) for j in range(m)]
                rn = [0.5, 0.8, 0.4, 1.1, 0.65]
                asg = {'z0.re': Fr(3, 10), 'z0.im': Fr(-1, 5)}
                for j in range(m):
                    asg['a%d.re' % j] = Fr(an[j].real); asg['a%d.im' % j] = Fr(an[j].imag)
                for i in range(nrad):
                    asg['r%d' % i] = Fr(rn[i])

                def native():
                    import importlib
                    fbn = importlib.import_module('numdifftools.fornberg')
                    z0n = complex(0.3, -0.2)
                    Tn = fbn.Taylor(lambda z: sum(an[j] * (z - z0n) ** j for j in range(m)), n=6, max_iter=nrad, full_output=True)
                    Tn._check_convergence = lambda i, z0_, r, m_, bn: ((i == nrad - 1), (rn[i + 1] if i + 1 < nrad else r))
                    Tn.r = rn[0]
                    got = {}
                    oldb = fbn._get_best_taylor_coefficients

                    def spy_n(bs_, rs_, m_, mm):
                        got['bs'] = [np.array(b_) for b_ in bs_]
                        return bs_[-1], np.zeros(m_)
                    fbn._get_best_taylor_coefficients = spy_n
                    try:
                        Tn(z0n)
                    finally:
                        fbn._get_best_taylor_coefficients = oldb
                    return got['bs']
                xcheck.defer('P:engine==CPython(fft-pipeline,5-radii)', [asobj(b_) for b_ in bs], asg, native, rtol=1e-9, atol=1e-9)
                solve.fact('P:one-coefficient-vector-per-radius', len(bs) == nrad and all(lift(x).t.eq(y.t) for x, y in zip(rs, rs_script)))
                for i in sorted({0, nrad - 1}):
                    for k in range(m):
                        got = C.lift(lift(asobj(bs[i])[k]))
                        solve.ident('P:radius%d:bs[%d]==a_%d.re' % (i, k, k), got.re.t, a[k].re.t, [rs_script[i].t, s2.t], S2)
                        solve.ident('P:radius%d:bs[%d]==a_%d.im' % (i, k, k), got.im.t, a[k].im.t, [rs_script[i].t, s2.t], S2)
                # richardson of equal rows: executed on abstract equal rows c (the rows are all == a by the obligations above)
                cvec = [SymArr([cplx('c%d' % k) for k in range(m)]) for _ in range(nrad)]
                ex = fb._extrapolate(cvec, rs_script, m)
                solve.fact('P:_extrapolate-returns-len(rs)-2-rows', len(ex) == nrad - 2)
                for j, row in enumerate(ex):
                    for k in sorted({0, 3, m - 1}):
                        got = C.lift(lift(asobj(row)[k]))
                        solve.prove('P:_extrapolate-of-equal-rows[%d][%d]==the-row' % (j, k),
                                    z3.And(got.re.t == z3.Real('c%d.re' % k), got.im.t == z3.Real('c%d.im' % k)), pre)
                solve.twin('P:bs[1]==a_0', z3.And(C.lift(lift(asobj(bs[0])[1])).re.t == a[0].re.t), H)
        finally:
            fb._circle = old_circle
    xcheck.flush()
    return {}


def run_stages():
    """contract of _get_best_taylor_coefficients (the function between the radius search and the returned error estimate):
    with nk radii there are nk-2 Richardson extrapolants; the fallback error  EPS / r^k * max|f|  is only the rounding floor
    (it contains no truncation term), so it may be used only when fewer than three extrapolants exist.  With three or more
    the coefficients and errors are the ones _get_best_estimate selects from dea3 of consecutive extrapolant triples, with
    the radii rs[4:] as steps."""
    fb = mods()['fb']
    rng = np.random.default_rng(3)
    m = 8
    for nk in range(3, 10):
        rs = list(0.5 * 1.3 ** np.arange(nk))
        bs = [rng.normal(size=m) + 1j * rng.normal(size=m) for _ in range(nk)]
        calls = dict(dea3=[], best=[], floor=0)
        old_dea3, old_best = fb.dea3, fb._Limit._get_best_estimate

        def dea3_spy(a, b, c):
            calls['dea3'].append((a, b, c))
            return old_dea3(a, b, c)

        def best_spy(coefs, errs, steps, shape):
            out = old_best(coefs, errs, steps, shape)
            calls['best'].append((coefs, errs, steps, shape, out))
            return out

        def max_m1m2():
            calls['floor'] += 1
            return 3.0
        fb.dea3 = dea3_spy
        fb._Limit._get_best_estimate = staticmethod(best_spy)
        tag = 'G:radii=%d:' % nk
        raised = None
        try:
            coefs, errors = fb._get_best_taylor_coefficients(bs, rs, m, max_m1m2)
        except Exception as e:
            raised = e
        finally:
            fb.dea3 = old_dea3
            fb._Limit._get_best_estimate = staticmethod(old_best)
        solve.fact(tag + 'selection-stage-returns-for-%d-radii(no-exception)' % nk, raised is None, note=repr(raised)[:200])
        if raised is not None:
            continue
        ext = fb._extrapolate(bs, rs, m)
        solve.fact(tag + 'extrapolants==radii-2', len(ext) == nk - 2)
        if nk - 2 >= 3:
            ok = len(calls['dea3']) == 1 and len(calls['best']) == 1 and calls['floor'] == 0
            solve.fact(tag + 'three-or-more-extrapolants:dea3-and-best-estimate-stage-used(not-the-rounding-floor)', ok, note=str({k: (len(v) if isinstance(v, list) else v) for k, v in calls.items()}))
            if ok:
                a, b, c = calls['dea3'][0]
                solve.fact(tag + 'dea3-on-consecutive-triples-of-all-extrapolants',
                           len(a) == len(b) == len(c) == nk - 4 and all(np.array_equal(a[i], ext[i]) and np.array_equal(b[i], ext[i + 1]) and
                                                                        np.array_equal(c[i], ext[i + 2]) for i in range(nk - 4)))
                cf, er, steps, shape, out = calls['best'][0]
                solve.fact(tag + 'steps-are-the-radii-rs[4:]-times-k', np.array_equal(steps, np.asarray(rs[4:])[:, None] * np.arange(m)) and tuple(shape) == (m,))
                solve.fact(tag + 'returned-coefficients-and-errors-are-the-selected-ones', coefs is out[0] and errors is out[1].error_estimate)
        else:
            solve.fact(tag + 'fewer-than-three-extrapolants:last-extrapolant-with-the-rounding-floor',
                       len(calls['dea3']) == 0 and calls['floor'] == 1 and np.array_equal(coefs, ext[-1]) and
                       np.allclose(errors, fb.EPS / np.power(rs[2], np.arange(m)) * 3.0, rtol=1e-15, atol=0))
    return {}


def run_alias():
    """what the two Richardson sweeps of _extrapolate are for: the scaled FFT coefficients on a circle of radius r carry the aliasing
    terms a r^m + b r^2m; for geometrically spaced radii every extrapolant equals the coefficient itself -- for ALL L, a, b
    (symbolic, complex), m = 8 and 16, 3..6 radii with ratio 8/5 and 13/10 (exact rational radii)"""
    fb = mods()['fb']
    with installed(fb):
        for m in (8, 16):
            for ratio in (Fraction(8, 5), Fraction(13, 10)):
                for nk in (3, 4, 6):
                    CTX.reset()
                    rs = [R(Fraction(1, 2) * ratio ** k) for k in range(nk)]
                    L = [cplx('L%d' % j) for j in range(2)]; a = [cplx('a%d' % j) for j in range(2)]; b = [cplx('b%d' % j) for j in range(2)]
                    bs = [SymArr([L[j] + a[j] * r ** m + b[j] * r ** (2 * m) for j in range(2)]) for r in rs]
                    tag = 'A:m=%d,ratio=%s,radii=%d:' % (m, ratio, nk)
                    try:
                        ext = fb._extrapolate(bs, rs, m)
                    except Exception as e:
                        solve.fact(tag + 'runs', False, note=repr(e)[:200]); continue
                    solve.fact(tag + 'extrapolants==radii-2', len(ext) == nk - 2)
                    for i, row in enumerate(ext):
                        for j, v in enumerate(asobj(row).ravel()):
                            v = C.lift(lift(v))
                            solve.prove(tag + 'extrapolant%d[%d]==L(aliasing-terms-r^m-and-r^2m-removed)' % (i, j),
                                        z3.And(z3.simplify(v.re.t - L[j].re.t, som=True) == 0, z3.simplify(v.im.t - L[j].im.t, som=True) == 0), [])
                    if m == 8 and nk == 4 and ratio == Fraction(8, 5):
                        solve.twin(tag + 'extrapolant0==L+a*r^m', lift(asobj(ext[0]).ravel()[0]).re.t == (L[0] + a[0] * rs[0] ** m).re.t, [])
    return {}


def run_defaults():
    from .common import defaults_facts
    defaults_facts(['fornberg.taylor', 'fornberg.derivative'])
    """documented defaults of Taylor (class docstring): max_iter 30, min_iter max_iter // 2 for EVERY max_iter, explicit values kept"""
    fb = mods()['fb']
    bad = [mi for mi in range(1, 401) if fb.Taylor(np.exp, max_iter=mi).min_iter != mi // 2 or fb.Taylor(np.exp, max_iter=mi).max_iter != mi]
    solve.fact('D:min_iter-defaults-to-max_iter//2-for-max_iter-in-1..400', not bad, note=str(bad[:5]))
    t = fb.Taylor(np.exp)
    solve.fact('D:defaults(max_iter=30,min_iter=15,n=1,r=0.0059,num_extrap=3,step_ratio=1.6)',
               (t.max_iter, t.min_iter, t.n, t.r, t.num_extrap, t.step_ratio) == (30, 15, 1, 0.0059, 3, 1.6))
    t = fb.Taylor(np.exp, max_iter=50, min_iter=7)
    solve.fact('D:explicit-min_iter-kept', (t.max_iter, t.min_iter) == (50, 7))
    doc = fb.Taylor.__doc__ or ''
    solve.fact('D:docstring-states-these-defaults', 'default max_iter // 2' in doc and 'default 0.0059' in doc, note='contract source')
    return {}


def run_tconc():
    """bounded stand-in for the accuracy / never-degenerate clauses (undecided by contract): 19 functions with known series x 5
    (z0, options) settings x 11 values of n, executed in floating point; one obligation per (function, z0, options)"""
    from ndvc.concrete import taylor_cases
    from ndvc.concrete import taylor_hard_cases
    res = dict(taylor_cases(mods()["fb"])); res.update(taylor_hard_cases(mods()["fb"]))
    for name, (ok, detail) in sorted(res.items()):
        solve.fact(name + ':n+1-coefficients,never-degenerate/failed-with-defaults,error<=100*estimate+100*floor', ok, kind='bounded', note=str(detail)[:300] if detail else '')
    return dict(taylor_cases=len(res))


def run_group(args):
    if args[0] == 'tconc':
        return run_tconc()
    if args[0] == 'stages':
        return run_stages()
    if args[0] == 'defaults':
        return run_defaults()
    if args[0] == 'alias':
        return run_alias()
    return {'num': run_num, 'scale': run_scale, 'failed': run_failed, 'init': run_init, 'poly': run_poly}[args[0]]()


def replay_case(ob):
    if ob['name'].startswith('taylor-concrete/'):
        return dict(kind='C17.tconc', name=ob['name'].split('/', 1)[1].rsplit(':', 1)[0])
    g = ob['name'].split('/')[0]
    if g == 'aliasing-removed':
        return dict(kind='C17.alias')
    if g == 'acceleration-stages':
        return dict(kind='C17.stages')
    return dict(kind='C17.taylor', group=g)
