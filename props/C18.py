"""C18 -- Limit and Residue recover removable singularities and poles (decided core).

  L   for f(z0 + d) = sum_{j <= order+1} c_j d^j (symbolic complex c_j and z0) the real Limit.limit -- real _lim, _vstack,
      Richardson(step=1, order=1, num_terms=order+1) with the exact-inverse instance of the pinv contract, dea3,
      _get_best_estimate -- returns c_0 exactly, from above and from below (sign of the steps by method), along a radial
      (real ratio) and a spiral (complex ratio) path, for scalar and array z0; error estimate real and >= 0; the step
      generator contract: steps h0 * ratio**-k, `step_ratio` attribute
  R   Residue(f, pole_order=p)(z0), p = 1, 2, 3 (modular): the kernel handed to the shared Limit pipeline is
      f(z0 + delta) * delta^p for the actual displacement delta == +-step by method; (g(z0+d)/d^p) d^p == g(z0+d) for d != 0;
      Residue overrides nothing else of Limit -- so by L it returns g(z0) for polynomial g; default order == pole_order + 2
  N   Limit.__call__ replaces ONLY NaN entries: for each of the 2^4 NaN masks on a 4-element array (other values symbolic)
      the non-NaN positions keep f's own value with error 0 and step 0, the NaN positions receive the limit computed for
      exactly those points
  D   defaults: CStepGenerator ratio 4 (radial: real; spiral: times exp(i*dtheta)), Limit order 4
Not decided: accuracy on the transcendental kernels (sin w / w, ...) -- quantitative, under rounding.
"""
import itertools
import warnings
from fractions import Fraction
import numpy as np
import z3
from ndvc import solve, overlay, xcheck
from ndvc.sym import R, C, real, cplx, lift, CTX, explore, NeedsConcrete, parts
from ndvc.arr import SymArr, asobj, wrap
from .common import fd_env, ALL, mods
from .pipeline import all_parts

ID = 'C18'
TRUSTED = ['A1 float == real; A2 object arrays == float arrays; dependency contracts as C08; pinv instantiated by the exact '
           '(rational / Gaussian-rational) inverse',
           'C07 (Richardson), C13 (dea3), C08 (selection) are re-executed here, not assumed']
ASSUMPTIONS = ['steps h0 * ratio**-k with h0 > 0 (generator contract, C10: re-discharged on the real CStepGenerator in contract:generator[C,..]); g and the kernel polynomial of degree <= order+1']
NOT_DECIDED = ['accuracy within a multiple of the error estimate on transcendental kernels and general analytic g']
BOUNDED = ['limit-concrete: 149 concrete cases (orders 5..8 with step ratios 3..8 where the Richardson system is ill-conditioned; the floating-point error state of the caller set to raise / warnings as errors; calls carrying extra positional / keyword arguments through Limit.__call__, Limit.limit and Residue.__call__; three transcendental kernels x real / complex / array points x above / below x radial / spiral through Limit.__call__ and Limit.limit, an array mixing regular complex points with a singular one, Residue for p = 1..3 with explicit orders) in floating point, tolerance 1e-7 -- executed, not proved',
           'array z0 of 2 elements, and one 2x3 non-contiguous view with a different limit at every point; NaN masks on 4 elements (all 16)']
QUANTIFIED = 'z0, the coefficients c_j / of g (complex), the base step h0: universally quantified; order, pole order, path, method enumerated'


def orders(tier):
    return [1, 2, 4] if tier == 'quick' else [1, 2, 3, 4, 5, 6, 8]


def enumerated(tier):
    return 'order %s x method {above, below} x path {radial(ratio 4, 2), spiral(ratio 3/2+2i)} x z0 {real, complex, array}; pole order 1..3' % orders(tier)


def groups(tier):
    out = []
    for path in ('radial', 'radial2', 'spiral'):
        for method in ('above', 'below'):
            out.append(('limit[%s,%s]' % (path, method), ('limit', path, method, orders(tier))))
    for p in (1, 2, 3):
        out.append(('residue[p=%d]' % p, ('residue', p, tier)))
    out += [('nan-masks', ('nan',)), ('defaults', ('defaults',))]
    out.append(('limit-concrete', ('lconc',)))
    # the limit / residue groups run on a contract stub of CStepGenerator (geometric steps on a ray or spiral with the reported
    # ratio): the real generator is shown to produce exactly that here (generator shared with C10)
    for part in range(4):
        out.append(('contract:generator[C,%d]' % part, ('dep', 'C10', 'run_seq', ('C', part, tier), {})))
    return out


def functions_under_contract():
    lm = mods()['lm']
    return [lm.Limit.__init__, lm.Limit._fun, lm.Limit._lim, lm.Limit._set_richardson_rule, lm.Limit.limit, lm.Limit._call_lim,
            lm.Limit.__call__, lm.Residue.__init__, lm.Residue._fun, lm.Residue.__call__, lm._Limit._vstack, lm._Limit._extrapolate,
            lm.CStepGenerator.step_ratio, lm.CStepGenerator.dtheta]


RATIOS = {'radial': (4.0, Fraction(1, 4)), 'radial2': (2.0, Fraction(1, 2)),
          'spiral': (C(R(Fraction(3, 2)), R(2)), None)}


class Gen(object):
    """generator contract stub: steps h0 * ratio**-k (element-wise constant), attribute step_ratio"""

    def __init__(self, path, K):
        self.K = K
        self.step_ratio, q = RATIOS[path]
        if q is None:
            r = self.step_ratio
            d = (r.re * r.re + r.im * r.im)
            q = C(r.re / d, -r.im / d)
        self.q = q
        self.calls = []

    def steps(self, shape=()):
        out = []
        for k in range(self.K):
            s = real('h0') * self.q ** k
            out.append(s)
        return out

    def __call__(self, x):
        self.calls.append(x)
        return iter(self.steps())


def native_limit(method, order, cn, z0n, ratio, K):
    def run():
        from numdifftools.limits import Limit

        class G(object):
            step_ratio = ratio

            def __call__(self, x):
                return iter([0.25 * (1.0 / ratio) ** k for k in range(K)])

        def fun(w, *a, **k):
            d = w - z0n
            return sum(cn[j] * d ** j for j in range(len(cn)))
        with warnings.catch_warnings():
            warnings.simplefilter('ignore')
            return Limit(fun, step=G(), method=method, order=order, full_output=True).limit(z0n, 'A', key='K')[0]
    return run


def run_limit(path, method, ords):
    info = dict(configs=0)
    overlay.PINV_EXACT[0] = True
    try:
        with fd_env(names=ALL, symkey_cache=False) as m:
            lm = m['lm']
            for order in ords:
                for zkind in (('array2x3-transposed-view',) if order == ords[0] else ()) + ('real', 'complex', 'array'):       # structural obligations first
                    CTX.reset()
                    tag = 'order=%d,z0-%s:' % (order, zkind)
                    D = order + 1
                    cs = [cplx('c%d' % j) for j in range(D + 1)]
                    c0_per_element = None
                    if zkind == 'real':
                        z0 = real('z0')
                    elif zkind == 'complex':
                        z0 = cplx('z0')
                    elif zkind == 'array':
                        z0 = SymArr([cplx('z0'), cplx('z1')])
                    else:
                        # several axes, not C-contiguous: every point has its own limit c0[idx]
                        base = np.empty((3, 2), dtype=object)
                        for idx in np.ndindex(3, 2):
                            base[idx] = real('z%d%d' % idx[::-1])
                        z0 = base.T.view(SymArr)                      # shape (2, 3)
                        c0_per_element = np.empty((3, 2), dtype=object).T      # same memory layout as z0
                        for idx in np.ndindex(2, 3):
                            c0_per_element[idx] = real('c0_%d%d' % idx)
                        c0_per_element = c0_per_element.view(SymArr)
                        cs[0] = c0_per_element
                    calls = []
                    layouts = []

                    def fun(w, *a, **k):
                        calls.append((w, a, k))
                        d = w - z0
                        if c0_per_element is not None:
                            layouts.append((asobj(w).flags['C_CONTIGUOUS'], asobj(d).flags['C_CONTIGUOUS']))
                        acc = cs[0] + 0 * d
                        pw = None
                        for j in range(1, D + 1):
                            pw = d if pw is None else pw * d
                            acc = acc + cs[j] * pw
                        return acc
                    gen = Gen(path, order + 6)
                    L = lm.Limit(fun, step=gen, method=method, order=order, full_output=True)
                    with warnings.catch_warnings():
                        warnings.simplefilter('ignore')
                        paths = explore(lambda: L.limit(z0, 'A', key='K'), pre=[z3.Real('h0') > 0], max_paths=8, catch=(Exception,))
                    ok = len(paths) == 1 and paths[0].exc is None
                    solve.fact(tag + 'single-path-no-exception', ok, note=str([repr(p.exc)[:160] for p in paths if p.exc][:1]))
                    if not ok:
                        continue
                    info['configs'] += 1
                    val, inf = paths[0].value
                    H = paths[0].hyps
                    shape = np.shape(z0)
                    if c0_per_element is None and order <= 4:
                        # engine cross-check on floats (same stub generator, real numpy / scipy)
                        asg = {'h0': Fraction(1, 4), 'z0': Fraction(3, 10), 'z0.re': Fraction(3, 10), 'z0.im': Fraction(-2, 5), 'z1.re': Fraction(-6, 5), 'z1.im': Fraction(1, 2)}
                        cn = [complex(((3 * j + 1) % 7 - 3) / 2.0, ((5 * j) % 4 - 1) / 4.0) for j in range(D + 1)]
                        for j in range(D + 1):
                            asg['c%d.re' % j] = Fraction(cn[j].real); asg['c%d.im' % j] = Fraction(cn[j].imag)
                        z0n = 0.3 if zkind == 'real' else (complex(0.3, -0.4) if zkind == 'complex' else np.array([complex(0.3, -0.4), complex(-1.2, 0.5)]))
                        ratio_n, qn = RATIOS[path]
                        ratio_n = complex(1.5, 2.0) if qn is None else ratio_n
                        xcheck.defer(tag + 'engine==CPython(Limit.limit)', val, asg, native_limit(method, order, cn, z0n, ratio_n, order + 6), rtol=1e-6, atol=1e-8)
                    solve.fact(tag + 'result-shape==shape(z0)', np.shape(val) == shape, note=str(np.shape(val)))
                    rich = L.richardson
                    solve.fact(tag + 'Richardson(step=1,order=1,terms=order+1,generator-ratio)',
                               (rich.step, rich.order, rich.num_terms) == (1, 1, order + 1) and rich.step_ratio is gen.step_ratio)
                    # every evaluation at z0 + sign*step_k with the caller's extra arguments
                    sign = 1 if method == 'above' else -1
                    hs = gen.steps()
                    okc = len(calls) == len(hs) and all(a == ('A',) and k == dict(key='K') for _, a, k in calls)
                    solve.fact(tag + 'one-evaluation-per-step-with-the-caller\'s-arguments', okc)
                    if okc:
                        for k in sorted({0, len(hs) - 1}):
                            w = asobj(calls[k][0]).ravel()[0]
                            want = lift(asobj(z0).ravel()[0]) + sign * hs[k]
                            pa, pb = parts(C.lift(lift(w))), parts(C.lift(lift(want)))
                            solve.prove(tag + 'evaluation%d-at-z0%+d*step' % (k, sign), z3.And(*[u == v for u, v in zip(pa, pb)]), H)
                    if c0_per_element is not None:
                        solve.fact(tag + 'harness:f-receives-and-returns-arrays-in-the-layout-of-z0(not C-contiguous)', bool(layouts) and not any(a_ or b_ for a_, b_ in layouts), note=str(layouts[:2]))
                        if np.shape(val) == shape:
                            for idx in np.ndindex(shape):
                                pv, pc = parts(C.lift(lift(asobj(val)[idx]))), parts(C.lift(lift(c0_per_element[idx])))
                                from .pipeline import free_syms as _fs
                                own = 'c0_%d%d' % idx
                                foreign = sorted(s_ for s_ in _fs(*(pv + all_parts(asobj(inf.error_estimate)[idx]))) if s_.startswith('c0_') and s_ != own)
                                solve.fact(tag + 'value%s-and-its-error-estimate-depend-on-no-other-point' % (idx,), not foreign, note=str(foreign[:4]))
                                from .pipeline import free_syms
                                if solve.refute_equal(tag + 'value%s==c_0%s(the-limit-at-that-point)' % (idx, idx), pv, pc, sorted(free_syms(*(pv + pc + list(H)))), seeds=tuple(range(1, 25)), hyps=H):
                                    continue
                                solve.prove(tag + 'value%s==c_0%s(the-limit-at-that-point)' % (idx, idx), z3.And(*[u == w for u, w in zip(pv, pc)]), H)
                            for nm_, arr_ in (('error_estimate', inf.error_estimate), ('final_step', inf.final_step)):
                                solve.fact(tag + '%s-shape==shape(z0)' % nm_, np.shape(arr_) == shape, note=str(np.shape(arr_)))
                        continue
                    for e, v in enumerate(asobj(val).ravel()):
                        pv, pc = parts(C.lift(lift(v))), parts(cs[0])
                        # a wrong value is refuted by exact evaluation at a rational point (cheap, and decisive where both
                        # solvers would time out on two large different terms); otherwise the identity goes to the solver
                        from .pipeline import free_syms
                        if solve.refute_equal(tag + 'value[%d]==c_0' % e, pv, pc, sorted(free_syms(*(pv + pc + list(H)))), seeds=tuple(range(1, 25)), hyps=H):
                            continue
                        solve.prove(tag + 'value[%d]==c_0' % e, z3.And(*[u == w for u, w in zip(pv, pc)]), H)
                    for e, v in enumerate(asobj(inf.error_estimate).ravel()):
                        v = lift(v)
                        if isinstance(v, C):
                            solve.prove(tag + 'error_estimate[%d]-real' % e, v.im.t == 0, H)
                            v = v.re
                        solve.prove_lin(tag + 'error_estimate[%d]>=0' % e, v.t >= 0, H)
                    if order == ords[0] and zkind == 'real':
                        solve.twin(tag + 'value==c_1', z3.And(*[u == w for u, w in zip(parts(C.lift(lift(asobj(val).ravel()[0]))), parts(cs[1]))]), H)
    finally:
        overlay.PINV_EXACT[0] = False
    xcheck.flush()
    return info


def run_residue(p, tier):
    """modular: (1) the kernel the shared pipeline sees is f(z0 + delta) * delta^p for the ACTUAL displacement delta of each
    evaluation, delta == +-step_k by method; (2) pole cancellation f(z0 + d) d^p == g(z0 + d) for d != 0; (3) Residue uses the
    Limit pipeline unchanged (no override of _lim/_extrapolate/...), which the L groups prove exact for polynomial kernels of
    degree <= order+1  =>  Residue == g(z0)"""
    info = dict(configs=0)
    with fd_env(names=ALL, symkey_cache=False) as m:
        lm = m['lm']
        for nm in ('_lim', 'limit', '_vstack', '_extrapolate', '_get_best_estimate', '_set_richardson_rule', '_wynn_extrapolate'):
            solve.fact('R:Residue-uses-Limit.%s-unchanged' % nm, getattr(lm.Residue, nm) is getattr(lm.Limit, nm))
        for order in [None, p + 1, p + 3]:
            for path, method in itertools.product(('radial', 'spiral'), ('above', 'below')):
                CTX.reset()
                tag = 'order=%s,%s,%s:' % (order, path, method)
                z0 = cplx('z0')
                calls = []

                def fun(w, *a, **k):
                    calls.append((w, a, k))
                    j = len(calls)
                    return cplx('F%d' % j)
                eff = order if order is not None else p + 2
                gen = Gen(path, eff + 4)
                try:
                    Rs = lm.Residue(fun, step=gen, method=method, pole_order=p, order=order, full_output=True)
                except Exception as e:
                    solve.fact(tag + 'every-order-above-pole_order-is-accepted', False, note=repr(e)[:160])
                    continue
                solve.fact(tag + 'every-order-above-pole_order-is-accepted', True)
                solve.fact(tag + 'default-order==pole_order+2', order is not None or Rs.order == p + 2)
                cap = {}

                def spy(results, steps, shape):
                    cap['t'] = (results, steps, shape)
                    return SymArr([real('V')]).reshape(shape), lm._Limit.info(SymArr([real('E')]).reshape(shape), SymArr([real('S')]).reshape(shape), np.arange(1))
                Rs._extrapolate = spy
                with warnings.catch_warnings():
                    warnings.simplefilter('ignore')
                    paths = explore(lambda: Rs(z0, 'A', key='K'), pre=[z3.Real('h0') > 0], max_paths=8, catch=(Exception,))
                ok = len(paths) == 1 and paths[0].exc is None and 't' in cap
                solve.fact(tag + 'single-path-no-exception', ok, note=str([repr(q.exc)[:160] for q in paths if q.exc][:1]))
                if not ok:
                    continue
                info['configs'] += 1
                res, steps, shape = cap['t']
                hs = gen.steps()
                sign = 1 if method == 'above' else -1
                solve.fact(tag + 'one-evaluation-per-step-with-the-caller\'s-arguments',
                           len(calls) == len(hs) and all(a == ('A',) and k == dict(key='K') for _, a, k in calls))
                solve.fact(tag + 'Richardson(step=1,order=1,terms=order+1,generator-ratio)',
                           (Rs.richardson.step, Rs.richardson.order, Rs.richardson.num_terms) == (1, 1, eff + 1) and Rs.richardson.step_ratio is gen.step_ratio)
                rows = asobj(res)
                if len(calls) != len(hs) or rows.shape[0] != len(hs):
                    solve.fact(tag + 'one-table-row-per-step', False)
                    continue
                for k in range(len(hs)):
                    w = C.lift(lift(asobj(calls[k][0]).ravel()[0]))
                    delta = w - z0
                    want_d = C.lift(sign * hs[k])
                    solve.prove(tag + 'step%d:evaluated-at-z0%+d*step' % (k, sign),
                                z3.And(delta.re.t == want_d.re.t, delta.im.t == want_d.im.t), paths[0].hyps)
                    Fk = cplx('F%d' % (k + 1))
                    want = Fk * delta ** p
                    got = C.lift(lift(rows[k].ravel()[0]))
                    solve.prove(tag + 'step%d:kernel==f(z0+delta)*delta^p' % k, z3.And(got.re.t == want.re.t, got.im.t == want.im.t), paths[0].hyps)
                    st = C.lift(lift(asobj(steps)[k].ravel()[0]))
                    solve.prove(tag + 'step%d:step-table-holds-the-signed-step' % k, z3.And(st.re.t == want_d.re.t, st.im.t == want_d.im.t), paths[0].hyps)
        # pole cancellation
        for deg in (p + 1, p + 4):
            z0 = cplx('z0'); d = cplx('d')
            gs = [cplx('g%d' % j) for j in range(deg + 1)]
            acc = gs[0] + 0 * d
            pw = None
            for j in range(1, deg + 1):
                pw = d if pw is None else pw * d
                acc = acc + gs[j] * pw
            lhs = (acc / d ** p) * d ** p
            solve.prove('R:pole-cancellation(deg=%d):(g(z0+d)/d^p)*d^p==g(z0+d)' % deg,
                        z3.And(lhs.re.t == acc.re.t, lhs.im.t == acc.im.t), [z3.Or(d.re.t != 0, d.im.t != 0)])
    return info


def run_nan():
    with fd_env(names=ALL, symkey_cache=False) as m:
        lm = m['lm']
        nan = float('nan')
        for mask in itertools.product([False, True], repeat=4):
            for full in (True, False):
                CTX.reset()
                tag = 'mask=%s%s:' % (''.join('N' if b else '.' for b in mask), '' if full else ',full_output=False')
                z = SymArr([real('z%d' % k) for k in range(4)])
                fvals = [real('f%d' % k) for k in range(4)]

                def fun(w):
                    out = np.empty(4, dtype=object)
                    for k in range(4):
                        out[k] = nan if mask[k] else fvals[k]
                    return out.view(SymArr)
                L = lm.Limit(fun, full_output=full)
                seen = {}

                def fake_lim(f, zpts):
                    seen['z'] = zpts
                    n = len(asobj(zpts).ravel())
                    return SymArr([real('L%d' % k) for k in range(n)]), lm._Limit.info(SymArr([real('E%d' % k) for k in range(n)]),
                                                                                       SymArr([real('S%d' % k) for k in range(n)]),
                                                                                       np.arange(n))
                L._lim = fake_lim
                with warnings.catch_warnings():
                    warnings.simplefilter('ignore')
                    paths = explore(lambda: L(z), max_paths=8, catch=(Exception,))
                ok = len(paths) == 1 and paths[0].exc is None
                solve.fact(tag + 'single-path-no-exception', ok, note=str([repr(q.exc)[:160] for q in paths if q.exc][:1]))
                if not ok:
                    continue
                res = paths[0].value
                val, inf = res if full else (res, None)
                nanpos = [k for k in range(4) if mask[k]]
                if nanpos:
                    zp = asobj(seen.get('z', [])).ravel()
                    solve.fact(tag + 'limit-computed-for-exactly-the-NaN-points', len(zp) == len(nanpos) and
                               all(lift(a).t.eq(z[k].t) for a, k in zip(zp, nanpos)))
                else:
                    solve.fact(tag + 'no-limit-computed-when-nothing-is-NaN', 'z' not in seen)
                va = asobj(val).ravel()
                okv = len(va) == 4
                for k in range(4):
                    if not okv:
                        break
                    if mask[k]:
                        okv = okv and lift(va[k]).t.eq(z3.Real('L%d' % nanpos.index(k)))
                    else:
                        okv = okv and lift(va[k]).t.eq(fvals[k].t)
                solve.fact(tag + 'non-NaN-entries-keep-f\'s-own-value,NaN-entries-get-their-limit', bool(okv), note=str(list(va))[:150])
                if full:
                    ea, sa = asobj(inf.error_estimate).ravel(), asobj(inf.final_step).ravel()
                    oke = len(ea) == 4 and len(sa) == 4
                    for k in range(4):
                        if not oke:
                            break
                        if mask[k]:
                            j = nanpos.index(k)
                            oke = oke and lift(ea[k]).t.eq(z3.Real('E%d' % j)) and lift(sa[k]).t.eq(z3.Real('S%d' % j))
                        else:
                            oke = oke and z3.simplify(lift(ea[k]).t).eq(z3.RealVal(0)) and z3.simplify(lift(sa[k]).t).eq(z3.RealVal(0))
                    solve.fact(tag + 'error-and-step-are-0-at-regular-points,the-limit\'s-at-NaN-points', bool(oke))
    return {}


def run_defaults():
    from .common import defaults_facts
    defaults_facts(['limits.Limit.__init__', 'limits.Residue.__init__', 'limits.CStepGenerator.__init__'])
    lm = mods()['lm']
    g = lm.CStepGenerator()
    solve.fact('D:CStepGenerator-default-ratio-4-radial-real', g.step_ratio == 4.0 and isinstance(g.step_ratio, float) and g.dtheta == 0)
    g = lm.CStepGenerator(path='spiral')
    solve.fact('D:spiral-ratio==4*exp(i*pi/8)', abs(g.step_ratio - 4.0 * np.exp(1j * np.pi / 8)) == 0)
    g = lm.CStepGenerator(path='spiral', dtheta=0.3, step_ratio=3.0)
    solve.fact('D:spiral-ratio==ratio*exp(i*dtheta)', abs(g.step_ratio - 3.0 * np.exp(0.3j)) == 0)
    L = lm.Limit(np.sin)
    solve.fact('D:Limit-default-order-4-method-above', L.order == 4 and L.method == 'above' and isinstance(L.step, lm.CStepGenerator))
    L = lm.Limit(np.sin, step=0.1, path='spiral')
    st = list(L.step(np.asarray(0.0)))
    r = L.step.step_ratio
    solve.fact('D:user-step-is-the-base-step(step_nom=1)-and-steps-are-geometric', abs(st[-1] - 0.1) < 1e-15 and
               all(abs(st[k] / st[k + 1] - r) < 1e-12 for k in range(len(st) - 1)))
    for p in (1, 2, 3):
        solve.fact('D:Residue(pole_order=%d)-default-order==%d' % (p, p + 2), lm.Residue(np.sin, pole_order=p).order == p + 2)
    return {}


def run_lconc():
    from ndvc.concrete import limit_cases
    cnt, bad = limit_cases(mods()['lm'])
    solve.fact('Limit/Residue-on-concrete-kernels:real-and-complex-points,scalar-and-array,__call__-and-limit,explicit-orders[%d cases]' % cnt, not bad, kind='bounded', note=str(bad[:2])[:400])
    return {}

def run_group(args):
    if args[0] == 'dep':
        import importlib
        return getattr(importlib.import_module('props.' + args[1]), args[2])(*args[3], **args[4])
    if args[0] == 'lconc':
        return run_lconc()
    if args[0] == 'limit':
        return run_limit(args[1], args[2], args[3])
    if args[0] == 'residue':
        return run_residue(args[1], args[2])
    return {'nan': run_nan, 'defaults': run_defaults}[args[0]]()


def replay_case(ob):
    if ob['name'].startswith('contract:generator['):
        from . import C10
        return C10.replay_case(dict(ob, name='seq[' + ob['name'][len('contract:generator['):]))
    if ob['name'].startswith('limit-concrete/'):
        return dict(kind='C18.lconc')
    import re
    nm = ob['name']
    mm = re.search(r'limit\[(\w+),(\w+)\]/order=(\d+)', nm)
    if mm:
        return dict(kind='C18.limit', path='spiral' if mm.group(1) == 'spiral' else 'radial', method=mm.group(2), order=int(mm.group(3)))
    mm = re.search(r'residue\[p=(\d+)\]', nm)
    if mm:
        return dict(kind='C18.residue', pole_order=int(mm.group(1)))
    return dict(kind='C18.nan')
