"""C19 -- nd_scipy wrappers return the Jacobian / gradient and respect bounds.

scipy.optimize._numdiff.approx_derivative is out of scope (assumed contract, conformance-tested below); the wrapper
obligations are decided with a RECORDING STUB in its place:
  W   nd_scipy.Jacobian.__call__ makes exactly one call approx_derivative(fun, atleast_1d(x), method=MAP[method],
      rel_step=step, args=args, kwargs=kwds, bounds=bounds, sparsity=sparsity) with fun / args / kwds / bounds / sparsity
      the caller's own objects, MAP = {central: 3-point, forward: 2-point, complex: cs}, and returns its result unchanged
  G   nd_scipy.Gradient.__call__ does the same with x flattened and returns the result squeezed: shape (n,), 0-d for n == 1
  S   (dependency conformance, not proof) the real approx_derivative on affine f: 'cs' exact to rounding, (m, n) shape,
      args forwarded, no evaluation outside a random box with x inside or on its boundary
"""
import itertools
import numpy as np
import z3
from ndvc import solve
from ndvc.sym import R, real, lift, CTX
from ndvc.arr import SymArr, asobj
from ndvc.overlay import installed
from .common import mods

ID = 'C19'
TRUSTED = ['scipy.optimize._numdiff.approx_derivative (assumed contract: returns the (m, n) finite-difference Jacobian of '
           'fun at x with the named scheme, forwards args/kwargs, never evaluates outside bounds); conformance-tested on '
           'affine maps and random boxes on every run, never counted as proved']
ASSUMPTIONS = ['numerical claims (accuracy, bounds) are scipy\'s; the wrapper only selects the scheme and forwards its arguments']
NOT_DECIDED = ['finite-difference accuracy of scipy\'s schemes on nonlinear f']
BOUNDED = ['dependency conformance S: sampled affine maps / boxes']
QUANTIFIED = 'x (symbolic elements), arbitrary fun / args / kwds / bounds / sparsity objects (checked by identity)'


def enumerated(tier):
    return 'methods {central, forward, complex, backward} x x-shapes {scalar, (n,), (n, k)} x step {None, given} x bounds {default, box}'


def groups(tier):
    return [('wrapper', ('wrapper',)), ('scipy-conformance', ('scipy',))]


def functions_under_contract():
    import numdifftools.nd_scipy as ns
    return [ns._Common.__init__, ns.Jacobian.__call__, ns.Gradient.__call__]


MAP = {'central': '3-point', 'forward': '2-point', 'complex': 'cs', 'backward': '2-point'}


def run_wrapper():
    from .common import defaults_facts
    defaults_facts(['nd_scipy._Common.__init__'])
    import numdifftools.nd_scipy as ns
    calls = []

    def stub(fun, x0, *a, **kw):
        calls.append((fun, x0, a, kw))
        return stub.ret
    with installed(ns, approx_derivative=stub):
        for method, stepv, bnd in itertools.product(['central', 'forward', 'complex', 'backward'], [None, 1e-3],
                                                    ['default', 'box', 'half-open']):
            fun = lambda x, *a, **k: x
            args = (object(), 3.5)
            kwds = dict(scale=object())
            sp = object()
            for klass in ('Jacobian', 'Gradient'):
                for xkind in ('scalar', 'vec', 'mat', 'mat-transposed-view', 'mat-F-ordered'):
                    CTX.reset()
                    del calls[:]
                    tag = '%s,%s,step=%s,%s,%s:' % (klass, method, stepv, bnd, xkind)
                    kw = dict(method=method, step=stepv, sparsity=sp)
                    if bnd == 'box':
                        bounds = (np.array([-1.0, -2.0]), np.array([3.0, 4.0])); kw['bounds'] = bounds
                    elif bnd == 'half-open':
                        bounds = (0.0, np.inf); kw['bounds'] = bounds
                    else:
                        bounds = None
                    obj = getattr(ns, klass)(fun, **kw)
                    if bounds is None:
                        bounds = obj.bounds
                    if xkind == 'mat-transposed-view':
                        base = np.empty((3, 2), dtype=object)
                        for idx in np.ndindex(3, 2):
                            base[idx] = real('x%d%d' % idx[::-1])
                        x = base.T.view(SymArr)                   # shape (2, 3), not C-contiguous
                    elif xkind == 'mat-F-ordered':
                        base = np.empty((2, 3), dtype=object, order='F')
                        for idx in np.ndindex(2, 3):
                            base[idx] = real('x%d%d' % idx)
                        x = base.view(SymArr)
                    else:
                        x = {'scalar': real('x'), 'vec': SymArr([real('x0'), real('x1'), real('x2')]),
                             'mat': SymArr([[real('x00'), real('x01')], [real('x10'), real('x11')]])}[xkind]
                    n = asobj(x).size
                    ret = SymArr([[real('J%d_%d' % (i, j)) for j in range(n)] for i in range(1 if klass == 'Gradient' else 2)])
                    stub.ret = ret
                    out = obj(x, *args, **kwds)
                    solve.fact(tag + 'exactly-one-call', len(calls) == 1)
                    if len(calls) != 1:
                        continue
                    f_, x0, a_, k_ = calls[0]
                    solve.fact(tag + 'fun-forwarded', f_ is fun)
                    # Gradient: the variables are the elements of x in index (row-major) order, whatever its memory layout
                    want_x = np.array([asobj(x)[idx] for idx in np.ndindex(np.shape(x))], dtype=object) if klass == 'Gradient' else np.atleast_1d(asobj(x))
                    solve.fact(tag + 'x-forwarded-as-array', np.shape(x0) == want_x.shape and
                               all(lift(u).t.eq(lift(v).t) for u, v in zip(asobj(x0).ravel(), want_x.ravel())))
                    solve.fact(tag + 'no-extra-positional-arguments', a_ == ())
                    solve.fact(tag + 'scheme==%s' % MAP[method], k_.get('method') == MAP[method])
                    solve.fact(tag + 'rel_step==step', k_.get('rel_step') is stepv or k_.get('rel_step') == stepv)
                    solve.fact(tag + 'args-forwarded-unchanged', k_.get('args') == args and all(u is v for u, v in zip(k_.get('args', ()), args)))
                    solve.fact(tag + 'kwargs-forwarded-unchanged', k_.get('kwargs') == kwds and
                               all(k_['kwargs'][kk] is kwds[kk] for kk in kwds) if isinstance(k_.get('kwargs'), dict) else False)
                    solve.fact(tag + 'bounds-forwarded-unchanged', k_.get('bounds') is bounds)
                    solve.fact(tag + 'sparsity-forwarded-unchanged', k_.get('sparsity') is sp)
                    solve.fact(tag + 'only-known-options', set(k_) <= {'method', 'rel_step', 'args', 'kwargs', 'bounds', 'sparsity'})
                    # history: later calls on the same object forward THEIR OWN extra arguments (none, then others)
                    del calls[:]
                    obj(x)
                    ok2 = len(calls) == 1 and calls[0][3].get('args', ()) == () and calls[0][3].get('kwargs', {}) in ({}, None)
                    solve.fact(tag + 'second-call-without-extra-arguments-forwards-none', ok2, note=str([(c_[3].get('args'), c_[3].get('kwargs')) for c_ in calls])[:200])
                    del calls[:]
                    args3, kwds3 = ('other',), dict(flag=True)
                    obj(x, *args3, **kwds3)
                    ok3 = len(calls) == 1 and calls[0][3].get('args') == args3 and calls[0][3].get('kwargs') == kwds3
                    solve.fact(tag + 'third-call-forwards-its-own-arguments', ok3)
                    # history: the public attributes (method, step, bounds, sparsity) are read at the time of the call
                    other = {'central': 'complex', 'forward': 'central', 'complex': 'forward', 'backward': 'complex'}[method]
                    obj.method = other; obj.step = 0.25; new_b = (np.array([-5.0, -5.0]), np.array([5.0, 5.0])); obj.bounds = new_b
                    del calls[:]
                    obj(x)
                    ok4 = len(calls) == 1 and calls[0][3].get('method') == MAP[other] and calls[0][3].get('rel_step') == 0.25 and calls[0][3].get('bounds') is new_b
                    solve.fact(tag + 'attributes-changed-after-construction-are-the-ones-used(method,step,bounds)', ok4,
                               note=str([(c_[3].get('method'), c_[3].get('rel_step')) for c_ in calls])[:200])
                    if klass == 'Jacobian':
                        solve.fact(tag + 'result-returned-unchanged', out is ret)
                    else:
                        shp = () if n == 1 else (n,)
                        solve.fact(tag + 'result-squeezed-to-%s' % (shp,), np.shape(out) == shp and
                                   all(lift(u).t.eq(lift(v).t) for u, v in zip(asobj(out).ravel(), asobj(ret).ravel())))
    return {}


def run_scipy():
    """conformance of the assumed dependency contract on random affine maps and boxes (sampling; labelled bounded)"""
    import numdifftools.nd_scipy as ns
    import os
    rng = np.random.default_rng(int(os.environ.get('VERIF_SEED', '0') or 0))
    bad = []
    bad_m1 = []
    n_s = 0
    for trial in range(40):
        n = int(rng.integers(1, 7)); m = int(rng.integers(1, 6))
        A = rng.normal(size=(m, n)); b = rng.normal(size=m)
        x = rng.normal(size=n)
        pts = []

        def f(z, shift=0.0, scale=1.0):
            pts.append(np.array(z, dtype=complex).real.copy())
            return scale * (A @ z) + b + shift
        for method in ('central', 'forward', 'complex'):
            n_s += 1
            J = ns.Jacobian(f, method=method)(x, 0.5, scale=2.0)
            tol = 1e-12 if method == 'complex' else 1e-5
            if m == 1 and J.shape != (m, n):
                bad_m1.append((method, m, n, J.shape))
                J = np.atleast_2d(J)
            if J.shape != (m, n) or not np.allclose(J, 2.0 * A, rtol=tol, atol=tol):
                bad.append(('jac', method, m, n))
            lb = x - rng.uniform(0, 1, n) * (rng.random(n) > 0.3); ub = x + rng.uniform(0.1, 1, n)
            del pts[:]
            ns.Jacobian(f, method=method, bounds=(lb, ub))(x)
            if method != 'complex' and any(np.any(p < lb - 1e-15) or np.any(p > ub + 1e-15) for p in pts):
                bad.append(('bounds', method, m, n))
        g = ns.Gradient(lambda z, c=1.0: c * np.sum(A[0] * z.ravel()) + 1.0, method='complex')(x.reshape(1, -1), 3.0)
        if np.shape(g) != (() if n == 1 else (n,)) or not np.allclose(g, 3.0 * A[0], rtol=1e-12):
            bad.append(('grad', n))
    solve.record('scipy:approx_derivative-conforms-to-the-assumed-contract(bounded:%d samples)' % n_s,
                 'proved' if not bad else 'refuted', 'bounded-sampling', 0.0, None, 'bounded', note=str(bad[:4]))
    solve.record('scipy:single-output-function(m=1)-returns-shape-(1,n)(bounded)', 'proved' if not bad_m1 else 'refuted',
                 'bounded-sampling', 0.0, None, 'bounded', note=str(bad_m1[:3]))
    return dict(bounded_samples=n_s)


def run_group(args):
    return run_wrapper() if args[0] == 'wrapper' else run_scipy()


def replay_case(ob):
    return dict(kind='C19.wrapper')
