"""shared harness pieces: module loading, standard overlay set-up, generic Taylor polynomial, symbolic step ratio"""
import contextlib
import math
from fractions import Fraction
import numpy as np
import z3
from ndvc import cut, solve
from ndvc.sym import R, C, Z, B, real, lift, CTX, ceq, parts, NeedsConcrete
from ndvc.arr import SymArr, wrap, asobj
from ndvc import overlay
from ndvc.overlay import NpProxy, installed, PINV_LOG


def mods():
    import numdifftools.core as core
    import numdifftools.limits as lm
    import numdifftools.extrapolation as ex
    import numdifftools.finite_difference as fd
    import numdifftools.step_generators as sg
    import numdifftools.multicomplex as mc
    import numdifftools.fornberg as fb
    return dict(core=core, lm=lm, ex=ex, fd=fd, sg=sg, mc=mc, fb=fb)


class Recip(R):
    """the symbolic step ratio r, represented through its reciprocal q in (0, 1):  r == 1/q.
    1.0/r and r**-k evaluate to powers of q (valid because q != 0), so the algebraic obligations are polynomial."""
    __slots__ = ('base',)

    def __init__(self, q):
        R.__init__(self, 1 / q.t)
        self.base = q

    def __rtruediv__(self, o):
        if isinstance(o, np.ndarray):
            return NotImplemented
        if isinstance(o, (int, float)) and o == 1:
            return self.base
        return lift(o) * self.base

    def __pow__(self, k):
        if isinstance(k, np.ndarray):
            return NotImplemented
        if isinstance(k, (int, np.integer)) or (isinstance(k, float) and float(k) == int(k)):
            k = int(k)
            if k <= 0:
                return self.base ** (-k)
        return R.__pow__(self, k)


class SymKeyDict(object):
    """stand-in for finite_difference.FD_RULES in runs with a symbolic step ratio: key equality on symbolic
    components is decided structurally (same z3 term); stores/lookups are logged for the C09 obligations"""

    def __init__(self):
        self.items_ = []
        self.log = []

    @staticmethod
    def _same(a, b):
        if isinstance(a, (R, Z)) or isinstance(b, (R, Z)):
            if not (isinstance(a, (R, Z)) and isinstance(b, (R, Z))):
                return False
            return z3.simplify(a.t).eq(z3.simplify(b.t))
        if isinstance(a, C) or isinstance(b, C):
            if not (isinstance(a, C) and isinstance(b, C)):
                return False
            return SymKeyDict._same(a.re, b.re) and SymKeyDict._same(a.im, b.im)
        return a == b

    def _find(self, key):
        for k, v in self.items_:
            if len(k) == len(key) and all(self._same(x, y) for x, y in zip(k, key)):
                return k, v
        return None

    def get(self, key, default=None):
        hit = self._find(key)
        self.log.append(('get', key, hit is not None))
        return hit[1] if hit else default

    def __setitem__(self, key, val):
        self.log.append(('set', key, val))
        hit = self._find(key)
        if hit:
            self.items_ = [(k, v) for k, v in self.items_ if k is not hit[0]]
        self.items_.append((key, val))

    def __getitem__(self, key):
        hit = self._find(key)
        if not hit:
            raise KeyError(key)
        return hit[1]

    def __contains__(self, key):
        return self._find(key) is not None

    def __len__(self):
        return len(self.items_)

    def clear(self):
        self.items_ = []


def identity_make_exact(h):
    """contract stub of make_exact: in real arithmetic (A1) (h + 1.0) - 1.0 == h  (proved from the body in C10)"""
    return h


@contextlib.contextmanager
def fd_env(exact_factorial=True, stub_make_exact=True, symkey_cache=True, names=('fd', 'ex'), **proxy_kw):
    """overlays for the named repo modules with the algebraic sqrt(2), exact factorial and the pinv /
    convolve1d dependency contracts; _SQRT_J re-evaluated from its defining expression."""
    m = mods()
    fd, sg = m['fd'], m['sg']
    proxy = NpProxy(algebraic_sqrt=True, **proxy_kw)
    del PINV_LOG[:]
    with installed(*[m[k] for k in names], np=proxy):
        if not hasattr(fd, 'special'):
            # the exact-arithmetic proofs take scipy.special.factorial by contract (exact k!); code that forms its factorials in floating
            # point otherwise cannot be decided in exact arithmetic (every identity would fail by a rounding error): undecided, not refuted
            raise NeedsConcrete('finite_difference does not use scipy.special.factorial: the exact-factorial dependency contract does not apply')
        fd.special.exact = exact_factorial
        old = fd._SQRT_J, fd.FD_RULES, fd.make_exact, sg.make_exact
        if 'fd' in names:
            val, txt = cut.reeval_constant(fd, '_SQRT_J')
            fd._SQRT_J = val
        if symkey_cache:
            fd.FD_RULES = SymKeyDict()
        if stub_make_exact:
            fd.make_exact = identity_make_exact
            sg.make_exact = identity_make_exact
        try:
            yield m
        finally:
            fd._SQRT_J, fd.FD_RULES, fd.make_exact, sg.make_exact = old


ALL = ('core', 'lm', 'ex', 'fd', 'sg', 'mc')


def taylor_poly(x, D, prefix='b', complex_coef=False):
    """generic polynomial p(t) = sum_{k<=D} b_k (t-x)^k / k!  with symbolic b_k = p^(k)(x)"""
    if complex_coef:
        b = [C(z3.Real('%s%d.re' % (prefix, k)), z3.Real('%s%d.im' % (prefix, k))) for k in range(D + 1)]
    else:
        b = [real('%s%d' % (prefix, k)) for k in range(D + 1)]

    def f(t):
        d = t - x
        acc = b[0]
        pw = 1
        for k in range(1, D + 1):
            pw = pw * d
            acc = acc + b[k] * pw / math.factorial(k)
        return acc
    return f, b


def subst_vals(term, pairs):
    return z3.simplify(z3.substitute(term, *[(a, z3.RealVal(str(v)) if not isinstance(v, z3.ExprRef) else v)
                                             for a, v in pairs]))


def model_float(model, name, default):
    """float value of a model entry (strings of rationals)"""
    if not model or name not in model:
        return default
    try:
        return float(Fraction(model[name]))
    except Exception:
        return default


def integer_input_cases(classes, methods_of, name_fmt='%s'):
    """Integer-typed x (python ints, integer ndarrays) with an integer-valued f: the derivative object returns what it
    returns for the same x given as floats.  dtype truncation is invisible in object arrays, so these cases are
    executed with the real numpy on concrete data (bounded stand-in, kind='bounded').
    classes: list of (class name, f, list of x)."""
    import warnings
    from ndvc import solve
    core = mods()['core']
    out = []
    for clsname, f, xs, kw in classes:
        K = getattr(core, clsname)
        for method in methods_of(clsname):
            bad = []
            cnt = 0
            for x in xs:
                xf = np.asarray(x, dtype=float)
                if not isinstance(x, np.ndarray) and np.ndim(x) == 0:
                    xf = float(x)
                cnt += 1
                try:
                    with warnings.catch_warnings():
                        warnings.simplefilter('ignore')
                        a = K(f, method=method, **kw)(x)
                        b = K(f, method=method, **kw)(xf)
                except Exception as e:
                    bad.append((repr(x)[:30], repr(e)[:80])); continue
                a, b = np.asarray(a), np.asarray(b)
                scale = max(1.0, float(np.max(np.abs(b))) if b.size else 1.0)
                if a.shape != b.shape or not np.allclose(a, b, rtol=1e-7, atol=1e-7 * scale):
                    bad.append((repr(x)[:30], a.tolist(), b.tolist()))
            solve.fact((name_fmt % clsname) + ',%s:integer-typed-x-gives-the-result-of-float-x[%d cases]' % (method, cnt), not bad,
                       kind='bounded', note=str(bad[:1])[:300])
    return out


def defaults_facts(keys):
    """one executed fact per entry point: its default arguments are the documented ones (table in ndvc.concrete)"""
    from ndvc.concrete import default_argument_mismatches
    for key in keys:
        bad = default_argument_mismatches([key])
        solve.fact('documented-default-arguments:%s' % key, not bad, note=str(bad)[:300])
