"""shared harness for the properties that run the whole derivative pipeline symbolically (C01, C02, C08, C09):
element-wise uninterpreted user function, contract stub of a step generator, free-symbol analysis, and the contract
obligations of _Limit._get_best_estimate."""
import numpy as np
import z3
from fractions import Fraction
from ndvc import solve
from ndvc.sym import R, C, Z, real, cplx, lift, CTX, explore, NeedsConcrete, uf, parts
from ndvc.arr import SymArr, asobj, emap, wrap

RS = z3.RealSort()


def free_syms(*terms):
    out = set()
    seen = set()

    def go(e):
        if e.get_id() in seen:
            return
        seen.add(e.get_id())
        if z3.is_const(e) and e.decl().kind() == z3.Z3_OP_UNINTERPRETED:
            out.add(str(e))
        for ch in e.children():
            go(ch)
    for t in terms:
        go(t)
    return out


def all_parts(v):
    v = lift(v)
    if isinstance(v, Z):
        return [v.t]
    return parts(v)


class ElementwiseF(object):
    """uninterpreted ELEMENT-WISE user function g, applied per element; records extra arguments"""

    def __init__(self, mc, name='g', complex_valued=False):
        self.mc = mc
        self.name = name
        self.complex_valued = complex_valued
        self.calls = []

    def one(self, v):
        v = lift(v)
        if isinstance(v, C):
            fre, fim = uf(self.name + '_cre', 2), uf(self.name + '_cim', 2)
            return C(R(fre(v.re.t, v.im.t)), R(fim(v.re.t, v.im.t)))
        if self.complex_valued:
            return C(R(uf(self.name + '_re')(v.t)), R(uf(self.name + '_im')(v.t)))
        return R(uf(self.name)(v.t))

    def __call__(self, x, *args, **kwds):
        self.calls.append((args, kwds))
        mc = self.mc
        if isinstance(x, mc.Bicomplex):
            z1 = asobj(x.z1); z2 = asobj(x.z2)
            o1 = np.empty(z1.shape, dtype=object); o2 = np.empty(z1.shape, dtype=object)
            fs = [uf(self.name + '_b%d' % k, 4) for k in range(4)]
            for idx in np.ndindex(z1.shape):
                a, b = C.lift(lift(z1[idx])), C.lift(lift(z2[idx]))
                ar = (a.re.t, a.im.t, b.re.t, b.im.t)
                o1[idx] = C(R(fs[0](*ar)), R(fs[1](*ar))); o2[idx] = C(R(fs[2](*ar)), R(fs[3](*ar)))
            return mc.Bicomplex(o1.view(SymArr) if z1.shape else o1[()], o2.view(SymArr) if z1.shape else o2[()])
        if isinstance(x, np.ndarray):
            return emap(self.one, x) if x.shape else self.one(x[()])
        return self.one(x)


class ElementwiseGen(object):
    """contract stub of a step generator (C10): K steps nom(x_k) * ratio**-i, element-wise in x, positive"""

    def __init__(self, K=7, ratio=2.0):
        self.K, self.step_ratio = K, ratio
        self.args = None

    def step_generator_function(self, x, method='forward', n=1, order=2):
        self.x = x
        self.args = (method, n, order)
        return self

    def steps(self):
        nom = uf('nom')

        def one(v, i):
            return R(nom(lift(v).real.t)) * Fraction(1, 2 ** i)
        out = []
        for i in range(self.K):
            x = self.x
            out.append(emap(lambda v: one(v, i), x) if isinstance(x, np.ndarray) and x.shape else one(asobj(x).ravel()[0], i))
        return out

    def __call__(self):
        return iter(self.steps())


def nom_positive_facts(xs):
    nom = uf('nom')
    return [nom(lift(v).real.t) > 0 for v in xs]


def best_estimate_obligations(lm, K, N, kind='real', tagp='', nan_branch=False):
    """contract of _Limit._get_best_estimate on havoc'd K x N tables (errors >= 0, finite):
    per column c one row k_c: value[c] == der[k_c, c], final_step[c] == steps[k_c, c], err[c] == penalised error of that
    entry, >= 0 and minimal in its column, index[c] == k_c*N + c; column c depends on column c only; der/steps unchanged"""
    mk = (lambda nm: real(nm)) if kind == 'real' else (lambda nm: cplx(nm))
    der = SymArr([[mk('d_%d_c%d' % (k, c)) for c in range(N)] for k in range(K)])
    err = SymArr([[real('e_%d_c%d' % (k, c)) for c in range(N)] for k in range(K)])
    stp = SymArr([[real('h_%d_c%d' % (k, c)) for c in range(N)] for k in range(K)])
    der0 = np.asarray(der).copy(); stp0 = np.asarray(stp).copy(); err0 = np.asarray(err).copy()
    pre = [err[k, c].t >= 0 for k in range(K) for c in range(N)]
    tag = '%sK=%d,N=%d,%s%s:' % (tagp, K, N, kind, ',NaN-branch' if nan_branch else '')
    old_isnan = lm.np.isnan
    if nan_branch:
        # drive the branch taken when some estimate is NaN (the table itself stays finite and symbolic: only the
        # reduction used on that branch is under test)
        lm.np.isnan = lambda a: (np.arange(np.size(asobj(a))).reshape(np.shape(asobj(a))) == 0) if isinstance(a, np.ndarray) else False
    try:
        paths = explore(lambda: lm._Limit._get_best_estimate(der, err, stp, (N,)), pre=pre, max_paths=16,
                        catch=(Exception,))
    finally:
        lm.np.isnan = old_isnan
    ok = len(paths) == 1 and paths[0].exc is None
    solve.fact(tag + 'single-path-no-exception', ok, note=str([repr(p.exc)[:120] for p in paths if p.exc][:1]))
    if not ok:
        return
    p = paths[0]
    val, info = p.value
    H = p.hyps
    pen = np.asarray(err)            # errors was updated in place: penalised errors
    solve.fact(tag + 'frame:der-and-steps-not-written',
               all(a is b for a, b in zip(np.asarray(der).ravel(), der0.ravel())) and all(a is b for a, b in zip(np.asarray(stp).ravel(), stp0.ravel())))
    solve.fact(tag + 'shapes', np.shape(val) == (N,) and np.shape(info.error_estimate) == (N,) and np.shape(info.final_step) == (N,))
    for c in range(N):
        cands = []
        for k in range(K):
            eqs = [a == b for a, b in zip(all_parts(val[c]), all_parts(der0[k, c]))]
            eqs += [lift(info.final_step[c]).t == stp0[k, c].t, lift(info.error_estimate[c]).t == lift(pen[k, c]).t,
                    lift(info.index[c]).t == k * N + c if isinstance(lift(info.index[c]), (R, Z)) else True]
            eqs += [lift(pen[k, c]).t <= lift(pen[j, c]).t for j in range(K)]
            cands.append(z3.And(*[e for e in eqs if e is not True]))
        solve.prove(tag + 'col%d:value,step,error,index-gathered-from-one-row-of-the-own-column-with-minimal-error' % c, z3.Or(*cands), H)
        solve.prove_lin(tag + 'col%d:error_estimate>=0' % c, lift(info.error_estimate[c]).t >= 0, H)
        solve.prove_lin(tag + 'col%d:penalty-only-increases-the-error' % c, z3.And(*[lift(pen[k, c]).t >= err0[k, c].t for k in range(K)]), H)
        fv = free_syms(*(all_parts(val[c]) + all_parts(info.error_estimate[c]) + all_parts(info.final_step[c]) + all_parts(info.index[c])))
        foreign = sorted(s for s in fv if '_c' in s and not s.endswith('_c%d' % c))
        solve.fact(tag + 'col%d:depends-on-its-own-column-only' % c, not foreign, note=str(foreign[:6]))
    if N >= 2:
        solve.twin(tag + 'col0-value-equals-col1-value', z3.And(*[a == b for a, b in zip(all_parts(val[0]), all_parts(val[1]))]), H)
