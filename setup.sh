#!/bin/sh
# run once after a fresh restore, offline: nothing is installed; sanity-check the tooling and byte-compile the engine
HERE="$(cd "$(dirname "$0")" && pwd)"
cd "$HERE"
python3-vt -c "import z3, numpy, scipy, sys; print('z3', z3.get_version_string(), 'numpy', numpy.__version__, 'scipy', scipy.__version__)" || exit 1
test -x /usr/bin/cvc5 || echo "warning: /usr/bin/cvc5 missing (z3-only mode)"
python3-vt -m compileall -q ndvc props tools >/dev/null 2>&1
PYTHONPATH="${NDVC_REPO:-/repo}/src:$HERE" python3-vt -m ndvc.selftest || exit 1
exit 0
