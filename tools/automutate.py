#!/usr/bin/env python3
"""automatic mutation campaign over the functions under contract.

  tools/automutate.py targets            -> tools/automutate_targets.json   (run under python3-vt: imports the contract modules)
  tools/automutate.py generate [N] [seed] -> tools/automutate_mutants.json  (AST-located one-token changes inside those functions)
  tools/automutate.py run [workers] [ids] -> tools/automutate_results.json  (scratch copies of /repo under /tmp, removed afterwards)

A mutant is one token changed inside a function that some property has under contract: comparison operators (< <= > >= == !=),
arithmetic operators (+ - * / //), and/or, a dropped `not`, small integer constants +-1.  For every mutant the quick check of
each property owning the function is run against a scratch copy (NDVC_REPO); the first check that exits 1 with a VIOLATION line
kills it.  Mutants that no owning check notices are then run through the repository's own test-suite in the same copy: those
that also pass the suite are the interesting ones (blind spot of the contracts, or an equivalent mutant) and are listed for
reading.  Nothing here touches /repo or writes evidence (NDVC_EVIDENCE_DIR is redirected)."""
import ast
import json
import os
import random
import re
import shutil
import subprocess
import sys
import time

HERE = os.path.dirname(os.path.dirname(os.path.abspath(__file__)))
REPO = os.environ.get('NDVC_REPO', '/repo')
T = os.path.join(HERE, 'tools')
PROPS = ['C%02d' % i for i in range(1, 20)]


def targets():
    sys.path.insert(0, HERE)
    sys.path.insert(0, os.path.join(REPO, 'src'))
    import importlib
    import inspect
    out = {}
    for p in PROPS:
        m = importlib.import_module('props.' + p)
        for f in m.functions_under_contract():
            f = getattr(f, '__func__', f)
            f = f.fget if isinstance(f, property) else f
            try:
                fn = inspect.getsourcefile(f)
                lines, start = inspect.getsourcelines(f)
            except (TypeError, OSError):
                continue
            rel = os.path.relpath(fn, os.path.join(REPO, 'src', 'numdifftools'))
            key = '%s:%d:%d:%s' % (rel, start, start + len(lines) - 1, getattr(f, '__qualname__', str(f)))
            out.setdefault(key, []).append(p)
    json.dump(out, open(os.path.join(T, 'automutate_targets.json'), 'w'), indent=0, sort_keys=True)
    print('%d functions under contract' % len(out))


CMP = {ast.Lt: ('<', '<='), ast.LtE: ('<=', '<'), ast.Gt: ('>', '>='), ast.GtE: ('>=', '>'), ast.Eq: ('==', '!='), ast.NotEq: ('!=', '==')}
BIN = {ast.Add: ('+', '-'), ast.Sub: ('-', '+'), ast.Mult: ('*', '/'), ast.Div: ('/', '*'), ast.FloorDiv: ('//', '/')}


def _offsets(text):
    offs = [0]
    for ln in text.split('\n'):
        offs.append(offs[-1] + len(ln.encode('utf8')) + 1)
    return offs


def generate(N=120, seed=7, append=False):
    tg = json.load(open(os.path.join(T, 'automutate_targets.json')))
    byfile = {}
    for key, props in tg.items():
        rel, a, b, qn = key.split(':', 3)
        byfile.setdefault(rel, []).append((int(a), int(b), qn, props))
    cands = []
    for rel, ranges in byfile.items():
        path = os.path.join(REPO, 'src', 'numdifftools', rel)
        raw = open(path, 'rb').read()
        text = raw.decode('utf8')
        tree = ast.parse(text)
        offs = _offsets(text)

        def pos(line, col):
            return offs[line - 1] + col

        def owner(line):
            own = [(a, b, qn, props) for (a, b, qn, props) in ranges if a <= line <= b]
            if not own:
                return None
            a, b, qn, props = min(own, key=lambda t: t[1] - t[0])
            return qn, sorted({p for (a2, b2, q2, ps) in own for p in ps})
        docstrings = set()
        for node in ast.walk(tree):
            if isinstance(node, (ast.FunctionDef, ast.ClassDef, ast.Module)) and node.body and isinstance(node.body[0], ast.Expr) \
                    and isinstance(getattr(node.body[0], 'value', None), ast.Constant) and isinstance(node.body[0].value.value, str):
                docstrings.add(id(node.body[0].value))

        def between(n1, n2, old, new, kind, line):
            s, e = pos(n1.end_lineno, n1.end_col_offset), pos(n2.lineno, n2.col_offset)
            seg = raw[s:e].decode('utf8')
            m = re.search(r'(?<![<>=!*/])' + re.escape(old) + r'(?![=*/])', seg)
            if not m:
                return
            own = owner(line)
            if own:
                cands.append(dict(file=rel, start=s + len(seg[:m.start()].encode('utf8')), old=old, new=new, kind=kind, line=line, function=own[0], props=own[1]))
        for node in ast.walk(tree):
            line = getattr(node, 'lineno', None)
            if line is None or owner(line) is None:
                continue
            if isinstance(node, ast.Compare) and len(node.ops) == 1 and type(node.ops[0]) in CMP:
                old, new = CMP[type(node.ops[0])]
                between(node.left, node.comparators[0], old, new, 'compare', line)
            elif isinstance(node, ast.BinOp) and type(node.op) in BIN:
                if isinstance(node.left, ast.Constant) and isinstance(node.left.value, str):
                    continue
                old, new = BIN[type(node.op)]
                between(node.left, node.right, old, new, 'arith', line)
            elif isinstance(node, ast.BoolOp) and len(node.values) == 2:
                old, new = ('and', 'or') if isinstance(node.op, ast.And) else ('or', 'and')
                between(node.values[0], node.values[1], old, new, 'boolop', line)
            elif isinstance(node, ast.UnaryOp) and isinstance(node.op, ast.Not):
                s = pos(node.lineno, node.col_offset)
                if raw[s:s + 4] == b'not ':
                    own = owner(line)
                    cands.append(dict(file=rel, start=s, old='not ', new='', kind='drop-not', line=line, function=own[0], props=own[1]))
            elif isinstance(node, ast.Constant) and type(node.value) is int and id(node) not in docstrings and abs(node.value) <= 10:
                s, e = pos(node.lineno, node.col_offset), pos(node.end_lineno, node.end_col_offset)
                old = raw[s:e].decode('utf8')
                if old != str(node.value):
                    continue
                own = owner(line)
                for new in (node.value + 1, node.value - 1):
                    cands.append(dict(file=rel, start=s, old=old, new=str(new), kind='const', line=line, function=own[0], props=own[1]))
    rnd = random.Random(seed)
    rnd.shuffle(cands)
    mp = os.path.join(T, 'automutate_mutants.json')
    have = json.load(open(mp)) if (append and os.path.exists(mp)) else []
    seen = {(c['file'], c['start'], c['new']) for c in have}
    per_fun = {}
    picked = []
    for c in cands:
        k = (c['file'], c['function'])
        if per_fun.get(k, 0) >= 2 or (c['file'], c['start'], c['new']) in seen:
            continue
        per_fun[k] = per_fun.get(k, 0) + 1
        picked.append(c)
        if len(picked) >= N:
            break
    for i, c in enumerate(picked):
        c['id'] = 'am%03d' % (len(have) + i)
    json.dump(have + picked, open(mp, 'w'), indent=0)
    print('new ids: am%03d .. am%03d' % (len(have), len(have) + len(picked) - 1))
    print('%d candidates, %d picked (at most 2 per function) over %d functions' % (len(cands), len(picked), len(per_fun)))


def _fresh_copy(dst):
    shutil.rmtree(dst, ignore_errors=True)
    os.makedirs(dst)
    subprocess.run('git -C %s archive HEAD | tar -x -C %s' % (REPO, dst), shell=True, check=True)


def _apply(copy, m):
    path = os.path.join(copy, 'src', 'numdifftools', m['file'])
    raw = open(path, 'rb').read()
    s = m['start']
    old = m['old'].encode('utf8')
    if raw[s:s + len(old)] != old:
        return False
    open(path, 'wb').write(raw[:s] + m['new'].encode('utf8') + raw[s + len(old):])
    return True


def _suite(copy):
    p = subprocess.run('cd %s && /venv/bin/python -m pytest -q -rA -p no:cacheprovider --timeout=900 --continue-on-collection-errors 2>&1 | '
                       "grep -E '^(PASSED|FAILED|ERROR) ' | sed 's/ - .*//' | sort" % copy, shell=True, capture_output=True, text=True)
    return p.stdout


def worker(wid, muts, outpath):
    copy = '/tmp/automut_%d' % wid
    _fresh_copy(copy)
    base_suite = _suite(copy)
    res = []
    for m in muts:
        _fresh_copy(copy)
        if not _apply(copy, m):
            res.append(dict(m, outcome='not-applicable'))
            continue
        r = dict(m, checks={})
        killed = None
        noticed = None
        for p in m['props']:
            t0 = time.time()
            env = dict(os.environ, NDVC_REPO=copy, NDVC_EVIDENCE_DIR=copy + '_evidence')
            try:
                q = subprocess.run(['timeout', '-k', '5', '1500', os.path.join(HERE, 'vcheck'), p, '--tier', 'quick', '--procs', '6'], capture_output=True, text=True, env=env, cwd=HERE)
                rc, out = q.returncode, q.stdout
            except Exception as e:
                rc, out = 99, repr(e)
            viol = [l for l in out.splitlines() if l.startswith('VIOLATION')]
            r['checks'][p] = dict(exit=rc, violations=len(viol), replayed=len([l for l in viol if 'no-failing-input-found' not in l]),
                                  first=(viol[0].split('obligation=')[-1][:140] if viol else ''), secs=round(time.time() - t0, 1))
            if rc == 1 and viol:
                killed = p
                break
            if rc not in (0, 1) and noticed is None:
                noticed = p
        if killed:
            r['outcome'] = 'killed'
        else:
            s = _suite(copy)
            r['suite'] = 'same' if s == base_suite else 'differs'
            r['outcome'] = ('noticed-not-decided' if noticed else 'survived') + ('+suite-passes' if s == base_suite else '+suite-fails')
        res.append(r)
        json.dump(res, open(outpath, 'w'), indent=0)
        print(wid, m['id'], m['file'], m['line'], m['kind'], repr(m['old']), '->', repr(m['new']), r['outcome'], killed or '', flush=True)
    shutil.rmtree(copy, ignore_errors=True)
    shutil.rmtree(copy + '_evidence', ignore_errors=True)


def run(workers=2, ids=None):
    muts = json.load(open(os.path.join(T, 'automutate_mutants.json')))
    if ids:
        muts = [m for m in muts if m['id'] in ids.split(',')]
    procs = []
    for w in range(workers):
        part = muts[w::workers]
        pid = os.fork()
        if pid == 0:
            worker(w, part, '/tmp/automut_res_%d.json' % w)
            os._exit(0)
        procs.append(pid)
    for pid in procs:
        os.waitpid(pid, 0)
    allr = []
    for w in range(workers):
        try:
            allr += json.load(open('/tmp/automut_res_%d.json' % w))
        except Exception:
            pass
    allr.sort(key=lambda r: r['id'])
    prev = []
    rp = os.path.join(T, 'automutate_results.json')
    if ids and os.path.exists(rp):
        prev = [r for r in json.load(open(rp)) if r['id'] not in {x['id'] for x in allr}]
    json.dump(sorted(prev + allr, key=lambda r: r['id']), open(rp, 'w'), indent=0)
    summary = {}
    for r in prev + allr:
        summary[r['outcome']] = summary.get(r['outcome'], 0) + 1
    print(summary)


if __name__ == '__main__':
    cmd = sys.argv[1] if len(sys.argv) > 1 else 'run'
    if cmd == 'targets':
        targets()
    elif cmd == 'generate':
        generate(int(sys.argv[2]) if len(sys.argv) > 2 else 120, int(sys.argv[3]) if len(sys.argv) > 3 else 7, append=len(sys.argv) > 4 and sys.argv[4] == 'append')
    else:
        run(int(sys.argv[2]) if len(sys.argv) > 2 else 2, sys.argv[3] if len(sys.argv) > 3 else None)
