#!/bin/sh
# confirm a seeded change independently: tools/confirm_seed.sh <dir-with-patch.diff+demo.py> 
# (1) demo passes on a clean scratch worktree, (2) fails with the patch, (3) the test-suite outcome list is unchanged
set -u
D="$1"
WT=/tmp/seedchk.$$
git -C /repo worktree add --detach "$WT" HEAD -q || exit 9
trap 'git -C /repo worktree remove --force "$WT" >/dev/null 2>&1' EXIT
BASE=/tmp/seed_baseline_outcomes.txt
suite() { (cd "$WT" && /venv/bin/python -m pytest -q -rA -p no:cacheprovider --timeout=900 --continue-on-collection-errors 2>&1 | grep -E '^(PASSED|FAILED|ERROR) ' | sed 's/ - .*//' | sort); }
if [ ! -s "$BASE" ]; then suite > "$BASE"; fi
PYTHONPATH="$WT/src" /venv/bin/python "$D/demo.py" >/tmp/seedchk.clean.$$ 2>&1; C=$?
git -C "$WT" apply "$D/patch.diff" || { echo "patch does not apply"; exit 8; }
PYTHONPATH="$WT/src" /venv/bin/python "$D/demo.py" >/tmp/seedchk.mut.$$ 2>&1; M=$?
suite > /tmp/seedchk.suite.$$
if cmp -s "$BASE" /tmp/seedchk.suite.$$; then S=same; else S=DIFFERENT; diff "$BASE" /tmp/seedchk.suite.$$ | head -5; fi
NP=$(grep -c '^PASSED' /tmp/seedchk.suite.$$)
echo "demo_clean_exit=$C demo_patched_exit=$M suite=$S passed=$NP"
tail -2 /tmp/seedchk.mut.$$ | cut -c1-200
rm -f /tmp/seedchk.clean.$$ /tmp/seedchk.mut.$$ /tmp/seedchk.suite.$$
[ "$C" = 0 ] && [ "$M" != 0 ] && [ "$S" = same ]
