#!/usr/bin/env python3
"""mutation self-test driver: apply each seeded one-token change of tools/mutants.json to a scratch copy of
/repo/src (under a temp dir outside /repo and /verif), run the named checks against the copy (NDVC_REPO), and
report which checks notice.  Usage: tools/mutate.py [--props C06,C05] [--ids m1,m2] [--tier quick]"""
import argparse
import json
import os
import shutil
import subprocess
import sys
import tempfile
import time

HERE = os.path.dirname(os.path.dirname(os.path.abspath(__file__)))


def main():
    ap = argparse.ArgumentParser()
    ap.add_argument('--props')
    ap.add_argument('--ids')
    ap.add_argument('--tier', default='quick')
    ap.add_argument('--suite', action='store_true', help='also run the baseline test-suite on each mutant')
    a = ap.parse_args()
    muts = json.load(open(os.path.join(HERE, 'tools', 'mutants.json')))
    if a.ids:
        muts = [m for m in muts if m['id'] in a.ids.split(',')]
    tmp = tempfile.mkdtemp(prefix='ndvc_mut_')
    res = []
    try:
        shutil.copytree('/repo/src', os.path.join(tmp, 'src'))
        for fn in ('setup.cfg', 'setup.py'):
            if os.path.exists('/repo/' + fn):
                shutil.copy('/repo/' + fn, tmp)
        for m in muts:
            props = m['props'] if not a.props else [p for p in m['props'] if p in a.props.split(',')]
            if not props:
                continue
            path = os.path.join(tmp, 'src', 'numdifftools', m['file'])
            src = open(path, newline='').read()
            if m['old'] not in src:
                print('%-40s SKIP (anchor text not found)' % m['id'])
                continue
            open(path, 'w', newline='').write(src.replace(m['old'], m['new'], 1))
            try:
                row = dict(id=m['id'])
                for p in props:
                    env = dict(os.environ, NDVC_REPO=tmp)
                    t = time.time()
                    r = subprocess.run([os.path.join(HERE, 'vcheck'), p, '--tier', a.tier], capture_output=True,
                                       text=True, env=env)
                    viol = [ln for ln in r.stdout.splitlines() if ln.startswith('VIOLATION')]
                    row[p] = dict(exit=r.returncode, violations=len(viol), first=(viol[0][:230] if viol else
                                  (r.stdout.strip().splitlines() or [''])[-1][:200]), secs=round(time.time() - t, 1))
                if a.suite:
                    r = subprocess.run('cd %s && /venv/bin/python -m pytest -q -p no:cacheprovider --timeout=900 '
                                       '--continue-on-collection-errors -x -q 2>&1 | tail -3' % tmp, shell=True,
                                       capture_output=True, text=True)
                    row['suite'] = r.stdout.strip().splitlines()[-1] if r.stdout.strip() else ''
                res.append(row)
                print(json.dumps(row))
                sys.stdout.flush()
            finally:
                open(path, 'w', newline='').write(src)
    finally:
        shutil.rmtree(tmp, ignore_errors=True)
    caught = sum(1 for r in res if any(isinstance(v, dict) and v.get('exit') == 1 for v in r.values()))
    print('mutants run: %d, caught (exit 1 by at least one check): %d' % (len(res), caught))
    missed = [r['id'] for r in res if not any(isinstance(v, dict) and v.get('exit') == 1 for v in r.values())]
    if missed:
        print('MISSED:', missed)
    return 0 if not missed else 1


if __name__ == '__main__':
    sys.exit(main())
