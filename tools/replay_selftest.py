#!/usr/bin/env python3
"""every native replay (ndvc/native_*.py) must NOT reproduce anything on the unchanged tree: a replay that always
"reproduces" would stamp every refuted obligation as confirmed natively.  Usage: tools/replay_selftest.py [repo] (default /repo);
exit 1 if any replay reproduces or errors.  (This is how finding F11 surfaced, and three over-strict replays were corrected.)"""
import json, subprocess, os, sys, tempfile
cases = [
 dict(kind='C01.poly', method='central', n=2, order=2, terms=2, ratio=2.0, complex_f=False),
 dict(kind='C01.poly', method='complex', n=3, order=4, terms=2, ratio=2.0, complex_f=False),
 dict(kind='C01.poly', method='forward', n=0, order=2, terms=2, ratio=2.0, complex_f=True),
 dict(kind='C02.record', klass='Derivative', method='central', toggled=False), dict(kind='C02.record', klass='Hessian', method='central', toggled=True),
 dict(kind='C02.record', klass='Jacobian', method='complex', toggled=False), dict(kind='C02.record', klass='Gradient', method='forward', toggled=False),
 dict(kind='C02.honesty', part='penalty[4,2]'), dict(kind='C02.honesty-concrete', name='exp,n=2,central,default-steps'), dict(kind='C02.honesty', part='argmin[3]'), dict(kind='C02.honesty', part='richardson-estimate'),
 dict(kind='C03.affine', method='central', klass='Jacobian', m=2, n=3, k=None, order=2), dict(kind='C03.affine', method='complex', klass='Jacobian', m='scalar', n=3, k=None, order=2),
 dict(kind='C03.affine', method='multicomplex', klass='Jacobian', m=2, n=2, k=3, order=2),
 dict(kind='C03.directional'), dict(kind='C03.layout'),
 dict(kind='C04.call', klass='Hessian', method='central', d=2, order=2, variant='plain'), dict(kind='C04.call', klass='Hessdiag', method='complex', d=3, order=2, variant='length-1-array-f'),
 dict(kind='C04.call', klass='Hessian', method='forward', d=2, order=2, variant='second-call-with-other-args'), dict(kind='C04.call', klass='Hessian', method='central2', d=2, order=2, variant='complex-valued-f'),
 dict(kind='C05.points', cls='HessianDifferenceFunctions', d=3, func='_central_even'), dict(kind='C05.points', cls='JacobianDifferenceFunctions', d=2, func='_central'),
 dict(kind='C05.points', cls='DifferenceFunctions', d=0, func='_complex_odd'), dict(kind='C05.points', cls='HessdiagDifferenceFunctions', d=2, func='_multicomplex2'),
 dict(kind='C05.glue', klass='Derivative', method='forward', n=2, order=2), dict(kind='C05.glue', klass='Hessian', method='central', n=2, order=2), dict(kind='C05.glue', klass='Jacobian', method='complex', n=1, order=2, other=['backward', 1, 2]),
 dict(kind='C05.dispatch', rule='LogRule', method='complex', n='', order=''), dict(kind='C05.dispatch', rule='LogHessianRule', method='central', n='', order=''),
 dict(kind='C06.exact', method='complex', n=8, order=2, step_ratios=[2.0, 1.6], x=0.3, h=0.5, history=[]), dict(kind='C06.exact', method='forward', n=3, order=4, step_ratios=[2.0, 4.0], x=0.3, h=0.5, history=[2]),
 dict(kind='C06.residual', method='central', n=2, order=4, step_ratios=[2.0], x=0.3, h=0.5, history=[]), dict(kind='C06.pairing'), dict(kind='C06.cache0'),
 dict(kind='C07.limit', ratio_kind='real', step=2, num_terms=3, order=2, length=6), dict(kind='C07.limit', ratio_kind='complex', step=1, num_terms=2, order=1, length=5),
 dict(kind='C07.errest', stepkind='complex', m_old=3, datakind='complex', model={}), dict(kind='C07.columns'), dict(kind='C07.reconf'), dict(kind='C07.intcfg'),
 dict(kind='C08.elementwise', method='central', n=1, order=2), dict(kind='C08.elementwise', method='backward', n=2, order=1), dict(kind='C08.cconc'),
 dict(kind='C09.history', method='central', n=1, order=2), dict(kind='C09.history', method='forward', n=2, order=2), dict(kind='C09.cache0'),
 dict(kind='C10.seq', cls='Min', opt_index=3, method='central', n=2, order=4, tier='quick'), dict(kind='C10.count', method='complex', hessdiag=False, n=None, order=None),
 dict(kind='C10.count', method='central', hessdiag=True, n=None, order=None), dict(kind='C10.cseq'), dict(kind='C10.intx'),
 dict(kind='C11.misuse', group='matrix', klass=None),
 dict(kind='C12.idempotent', group='entire', function='sin'), dict(kind='C12.idempotent', group='log', function='log'), dict(kind='C12.idempotent', group='branch', function=''), dict(kind='C12.small'), dict(kind='C12.containers'),
 dict(kind='C13.geometric'), dict(kind='C13.total'), dict(kind='C13.frame'), dict(kind='C13.elementwise'), dict(kind='C13.intterms'), dict(kind='C13.symmetric'),
 dict(kind='C14.epsalg'), dict(kind='C14.dea', limexp=5, n=4), dict(kind='C14.shift'),
 dict(kind='C15.weights', m=5, n=2), dict(kind='C16.deriv', n=2, m=2, N=None), dict(kind='C16.guards'), dict(kind='C15.intnodes'), dict(kind='C15.held'), dict(kind='C16.grids'),
 dict(kind='C17.taylor', group='poly'), dict(kind='C18.limit', path='spiral', method='above', order=4), dict(kind='C18.residue', pole_order=2), dict(kind='C18.nan'), dict(kind='C19.wrapper'),
 dict(kind='C05.signs'), dict(kind='C05.pconc'), dict(kind='C12.consumers'), dict(kind='C04.dconc'), dict(kind='C04.hrule'), dict(kind='C09.shared'), dict(kind='C14.dconc'),
 dict(kind='C17.tconc', name='cos((z-z0)^2),z0=0.0,default-options'), dict(kind='C18.lconc'), dict(kind='C11.misuse', group='steps', klass=None), dict(kind='C03.views'), dict(kind='C03.shapes'),
 dict(kind='C06.exact', method='forward', n=2, order=2, step_ratios=[2 ** 0.5, 1.23456789, 3.0 ** 0.5], x=0.3, h=0.5, history=[]),
 dict(kind='C10.reuse'), dict(kind='C17.stages'), dict(kind='C17.alias'), dict(kind='common.defaults'), dict(kind='C17.tconc', name='exp(200000*z),z0=0.0,default-options'),
 dict(kind='common.intx', klass='Hessian', method='central2', f='poly3'), dict(kind='common.intx', klass='Derivative', method='complex', n=2, f='cubic'), dict(kind='common.intx', klass='Jacobian', method='forward', f='vec2'),
]
repo = sys.argv[1] if len(sys.argv) > 1 else '/repo'
nbad = 0
env = dict(os.environ, PYTHONPATH=repo + '/src:/verif')
for c in cases:
    with tempfile.NamedTemporaryFile('w', suffix='.json', delete=False) as f:
        json.dump(dict(case=c), f)
    p = subprocess.run(['/venv/bin/python', '-m', 'ndvc.native', f.name], capture_output=True, text=True, env=env, cwd='/verif')
    os.unlink(f.name)
    out = [l for l in p.stdout.splitlines() if l.startswith('{')]
    try:
        r = json.loads(out[-1])
        flag = 'REPRODUCED' if r.get('reproduced') else 'ok'
        nbad += flag != 'ok'
        print('%-10s %-18s %s' % (flag, c['kind'], '' if flag == 'ok' else json.dumps(r)[:400]))
    except Exception as e:
        nbad += 1
        print('ERROR      %-18s %s | %s' % (c['kind'], p.stdout[-200:], p.stderr[-300:]))
print('%d replay cases, %d reproduced / errored on %s' % (len(cases), nbad, repo))
sys.exit(1 if nbad else 0)
