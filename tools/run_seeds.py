#!/usr/bin/env python3
"""apply each seeded change under /verif/seeded/<id>/ to /repo, run the checks for its property (and any extra ones
named on the command line), undo it straight afterwards, and record which check catches which change in
seeded/RESULTS.json.  Usage: tools/run_seeds.py [--only C06-A,C13-B] [--checks C06,C09] [--tier quick]"""
import argparse, json, os, subprocess, sys, time
HERE = os.path.dirname(os.path.dirname(os.path.abspath(__file__)))


def main():
    ap = argparse.ArgumentParser()
    ap.add_argument('--only'); ap.add_argument('--checks'); ap.add_argument('--tier', default='quick')
    a = ap.parse_args()
    sd = os.path.join(HERE, 'seeded')
    ids = sorted(d for d in os.listdir(sd) if os.path.isdir(os.path.join(sd, d)))
    if a.only:
        ids = [i for i in ids if i in a.only.split(',')]
    if subprocess.run(['git', '-C', '/repo', 'status', '--porcelain', '--untracked-files=no'], capture_output=True, text=True).stdout.strip():
        print('refusing: /repo has uncommitted changes'); return 2
    respath = os.path.join(sd, 'RESULTS.json')
    results = json.load(open(respath)) if os.path.exists(respath) else {}
    have = set(os.path.splitext(f)[0] for f in os.listdir(os.path.join(HERE, 'props')) if f.startswith('C'))
    for i in ids:
        meta = json.load(open(os.path.join(sd, i, 'meta.json')))
        prop = meta.get('property', i.split('-')[0])
        checks = a.checks.split(',') if a.checks else [prop] + list(meta.get('also_checks', []))
        checks = [c for c in checks if c in have]
        if not checks:
            print('%-8s no check built yet for %s' % (i, prop)); continue
        r = subprocess.run(['git', '-C', '/repo', 'apply', os.path.join(sd, i, 'patch.diff')], capture_output=True, text=True)
        if r.returncode:
            # the seed was written against the original snapshot; later fix: commits may have moved its context
            r = subprocess.run(['git', '-C', '/repo', 'apply', '--3way', os.path.join(sd, i, 'patch.diff')], capture_output=True, text=True)
            subprocess.run(['git', '-C', '/repo', 'reset', '-q'])
            if r.returncode:
                subprocess.run(['git', '-C', '/repo', 'checkout', '--', '.'])
                print('%-8s patch does not apply: %s' % (i, r.stderr[:200])); continue
        try:
            for c in checks:
                t = time.time()
                env = dict(os.environ, NDVC_EVIDENCE_DIR='/tmp/ndvc_seed_evidence')      # keep the committed evidence (clean tree)
                r = subprocess.run([os.path.join(HERE, 'vcheck'), c, '--tier', a.tier], capture_output=True, text=True, env=env)
                viol = [l for l in r.stdout.splitlines() if l.startswith('VIOLATION')]
                repl = sum(1 for l in viol if 'no-failing-input-found' not in l)
                results.setdefault(i, {})[c] = dict(exit=r.returncode, violation_lines=len(viol), replayed_natively=repl,
                                                     first=(viol[0].split('obligation=')[-1] if viol else r.stdout.strip().splitlines()[-1][:160]),
                                                     tier=a.tier, secs=round(time.time() - t, 1))
                print('%-8s %s exit=%d violations=%d replayed=%d  %s' % (i, c, r.returncode, len(viol), repl, results[i][c]['first'][:110]))
                sys.stdout.flush()
        finally:
            subprocess.run(['git', '-C', '/repo', 'checkout', '--', '.'])
    json.dump(results, open(respath, 'w'), indent=1, sort_keys=True)
    return 0


if __name__ == '__main__':
    sys.exit(main())
