#!/usr/bin/env python3
"""print the markdown table of DESIGN.md section 0.6 from seeded/RESULTS.json and seeded/<id>/meta.json;
with --write, splice it into DESIGN.md between the SEEDTABLE markers"""
import json, os, sys
HERE = os.path.dirname(os.path.dirname(os.path.abspath(__file__)))


def main():
    res = json.load(open(os.path.join(HERE, 'seeded', 'RESULTS.json')))
    rows = ['| seed | change | caught by | replayed natively | first failed obligation |', '|---|---|---|---|---|']
    missed = []
    stale = []
    for sid in sorted(res):
        mp = os.path.join(HERE, 'seeded', sid, 'meta.json')
        if not os.path.exists(mp):
            continue
        meta = json.load(open(mp))
        hits = [(c, r) for c, r in sorted(res[sid].items()) if r['exit'] == 1 and r['violation_lines'] > 0]
        if meta.get('stale_at_head'):
            # written and caught against an earlier HEAD of /repo; a later fix commit removed the mechanism: on the final HEAD the patched
            # tree passes the seed's own demo, and the check passes on it too (the row shows the outcome at the HEAD it was written for)
            stale.append(sid)
        elif not hits:
            missed.append(sid)
        own = [h for h in hits if h[0] == meta.get('property', sid.split('-')[0])]
        first = (own or hits or [(None, dict(first='(not caught)', replayed_natively=0))])[0]
        rows.append('| %s | %s | %s | %s | `%s` |' % (
            sid + (' (stale)' if meta.get('stale_at_head') else ''), meta['summary'][:110].replace('|', '/').replace('\n', ' '), ', '.join(c for c, _ in hits) or '**missed**',
            'yes' if any(r['replayed_natively'] for _, r in hits) else 'no',
            first[1]['first'][:90].replace('|', '/').replace(' no-failing-input-found', '')))
    text = '\n'.join(rows) + '\n\n%d seeded changes, %d caught%s%s.\n' % (len(rows) - 2, len(rows) - 2 - len(missed), (' (missed: %s)' % ', '.join(missed)) if missed else '',
                                                                          ('; %d of them (%s) are stale on the final HEAD of /repo -- a later fix removed the mechanism they used: the patched tree passes the seed\'s own demo and the check alike (reason in each meta.json)' % (len(stale), ', '.join(stale))) if stale else '')
    if '--write' in sys.argv:
        p = os.path.join(HERE, 'DESIGN.md')
        s = open(p).read()
        a, b = '<!-- SEEDTABLE:BEGIN -->', '<!-- SEEDTABLE:END -->'
        if a in s and b in s:
            s = s[:s.index(a) + len(a)] + '\n' + text + s[s.index(b):]
            open(p, 'w').write(s)
            print('DESIGN.md updated: %d rows' % (len(rows) - 2))
        else:
            print('markers not found'); return 1
    else:
        print(text)
    return 0


if __name__ == '__main__':
    sys.exit(main())
